"""C18 — duplicate-surface removal never changes any cell's region.

Obligations: coq/Properties/C18.v over coq/Model/Dedup.v, Part 1 (the code at /repo HEAD: find_duplicate_surfaces x3 with
Surface._may_be_merged_with, Transform.equivalent, the problem-level scan, cell / half-space re-pointing with
cell.surfaces kept consistent, periodic partners re-pointed, the removal).
Correspondence: generated problems (families of equal / near-equal / look-alike surfaces, shared by many
cells) are read by the real MontePy, optionally edited (incl. earlier calls and edits aimed at what an earlier call
changed), then `remove_duplicate_surfaces(tol)` is called; the state observed just before the call is sent to the
extracted model and everything observable after the call is compared (surviving numbers in order, the matching map as
the cells received it, every cell's geometry tree and cell.surfaces (as a set), every survivor's periodic / transform
pointer, the exception class).  Cases with earlier edits are run a second time with nothing observed before the call.
Oracle (independent of the model): spec.py reads the text before and the text written after the call:
merged pairs must be true duplicates (type, boundary condition, transform, periodicity, constants within
tolerance), every cell's truth table is unchanged once merged surfaces are identified, no cell / periodic
pointer refers to a removed surface, surviving surfaces and senses are untouched; the live objects are
walked independently for the same sentences.  There is no open known finding: every oracle failure is a violation.
"""
import hashlib
import json
import os
import random
import re
import warnings
from fractions import Fraction

import vlib
import spec
import gen
import mp

MODEL = "Dedup"


# ============================================================================ real side
def _classes():
    from montepy.surfaces.axis_plane import AxisPlane
    from montepy.surfaces.cylinder_on_axis import CylinderOnAxis
    from montepy.surfaces.cylinder_par_axis import CylinderParAxis
    return AxisPlane, CylinderOnAxis, CylinderParAxis


def q(x):
    f = Fraction(float(x))
    return "%d/%d" % (f.numerator, f.denominator)


def walk(g):
    """independent walk of cell.geometry -> prefix token list (same alphabet as Dedup.show_geom)"""
    from montepy.surfaces.half_space import UnitHalfSpace
    from montepy.geometry_operators import Operator
    if isinstance(g, UnitHalfSpace):
        d = g._divider
        n = d if isinstance(d, int) else d.number
        if g._is_cell:
            return ["c%d" % n]
        return [("p" if g._side else "m") + str(n)]
    op = g._operator
    if op == Operator.COMPLEMENT:
        return ["N"] + walk(g._left)
    k = "A" if op == Operator.INTERSECTION else "O"
    return [k] + walk(g._left) + walk(g._right)


def has_int_divider(g):
    from montepy.surfaces.half_space import UnitHalfSpace
    if isinstance(g, UnitHalfSpace):
        return isinstance(g._divider, int)
    return has_int_divider(g._left) or (g._right is not None and has_int_divider(g._right))


def tr_wire(t):
    return "%d@%d@%d@%s@%s" % (
        t.number, 1 if t.is_in_degrees else 0, 1 if t.is_main_to_aux else 0,
        ",".join(q(x) for x in t.displacement_vector) or "-",
        ",".join(q(x) for x in t.rotation_matrix) or "-")


def surf_wire(s):
    A, O, P = _classes()
    cl = "A" if isinstance(s, A) else "O" if isinstance(s, O) else "P" if isinstance(s, P) else "X"
    ty = s.surface_type.value.upper() if s.surface_type is not None else "NONE"
    per = s.periodic_surface.number if s.periodic_surface is not None else 0
    return ":".join([
        str(s.number), cl, ty, ",".join(q(x) for x in s.surface_constants) or "-",
        str(s.old_periodic_surface or 0), str(per), "1" if s.is_reflecting else "0",
        "1" if s.is_white_boundary else "0", str(s.old_transform_number or 0),
        tr_wire(s.transform) if s.transform is not None else "-"])


def cell_wire(c, ordered=True):
    ss = [s.number for s in c.surfaces]
    if not ordered:
        ss.sort()           # cell.surfaces is a set to the code (membership, remove): its order is not compared
    return "%d:%s:%s" % (c.number, ",".join(str(n) for n in ss) or "-", ",".join(walk(c.geometry)))


def transforms_of(pr):
    from montepy.data_inputs.transform import Transform
    return [d for d in pr.data_inputs if isinstance(d, Transform)]


def request_of(pr, tol):
    ss = ";".join(surf_wire(s) for s in pr.surfaces) or "-"
    cs = ";".join(cell_wire(c) for c in pr.cells) or "-"
    ts = ";".join(tr_wire(t) for t in transforms_of(pr)) or "-"
    return "c %s %s %s %s" % (q(tol), ss, cs, ts)


def snapshot(pr):
    """what the oracle needs from the live objects (numbers only)"""
    return {
        "surfs": [s.number for s in pr.surfaces],
        "cells": {c.number: walk(c.geometry) for c in pr.cells},
        "cell_surfs": {c.number: sorted(s.number for s in c.surfaces) for c in pr.cells},
        "ptrs": {s.number: (s.periodic_surface.number if s.periodic_surface is not None else 0,
                            s.transform.number if s.transform is not None else 0) for s in pr.surfaces},
        "bc": {s.number: (bool(s.is_reflecting), bool(s.is_white_boundary)) for s in pr.surfaces},
        "unique": len({s.number for s in pr.surfaces}) == len(list(pr.surfaces)),
        "class_ok": all(class_consistent(s) for s in pr.surfaces),
        "int_dividers": any(has_int_divider(c.geometry) for c in pr.cells),
        # the remaining hypotheses of the theorems (measured; a case where one fails is still run and judged)
        "links": all({int(t[1:]) for t in walk(c.geometry) if t[0] in "pm"} <= {s.number for s in c.surfaces}
                     for c in pr.cells),
        "disp3": all(len(t.displacement_vector) == 3 for t in transforms_of(pr)),
        "arity": all(len(s.surface_constants) == ARITY.get(s.surface_type.value.lower(), len(s.surface_constants))
                     for s in pr.surfaces if s.surface_type is not None),
    }


def class_consistent(s):
    A, O, P = _classes()
    ty = s.surface_type.value.upper() if s.surface_type is not None else ""
    want = A if ty in ("PX", "PY", "PZ") else O if ty in ("CX", "CY", "CZ") else P if ty in ("C/X", "C/Y", "C/Z") else None
    if want is None:
        return not isinstance(s, (A, O, P))
    return type(s) is want


def call_dedup(pr, tol):
    """-> (exception class name | None, matching map as the cells received it [(dead, new)...] | None).
    The map is the dict handed to the first cell; a problem without cells hands it to nobody: it is then rebuilt from
    the answers of the find_duplicate_surfaces calls, in call order, with dict semantics."""
    import montepy
    from montepy.surfaces.surface import Surface
    seen = []
    answers = []
    orig = montepy.cell.Cell.remove_duplicate_surfaces

    def spy(self, deleting_dict):
        if not seen:
            seen.append([(k.number, v.number) for k, v in deleting_dict.items()])
        return orig(self, deleting_dict)

    classes = [Surface] + list(_classes())
    originals = {}

    def make(cls, f):
        def wrapped(self, surfaces, tolerance):
            ret = f(self, surfaces, tolerance)
            answers.append((self.number, [m.number for m in ret]))
            return ret
        return wrapped
    for cls in classes:
        if "find_duplicate_surfaces" in cls.__dict__:
            originals[cls] = cls.__dict__["find_duplicate_surfaces"]
            setattr(cls, "find_duplicate_surfaces", make(cls, originals[cls]))
    montepy.cell.Cell.remove_duplicate_surfaces = spy
    try:
        with warnings.catch_warnings():
            warnings.simplefilter("ignore")
            pr.remove_duplicate_surfaces(tol)
        exc = None
    except Exception as e:          # noqa: BLE001 - the class is the observation
        exc = type(e).__name__
    finally:
        montepy.cell.Cell.remove_duplicate_surfaces = orig
        for cls, f in originals.items():
            setattr(cls, "find_duplicate_surfaces", f)
    if seen:
        return exc, seen[0]
    if exc is None and len(list(pr.cells)) == 0:
        d = {}
        for me, ms in answers:
            for x in ms:
                d[x] = me
        return exc, list(d.items())
    return exc, None


def real_response(pr, exc, mmap):
    if exc is not None:
        return "err " + exc
    surv = ",".join(str(s.number) for s in pr.surfaces) or "-"
    m = ",".join("%d>%d" % kv for kv in (mmap or [])) or "-"
    dele = ",".join(str(k) for k in sorted(k for k, _ in (mmap or []))) or "-"
    cs = ";".join(cell_wire(c, ordered=False) for c in pr.cells) or "-"
    ps = ";".join("%d:%d:%d" % (s.number,
                                s.periodic_surface.number if s.periodic_surface is not None else 0,
                                s.transform.number if s.transform is not None else 0) for s in pr.surfaces) or "-"
    return "ok %s %s %s %s %s" % (surv, m, dele, cs, ps)


def canon_model(ans):
    """the model lists to_delete in insertion order; a Python set has no order: sort it"""
    w = ans.split(" ")
    if len(w) == 6 and w[0] == "ok":
        if w[3] != "-":
            w[3] = ",".join(str(x) for x in sorted(int(x) for x in w[3].split(",")))
        if w[4] != "-":
            cells = []
            for c in w[4].split(";"):
                n, ss, g = c.split(":")
                if ss != "-":
                    ss = ",".join(str(x) for x in sorted(int(x) for x in ss.split(",")))
                cells.append(":".join([n, ss, g]))
            w[4] = ";".join(cells)
    return " ".join(w)


# ----------------------------------------------------------------------------- edits before the call
def apply_pre(pr, pre):
    """earlier edits; raises whatever the real code raises.  Some edits aim at what an earlier call just changed:
    the number it freed, the survivor the cells were just re-pointed to."""
    freed, survivors = [], []
    for op in pre:
        k = op[0]
        if k == "dedup":
            had = [s.number for s in pr.surfaces]
            with warnings.catch_warnings():
                warnings.simplefilter("ignore")
                pr.remove_duplicate_surfaces(float.fromhex(op[1]))
            now = [s.number for s in pr.surfaces]
            freed = [n for n in had if n not in now]
            used = set()
            for c in pr.cells:
                used |= {int(t[1:]) for t in walk(c.geometry) if t[0] in "pm"}
            survivors = [n for n in now if n in used]
        elif k == "renum_to_freed":
            if freed and len(pr.surfaces) > 0:
                ss = list(pr.surfaces)
                ss[op[1] % len(ss)].number = freed[op[2] % len(freed)]
        elif k == "geom_survivor":
            if survivors and len(pr.cells) > 0:
                cs = list(pr.cells)
                sv = pr.surfaces[survivors[op[2] % len(survivors)]]
                cs[op[1] % len(cs)].geometry &= (+sv if op[3] else -sv)
        elif k == "mat":
            pr.cells[op[1]].material = pr.materials[op[2]]
        elif k == "renum_surf":
            pr.surfaces[op[1]].number = op[2]
        elif k == "renum_tr":
            pr.transforms[op[1]].number = op[2]
        elif k == "set_tr":
            pr.surfaces[op[1]].transform = pr.transforms[op[2]]
        elif k == "del_tr":
            del pr.surfaces[op[1]].transform
        elif k == "set_per":
            pr.surfaces[op[1]].periodic_surface = pr.surfaces[op[2]]
        elif k == "del_per":
            del pr.surfaces[op[1]].periodic_surface
        elif k == "set_refl":
            pr.surfaces[op[1]].is_reflecting = bool(op[2])
        elif k == "set_white":
            pr.surfaces[op[1]].is_white_boundary = bool(op[2])
        elif k == "geom_and":
            s = pr.surfaces[op[2]]
            pr.cells[op[1]].geometry &= (+s if op[3] else -s)
        elif k == "geom_or":
            s = pr.surfaces[op[2]]
            pr.cells[op[1]].geometry |= (+s if op[3] else -s)
        elif k == "write":
            mp.write_problem(pr, "pre.i")
        elif k == "set_const":
            s = pr.surfaces[op[1]]
            c = list(s.surface_constants)
            c[op[2]] = float.fromhex(op[3])
            s.surface_constants = c
        else:
            raise ValueError("unknown pre op %r" % (op,))


def build(case):
    pr = mp.read_problem(case["text"])
    apply_pre(pr, case.get("pre", []))
    return pr


# ============================================================================ oracle (independent of the model)
IDENT = {False: [1, 0, 0, 0, 1, 0, 0, 0, 1], True: [0, 90, 90, 90, 0, 90, 90, 90, 0]}


def spec_view(text):
    """what an independent reader sees in a file: surfaces, transforms, cell geometries"""
    sf = spec.split_file(text)
    blocks = sf["blocks"] + [[]] * (3 - len(sf["blocks"]))
    cells = {}
    order = []
    for card in blocks[0]:
        c = spec.parse_cell(card)
        cells[c["number"]] = c["geom"]
    surfs = {}
    for card in blocks[1]:
        s = spec.parse_surface(card)
        s["values"] = [Fraction(float(v)) for v in s["constants"]]     # what a reader stores: doubles
        surfs[s["number"]] = s
        order.append(s["number"])
    trs = {}
    for card in blocks[2]:
        toks = spec.tokens(card.text)
        m = re.match(r"^(\*?)TR(\d+)$", toks[0]) if toks else None
        if m:
            vals = [Fraction(float(v)) for v in spec.expand_shortcuts(toks[1:])]
            rot = vals[3:12]
            m2a = True
            if len(rot) == 9 and len(vals) > 12:
                m2a = vals[12] > 0
            trs[int(m.group(2))] = {"deg": m.group(1) == "*", "disp": vals[:3], "rot": rot, "m2a": m2a}
    return {"cells": cells, "surfs": surfs, "order": order, "trs": trs}


def tr_same(ta, tb, tol):
    """True / False / None (cannot judge)"""
    if ta is None and tb is None:
        return True
    if ta is None or tb is None:
        return False
    if ta is tb:
        return True
    if ta["deg"] != tb["deg"] or ta["m2a"] != tb["m2a"]:
        return None
    if any(not _within(x, y, tol) for x, y in zip(ta["disp"], tb["disp"])):
        return False
    ra = ta["rot"] or [Fraction(v) for v in IDENT[ta["deg"]]]
    rb = tb["rot"] or [Fraction(v) for v in IDENT[tb["deg"]]]
    if len(ra) != len(rb):
        return None
    return all(_within(x, y, tol) for x, y in zip(ra, rb))


def bc_of(sv):
    """(reflecting, white) of a surface view: the live flags when the oracle was given them (a flag set through the
    API shows on the card only once the surface is written), else what the card's marker says"""
    if "live_bc" in sv:
        return sv["live_bc"]
    return (sv["modifier"] == "*", sv["modifier"] == "+")


def per_tr(sv):
    """(periodic partner | 0, transform number | 0) of a surface view: the live pointers when the oracle was given
    them (an object can have both; a card shows one), else what the card's pointer says"""
    if "live" in sv:
        return sv["live"]
    p = sv["pointer"]
    return (-p if p is not None and p < 0 else 0, p if p is not None and p > 0 else 0)


def true_duplicate(sa, sb, trs, tol):
    """the property's criteria for a merged pair, judged on what spec read; -> list of reasons it is not"""
    why = []
    if sa["mnemonic"] != sb["mnemonic"]:
        why.append("type")
    if bc_of(sa) != bc_of(sb):
        why.append("boundary-condition")
    if per_tr(sa)[0] or per_tr(sb)[0]:
        why.append("periodic")
    ta = trs.get(per_tr(sa)[1]) if per_tr(sa)[1] else None
    tb = trs.get(per_tr(sb)[1]) if per_tr(sb)[1] else None
    if tr_same(ta, tb, tol) is False:
        why.append("transform")
    if len(sa["values"]) != len(sb["values"]) or any(not _within(x, y, tol) for x, y in zip(sa["values"], sb["values"])):
        why.append("constants")
    return why


def _within(x, y, tol):
    """|x - y| < tol, exactly or as the doubles the code subtracts (a difference that only rounding brings under the
    tolerance is not held against the code)"""
    return abs(x - y) < tol or abs(float(x) - float(y)) < float(tol) or abs(float(y) - float(x)) < float(tol)


def ast_of_walk(toks):
    pos = [0]

    def rec():
        t = toks[pos[0]]
        pos[0] += 1
        if t == "A":
            a = rec(); b = rec()
            return ("and", a, b)
        if t == "O":
            a = rec(); b = rec()
            return ("or", a, b)
        if t == "N":
            return ("not", rec())
        if t[0] == "c":
            return ("cell", int(t[1:]))
        return ("leaf", 1 if t[0] == "p" else -1, int(t[1:]))
    return rec()


def rename_walk(toks, ren):
    out = []
    for t in toks:
        if t[0] in "pm":
            out.append(t[0] + str(ren.get(int(t[1:]), int(t[1:]))))
        else:
            out.append(t)
    return out


def identification(ren):
    """merged surfaces identified: the equivalence generated by the map's pairs (a survivor that is itself merged into
    a third surface is identified with it too) -> {("s", n): representative}"""
    rep = {}

    def find(x):
        while rep.get(x, x) != x:
            x = rep[x]
        return x
    for d, s in ren.items():
        a, b = find(d), find(s)
        if a != b:
            rep[max(a, b)] = min(a, b)
    members = set(ren) | set(ren.values())
    return {("s", n): find(n) for n in members}


def oracle(case, before_text, before, after_text, after, mmap, tol):
    """-> list of failures (kind, detail).  before/after: snapshots of the live objects."""
    fails = []
    tolq = Fraction(float(tol))
    B = spec_view(before_text)
    # pointers as the live objects had them at the call (a deleted / reassigned transform or periodic surface is not
    # reliably visible in a file written before the call: that is the writer's business, not this property's)
    for n, sv in B["surfs"].items():
        if n in before["ptrs"]:
            per, tr = before["ptrs"][n]
            sv["live"] = (per, tr)
        if n in before.get("bc", {}):
            sv["live_bc"] = tuple(before["bc"][n])
            sv["pointer"] = -per if per else (tr if tr else None)
    ren = dict(mmap or [])
    removed = [n for n in before["surfs"] if n not in after["surfs"]]
    # (0) what was removed is what the map says, and nothing appeared
    if sorted(removed) != sorted(ren) or [n for n in after["surfs"] if n not in before["surfs"]]:
        fails.append(("removed-set", {"removed": removed, "map": sorted(ren.items()), "after": after["surfs"]}))
    # (1) only true duplicates are merged
    for d, s in ren.items():
        if d in B["surfs"] and s in B["surfs"]:
            why = true_duplicate(B["surfs"][s], B["surfs"][d], B["trs"], tolq)
            for w in why:
                fails.append(("not-a-duplicate:" + w, {"dead": d, "survivor": s, "differs_in": why}))
    # (2) live objects: same tree shape and senses, leaves renamed by the map; untouched if no removed leaf
    for cn, wb in before["cells"].items():
        wa = after["cells"].get(cn)
        if wa is None:
            fails.append(("cell-lost", cn)); continue
        if wa != rename_walk(wb, ren):
            if [t[0] for t in wa] != [t[0] for t in wb]:
                fails.append(("sense-or-shape-changed", {"cell": cn, "before": wb, "after": wa}))
            elif not spec.geom_equal(ast_of_walk(wb), ast_of_walk(wa), rename=identification(ren)):
                fails.append(("region-changed", {"cell": cn, "before": wb, "after": wa}))
        dang = sorted({int(t[1:]) for t in wa if t[0] in "pm"} - set(after["surfs"]))
        if dang:
            fails.append(("dangling-leaf", {"cell": cn, "surfaces": dang, "after": wa}))
        bad = sorted(set(after["cell_surfs"].get(cn, [])) - set(after["surfs"]))
        if bad:
            fails.append(("cell.surfaces-has-removed", {"cell": cn, "surfaces": bad}))
    # (3) survivors untouched (live pointers)
    for n in after["surfs"]:
        if n in before["ptrs"] and before["ptrs"][n] != after["ptrs"][n]:
            pb, pa = before["ptrs"][n], after["ptrs"][n]
            if not (pb[1] == pa[1] and ren.get(pb[0]) == pa[0]):
                fails.append(("survivor-pointer-changed", {"surface": n, "before(per,tr)": pb, "after(per,tr)": pa}))
        if n in before.get("bc", {}) and tuple(before["bc"][n]) != tuple(after["bc"][n]):
            fails.append(("survivor-boundary-changed", {"surface": n, "before": before["bc"][n], "after": after["bc"][n]}))
        if after["ptrs"][n][0] and after["ptrs"][n][0] not in after["surfs"]:
            fails.append(("dangling-periodic", {"surface": n, "periodic": after["ptrs"][n][0]}))
    surv_order = [n for n in before["surfs"] if n in after["surfs"]]
    if surv_order != after["surfs"]:
        fails.append(("survivor-order", {"before": before["surfs"], "after": after["surfs"]}))
    # (4) the written file, read by the independent reader
    if after_text is not None:
        try:
            A = spec_view(after_text)
        except Exception as e:      # noqa: BLE001
            fails.append(("written-file-unreadable", repr(e)))
            return fails
        if A["order"] != after["surfs"]:
            fails.append(("file-surfaces", {"file": A["order"], "objects": after["surfs"]}))
        sren = identification(ren)
        for cn, gb in B["cells"].items():
            ga = A["cells"].get(cn)
            if ga is None or gb is None:
                if ga != gb:
                    fails.append(("file-cell-lost", cn))
                continue
            used = {l[1] for l in spec.geom_leaves(ga) if l[0] == "s"}
            if used - set(A["order"]):
                fails.append(("file-dangling-leaf", {"cell": cn, "surfaces": sorted(used - set(A["order"]))}))
            if not spec.geom_equal(gb, ga, rename=sren):
                fails.append(("file-region-changed", {"cell": cn}))
        for n in A["order"]:
            sa, sb = A["surfs"][n], B["surfs"].get(n)
            if sb is None:
                continue
            pa, pb = sa["pointer"], sb["pointer"]
            if pa is not None and pa < 0 and -pa not in A["order"]:
                fails.append(("file-dangling-periodic", {"surface": n, "periodic": -pa}))
            same_ptr = pa == pb or (pb is not None and pb < 0 and pa is not None and ren.get(-pb) == -pa)
            if any(p[0] in ("set_tr", "del_tr", "set_per", "del_per") for p in case.get("pre", [])):
                same_ptr = True     # how an edited pointer is written is the writer's business; (3) looked at the objects
            rb, wb = bc_of(sb)
            want_mod = "*" if rb else "+" if wb else ""          # a card shows one marker; reflecting wins
            if (sa["mnemonic"], sa["modifier"] or "") != (sb["mnemonic"], want_mod) or not same_ptr \
                    or sa["values"] != sb["values"]:
                fails.append(("file-survivor-changed", {"surface": n,
                                                        "before": [sb["modifier"], sb["pointer"], sb["mnemonic"]],
                                                        "after": [sa["modifier"], sa["pointer"], sa["mnemonic"]]}))
    return fails


# ============================================================================ one case, end to end
def float_rounding_decides(pr, tol):
    """does the rounding of a float subtraction decide a comparison the code makes?  (the model is exact)"""
    t = Fraction(float(tol))
    groups = {}
    for s in pr.surfaces:
        groups.setdefault((s.surface_type, len(s.surface_constants)), []).append([float(x) for x in s.surface_constants])
    vecs = list(groups.values())
    trs = transforms_of(pr)
    vecs.append([[float(x) for x in tr.displacement_vector] for tr in trs])
    vecs.append([[float(x) for x in tr.rotation_matrix] for tr in trs if len(tr.rotation_matrix) == 9])
    for grp in vecs:
        for i, a in enumerate(grp):
            for b in grp[i + 1:]:
                for x, y in zip(a, b):
                    if (abs(x - y) < tol) != (abs(Fraction(x) - Fraction(y)) < t):
                        return True
                    if (abs(y - x) < tol) != (abs(Fraction(x) - Fraction(y)) < t):
                        return True
    return False


def match_relation(pr, tol):
    """{number: [numbers its find_duplicate_surfaces returns]} before the call (measurement only)"""
    rel = {}
    ss = list(pr.surfaces)
    for x in ss:
        try:
            rel[x.number] = [m.number for m in x.find_duplicate_surfaces(pr.surfaces, tol)]
        except Exception:       # noqa: BLE001
            rel[x.number] = None
    return rel


def relation_shape(rel, mmap):
    """what kind of family structure the case has: a dead surface found by two survivors (its map entry is
    overwritten), an open chain a~b~c without a~c, an asymmetric pair"""
    dead = {k for k, _ in (mmap or [])}
    finders = {}
    asym = chain = False
    for a, ms in rel.items():
        for b in ms or []:
            if a not in dead:
                finders.setdefault(b, set()).add(a)
            if rel.get(b) is not None and a not in rel[b]:
                asym = True
            for c in rel.get(b) or []:
                if c != a and c not in ms:
                    chain = True
    return {"overwritten": any(len(v) > 1 for v in finders.values()), "chain": chain, "asymmetric": asym,
            "survivor_removed": bool(dead & {v for _, v in (mmap or [])})}


def blind_response(case):
    """the same case with nothing observed between the last edit and the call (observing can refresh caches and hide
    a corrupted state): -> the response string, observed only after the call"""
    tol = float.fromhex(case["tol"])
    pr = build(case)
    exc, mmap = call_dedup(pr, tol)
    return real_response(pr, exc, mmap)


def run_case(case, want_text=True):
    """-> dict(skip=why) or dict(request, real, before, after, fails, rounding, ...)"""
    tol = float.fromhex(case["tol"])
    try:
        pr = build(case)
    except Exception as e:          # noqa: BLE001 - reading / editing is other properties' business
        return {"skip": "build:" + type(e).__name__}
    pre = case.get("pre", [])
    before_text = case["text"]
    if pre:
        try:
            twin = build(case)
            before_text = mp.write_problem(twin, "before.i")
        except Exception as e:      # noqa: BLE001
            return {"skip": "before-write:" + type(e).__name__}
    before = snapshot(pr)
    if not before["unique"] or not before["class_ok"] or before["int_dividers"]:
        return {"skip": "outside-model-assumptions"}
    req = request_of(pr, tol)
    rounding = float_rounding_decides(pr, tol)
    rel = match_relation(pr, tol)
    exc, mmap = call_dedup(pr, tol)
    real = real_response(pr, exc, mmap)
    out = {"request": req, "real": real, "before": before, "exc": exc, "map": mmap, "rounding": rounding,
           "fails": [], "before_text": before_text, "shape": relation_shape(rel, mmap)}
    if pre or int(hashlib.sha1(case["text"].encode()).hexdigest(), 16) % 5 == 0:
        out["blind"] = True
        try:
            br = blind_response(case)
        except Exception as e:      # noqa: BLE001
            br = "raised " + type(e).__name__
        if br != real:
            out["fails"].append(("observation-changes-outcome", {"observed": real[:300], "unobserved": br[:300]}))
    if exc is not None:
        out["fails"].append(("exception:" + exc, exc))
        return out
    after = snapshot(pr)
    after_text = None
    if want_text:
        try:
            after_text = mp.write_problem(pr, "after.i")
        except Exception as e:      # noqa: BLE001
            try:                    # is it the call's doing?  the same problem without the call must be writable
                mp.write_problem(build(case), "twin.i")
                out["fails"].append(("write-after-dedup-raises", type(e).__name__))
            except Exception:       # noqa: BLE001
                pass
    out["after"] = after
    out["after_text"] = after_text
    try:
        out["fails"] += oracle(case, before_text, before, after_text, after, mmap, tol)
    except spec.GeomError as e:
        out["fails"].append(("oracle-cannot-read", str(e)))
    return out


# ============================================================================ generator
TOLS = [1e-4, 1e-4, 1e-2, 2.0 ** -10, 2.0 ** -10, 0.5, 1e-9, 1e-6, 0.0, -1e-3, 0.6]
BASES = [0.0, 1.0, 2.5, -3.75, 10.125, 0.1, 7.3, 100.0, 0.7, -0.3, 4.0, 1e-3]
KS = [0.5, 0.99, 1.0, 1.01, 2.0]
FAMILY_TYPES = ["px", "py", "pz", "cx", "cy", "cz", "c/x", "c/y", "c/z"]
OTHER_TYPES = {"so": 1, "p": 4, "s": 4, "sx": 2, "kz": 2}
ARITY = {"px": 1, "py": 1, "pz": 1, "cx": 1, "cy": 1, "cz": 1, "c/x": 3, "c/y": 3, "c/z": 3}
ROT90 = [0.0, 1.0, 0.0, -1.0, 0.0, 0.0, 0.0, 0.0, 1.0]
ROTID = [1.0, 0.0, 0.0, 0.0, 1.0, 0.0, 0.0, 0.0, 1.0]


def fnum(x):
    """a spelling that reads back to exactly x"""
    if x == int(x) and abs(x) < 1e15:
        return str(int(x)) if random.Random(repr(x)).random() < 0.5 else repr(float(x))
    return repr(float(x))


def wrap_card(text, width=76):
    """physical lines of one card: broken at blanks, continuation lines start with 5 blanks"""
    out = []
    cur = ""
    for w in text.split(" "):
        if cur and len(cur) + 1 + len(w) > width:
            out.append(cur)
            cur = "     " + w
        else:
            cur = w if not cur else cur + " " + w
    out.append(cur)
    return out


def gen_case(rng, opts=None):
    o = dict(pre=True, wild_tr=True)
    o.update(opts or {})
    tol = rng.choice(TOLS)
    atol = abs(tol) if tol else 1e-4
    # ---- transforms
    trs = []          # (num, deg, disp, rot, m2a)
    ntr = rng.choice([0, 0, 1, 2, 3, 3, 4, 5])
    trnums = rng.sample(range(1, 30), ntr)
    root = {}         # transform number -> the transform it was derived from (a family of look-alike transforms)
    for i, tn in enumerate(trnums):
        root[tn] = tn
        if trs and rng.random() < 0.7:
            b = rng.choice(trs)
            root[tn] = root[b[0]]
            deg, disp, rot, m2a = b[1], list(b[2]), list(b[3]), b[4]
            r = rng.random()
            if r < 0.25:
                pass
            elif r < 0.5:
                j = rng.randrange(3)
                disp[j] = disp[j] + rng.choice([-1, 1]) * rng.choice(KS) * atol
            elif r < 0.65 and rot:
                j = rng.randrange(len(rot))
                rot[j] = rot[j] + rng.choice([-1, 1]) * rng.choice(KS) * atol
            elif r < 0.8:
                rot = [] if rot else list(rng.choice([ROT90, ROTID]))
            elif r < 0.87:
                deg = not deg
            elif r < 0.94 and len(rot) == 9:
                m2a = not m2a
            elif o["wild_tr"] and rot:
                rot = rot[:rng.choice([3, 5, 6])]
        else:
            deg = rng.random() < 0.15
            disp = [rng.choice(BASES) for _ in range(3)]
            rot = list(rng.choice([[], [], ROT90, ROTID]))
            m2a = True
        trs.append((tn, deg, disp, rot, m2a))
    # ---- surfaces
    surfs = []        # dict(num, mod, ptr, mn, consts)
    nfam = rng.choice([1, 1, 2, 2, 3, 4])
    for _ in range(nfam):
        mn = rng.choice(FAMILY_TYPES)
        base = [rng.choice(BASES) for _ in range(ARITY[mn])]
        if mn[0] == "c":
            base[-1] = abs(base[-1]) or 1.0
        btr = rng.choice(trnums) if trnums and rng.random() < 0.5 else None
        kin = [t for t in trnums if btr is not None and root[t] == root[btr] and t != btr]
        bmod = rng.choice(["", "", "", "", "*", "+"])
        for k in range(rng.choice([1, 2, 2, 3, 3, 4, 5])):
            s = {"mn": mn, "consts": list(base), "tr": btr, "mod": bmod, "per": False}
            if k > 0:
                for _ in range(rng.choice([0, 1, 1, 1, 2])):
                    r = rng.random()
                    if kin and rng.random() < 0.5:
                        s["tr"] = rng.choice(kin)          # same constants, a look-alike transform
                    elif r < 0.45:
                        j = rng.randrange(len(base))
                        s["consts"][j] = s["consts"][j] + rng.choice([-1, 1]) * rng.choice(KS) * atol
                        if mn[0] == "c" and j == len(base) - 1 and s["consts"][j] <= 0:
                            s["consts"][j] = base[j]
                    elif r < 0.55:
                        same = [t for t in FAMILY_TYPES if ARITY[t] == ARITY[mn] and t != mn]
                        s["mn"] = rng.choice(same)
                    elif r < 0.7:
                        s["tr"] = rng.choice(trnums + [None]) if trnums else None
                    elif r < 0.8:
                        s["per"] = True
                    elif r < 0.92:
                        s["mod"] = rng.choice(["", "*", "+"])
                    else:
                        pass          # a chain: drift from the previous member instead of the base
                        prev = surfs[-1]["consts"]
                        if len(prev) == len(base):
                            s["consts"] = [prev[0] + rng.choice(KS) * atol] + list(prev[1:])
                            if mn[0] == "c" and len(base) == 1 and s["consts"][0] <= 0:
                                s["consts"] = list(base)
            surfs.append(s)
    for _ in range(rng.choice([0, 1, 1, 2])):
        mn = rng.choice(sorted(OTHER_TYPES))
        c = [abs(rng.choice(BASES)) + 1.0 for _ in range(OTHER_TYPES[mn])]
        surfs.append({"mn": mn, "consts": c, "tr": None, "mod": "", "per": False})
        if rng.random() < 0.4:
            surfs.append({"mn": mn, "consts": list(c), "tr": None, "mod": "", "per": False})
    # ---- a two-stage family (aimed at what an earlier call hands over): base x, A = x + 0.7 T, B = A + T / 500.
    #      A leaf on B is added to a cell with &= / |=, an earlier call with tolerance T / 100 merges A and B, the
    #      main call with tolerance T merges their survivor into x.
    two_stage = o["pre"] and tol > 0 and rng.random() < 0.08
    if two_stage:
        mn = rng.choice(FAMILY_TYPES)
        base = [rng.choice(BASES) for _ in range(ARITY[mn])]
        if mn[0] == "c":
            base[-1] = abs(base[-1]) or 1.0
        j = len(base) - 1 if mn[0] == "c" else 0
        a = list(base); a[j] = base[j] + 0.7 * tol
        b = list(a); b[j] = a[j] + tol / 500
        for stage, cs in (("x", base), ("A", a), ("B", b)):
            surfs.append({"mn": mn, "consts": cs, "tr": None, "mod": "", "per": False, "stage": stage})
    for s in surfs:
        if s["mn"][0] == "c" and s["consts"][-1] <= 0:
            s["consts"][-1] = 1.0          # a cylinder needs a radius
    rng.shuffle(surfs)
    r = rng.random()
    if r < 0.2:
        # compact numbers in an order unrelated to the list position (a slice of a numbered collection selects by
        # NUMBER): low numbers late in the block, high numbers early
        nums = rng.sample(range(1, len(surfs) + 1 + rng.choice([0, 0, 2, 5])), len(surfs))
        if rng.random() < 0.3:
            nums.sort(reverse=True)
    else:
        nums = rng.sample(range(1, 60), len(surfs))
        if r < 0.55:
            nums.sort()
        elif r < 0.65:
            nums.sort(reverse=True)
    planes = [n for n, s in zip(nums, surfs) if s["mn"] in ("px", "py", "pz")]
    for n, s in zip(nums, surfs):
        s["num"] = n
        if s["per"]:
            partners = [p for p in planes if p != n]
            if partners and s["tr"] is None:
                s["ptr"] = -rng.choice(partners)
            else:
                s["per"] = False
        if not s["per"]:
            s["ptr"] = s["tr"]
    # ---- cells
    ncell = rng.choice([1, 2, 3, 4, 5, 6, 8])
    cnums = sorted(rng.sample(range(1, 40), ncell))
    lines = ["dedup verif problem"]
    matcells = []
    for i, cn in enumerate(cnums):
        pool = nums if rng.random() < 0.6 else rng.sample(nums, min(len(nums), rng.choice([1, 2, 3])))
        items, _ = gen.gen_geom(rng, pool, cnums[:i] if rng.random() < 0.3 else [], rng.choice([0, 1, 1, 2, 3]))
        g = "".join((" " if it[0] == "t" else "") + it[1] for it in items).strip()
        if g.startswith("#") and True:
            g = "(" + g + ")"
        mat = "1 -1.0" if rng.random() < 0.3 else "0"
        if mat != "0":
            matcells.append(cn)
        lines += wrap_card("%d %s %s imp:n=1" % (cn, mat, g))
    lines.append("")
    for s in surfs:
        ptr = (" %d" % s["ptr"]) if s["ptr"] is not None else ""
        mn = s["mn"] if rng.random() < 0.7 else s["mn"].upper()
        lines.append("%s%d%s %s %s" % (s["mod"], s["num"], ptr, mn, " ".join(fnum(c) for c in s["consts"])))
    lines.append("")
    lines.append("mode n")
    lines.append("m1 1001.80c 1")
    lines.append("m2 8016.80c 1")
    if rng.random() < 0.06:
        lines.append("vol" + (" no" if rng.random() < 0.3 else "") + " 1" * ncell)
    for tn, deg, disp, rot, m2a in trs:
        tail = ""
        if len(rot) == 9 and (not m2a or rng.random() < 0.2):
            tail = " 1" if m2a else " -1"
        lines += wrap_card("%str%d %s%s" % ("*" if deg else "", tn, " ".join(fnum(x) for x in disp + rot), tail))
    lines.append("")
    text = "\n".join(lines) + "\n"
    # ---- earlier edits
    pre = []
    if o["pre"] and rng.random() < 0.3:
        for _ in range(rng.choice([1, 1, 2])):
            r = rng.random()
            if r < 0.3:
                pre.append(["dedup", float(rng.choice([atol * 0.5, atol, 1e-9, tol])).hex()])
                r2 = rng.random()
                if r2 < 0.3:
                    pre.append(["renum_to_freed", rng.randrange(50), rng.randrange(5)])
                elif r2 < 0.6:
                    pre.append(["geom_survivor", rng.randrange(50), rng.randrange(5), rng.random() < 0.5])
            elif r < 0.4:
                if matcells:
                    pre.append(["mat", rng.choice(matcells), 2])
            elif r < 0.55:
                free = [n for n in range(60, 70) if n not in nums]
                pre.append(["renum_surf", rng.choice(nums), rng.choice(free)])
            elif r < 0.65 and trnums:
                pre.append(["set_tr", rng.choice(nums), rng.choice(trnums)])
            elif r < 0.7:
                withtr = [s["num"] for s in surfs if s["tr"] is not None and not s["per"]]
                if withtr:
                    pre.append(["del_tr", rng.choice(withtr)])
            elif r < 0.78 and len(planes) >= 2:
                a, b = rng.sample(planes, 2)
                pre.append(["set_per", a, b])
            elif r < 0.82:
                pers = [s["num"] for s in surfs if s["per"]]
                if pers:
                    pre.append(["del_per", rng.choice(pers)])
            elif r < 0.86:
                fam = [x["num"] for x in surfs if x["mn"] in ARITY]
                pre.append([rng.choice(["set_refl", "set_white"]), rng.choice(fam or nums), rng.random() < 0.8])
            elif r < 0.92:
                pre.append([rng.choice(["geom_and", "geom_or"]), rng.choice(cnums), rng.choice(nums), rng.random() < 0.5])
            elif r < 0.96:
                pre.append(["write"])
            elif trnums:
                pre.append(["renum_tr", rng.choice(trnums), rng.choice(range(40, 50))])
    if o["pre"] and not two_stage and not pre and rng.random() < 0.1:
        # nothing but boundary flags set through the API between the read and the call (no write in between)
        fam = [x["num"] for x in surfs if x["mn"] in ARITY]
        for n in rng.sample(fam, min(len(fam), rng.choice([1, 1, 2, 3]))):
            pre.append([rng.choice(["set_refl", "set_white"]), n, rng.random() < 0.85])
    if o["pre"] and not two_stage and not pre and trnums and rng.random() < 0.2:
        # nothing but a transform reassigned through the API between the read and the call (no write in between):
        # surfaces of one family whose file-time transform numbers are equal (the same TR card, or none) get
        # different live transforms - the numbers remembered from the file are stale from then on
        groups = {}
        for x in surfs:
            if x["mn"] in ARITY and not x["per"]:
                groups.setdefault((x["mn"], x["tr"]), []).append(x)
        cands = [g for g in groups.values() if len(g) >= 2]
        for g in rng.sample(cands, min(len(cands), rng.choice([1, 1, 2]))):
            x = rng.choice(g)
            others = [t for t in trnums if t != x["tr"]]
            far = [t for t in others if x["tr"] is None or root[t] != root[x["tr"]]]
            if others:
                pre.append(["set_tr", x["num"], rng.choice(far or others)])
    if two_stage:
        nb = [x["num"] for x in surfs if x.get("stage") == "B"][0]
        pre = [[rng.choice(["geom_and", "geom_or"]), rng.choice(cnums), nb, rng.random() < 0.5],
               ["dedup", float(tol / 100).hex()]]
        if rng.random() < 0.3:
            pre.append(["write"])
    return {"text": text, "tol": float(tol).hex(), "pre": pre}


# ============================================================================ shrinking
def shrink(case, failing):
    """greedy: drop pre ops, cells, surfaces (when unused), transform cards"""
    cur = dict(case)
    for i in range(len(cur.get("pre", [])) - 1, -1, -1):
        cand = dict(cur, pre=cur["pre"][:i] + cur["pre"][i + 1:])
        if failing(cand):
            cur = cand
    changed = True
    rounds = 0
    while changed and rounds < 4:
        changed = False
        rounds += 1
        lines = cur["text"].split("\n")
        i = len(lines) - 1
        while i >= 1:
            if lines[i].strip() and not lines[i].startswith("mode"):
                cand_lines = lines[:i] + lines[i + 1:]
                cand = dict(cur, text="\n".join(cand_lines))
                try:
                    ok = failing(cand)
                except Exception:       # noqa: BLE001
                    ok = False
                if ok:
                    lines = cand_lines
                    cur = cand
                    changed = True
            i -= 1
    return cur


def failure_kinds(case):
    r = run_case(case)
    if "skip" in r:
        return []
    return sorted({f[0] for f in r["fails"]})


def neighbours(case):
    """cases around a disagreement: tolerances taken from the case itself (the differences between its constants, one
    ulp either side, the usual multiples), the surface block in reverse order, an earlier call"""
    import math
    tol = float.fromhex(case["tol"])
    vals = []
    parts = case["text"].split("\n\n")
    for line in (parts[1].split("\n") if len(parts) > 1 else []):
        for w in line.split()[1:]:
            try:
                vals.append(float(w))
            except ValueError:
                pass
    diffs = sorted({abs(a - b) for a in vals for b in vals if 0 < abs(a - b) < 10})[:6]
    tols = []
    for t in [tol * k for k in (1.0, 0.5, 0.99, 1.01, 2.0)] + diffs:
        for u in (t, math.nextafter(t, math.inf), math.nextafter(t, -math.inf)):
            if u not in tols:
                tols.append(u)
    texts = [case["text"]]
    if len(parts) > 1:
        rev = list(parts)
        rev[1] = "\n".join(reversed(parts[1].split("\n")))
        texts.append("\n\n".join(rev))
    out = []
    for text in texts:
        for t in tols[:16]:
            out.append({"text": text, "tol": float(t).hex(), "pre": case.get("pre", [])})
        out.append({"text": text, "tol": case["tol"], "pre": case.get("pre", []) + [["dedup", case["tol"]]]})
    return out


# ============================================================================ workers
_FINDINGS = None


def attribute_classes(c, r):
    """{failure class: id of the open finding it is attributed to | None}, decided by the trigger predicates"""
    global _FINDINGS
    import types
    if _FINDINGS is None:
        _FINDINGS = types.SimpleNamespace(prop="C18", findings=vlib.load_findings("C18"))
    out = {}
    kinds = sorted({f[0] for f in r.get("fails", [])})
    for k in kinds:
        out[k] = vlib.Ctx.attribute(_FINDINGS, {"kind": k, "case": c})
    return out


def model_agrees(r):
    """does the real call do what the model says for this very input?  (True when rounding decides a comparison:
    the exact model cannot be asked)"""
    if r.get("rounding"):
        return True
    return corr_mismatch(r, vlib.model_ask(MODEL, [r["request"]])[0]) is None


def work(c):
    r = run_case(c)
    if "skip" not in r:
        r["attrib"] = attribute_classes(c, r)
        r.pop("before_text", None)
        r.pop("after_text", None)
    return r


def _init_worker(parent_tmp):
    import tempfile
    mp._TMP = tempfile.mkdtemp(prefix="w_", dir=parent_tmp)      # removed with the parent's directory
    warnings.simplefilter("ignore")


def run_all(cases, procs):
    if procs <= 1 or len(cases) < 40:
        return [work(c) for c in cases]
    import multiprocessing
    with multiprocessing.get_context("fork").Pool(procs, _init_worker, (mp.tmpdir(),)) as pool:
        return pool.map(work, cases, chunksize=25)


# ============================================================================ replay / run
def load_case(path, with_kind=False):
    with open(path) as fh:
        c = json.load(fh)
    kind = c.get("kind")
    c = c.get("case", c)
    c["pre"] = [list(p) for p in c.get("pre", [])]
    return (c, kind) if with_kind else c


def corr_mismatch(r, ans):
    if r["rounding"]:
        return None
    if canon_model(ans) != r["real"]:
        return {"model": canon_model(ans), "real": r["real"]}
    return None


def replay(ctx, path):
    c, kind = load_case(path, with_kind=True)
    r = run_case(c)
    bad = None
    if "skip" in r:
        print("REPLAY property=C18 case skipped: " + r["skip"])
    else:
        mine = [f for f in r["fails"] if kind is None or f[0] == kind]     # the recorded failure class, if any
        if mine:
            bad = ("oracle", mine[:3])
        else:
            vlib.coq_make(["Model/Dedup.vo"])
            ans = vlib.model_ask(MODEL, [r["request"]])[0]
            mm = corr_mismatch(r, ans)
            if mm:
                bad = ("correspondence", mm)
    if bad:
        print(f"REPLAY property=C18 still fails: {bad[0]}: {json.dumps(bad[1], default=str)[:600]}")
        print(f"VIOLATION property=C18 replay={path}")
        return 1
    print("REPLAY property=C18 passes")
    return 0


def corpus_cases():
    d = os.path.join(vlib.VERIF, "corpus", "C18")
    out = []
    if os.path.isdir(d):
        for f in sorted(os.listdir(d)):
            if f.endswith(".json"):
                out.append((f, load_case(os.path.join(d, f))))
    return out


def run(ctx):
    n_cases = 900 if ctx.tier == "quick" else 16000
    procs = 3 if ctx.tier == "quick" else 4
    ctx.prove()
    ok, log = vlib.coq_make(["Model/Dedup.vo"])
    if not ok:
        ctx.broken_obligations.append({"obligation": "Model/Dedup.vo builds", "detail": log[-800:]})
        return ctx.finish(vlib.KERNEL_TB, [], "model did not build")
    vlib.model_ask(MODEL, ["c 1/1 - - -"])          # build the model binary before the workers start
    corpus = corpus_cases()
    cases = [c for _, c in corpus]
    for i in range(n_cases):
        cases.append(gen_case(random.Random(f"{ctx.seed}:C18:{i}")))
    dist = {"cases": 0, "corpus": len(corpus), "skipped": {}, "tol": {}, "with_pre": 0, "two_stage": 0, "pre_ops": {},
            "merged_pairs": 0, "cases_with_merge": 0, "family_shapes": {}, "exceptions": {},
            "surfaces": 0, "cells": 0, "transforms": 0, "leaves": 0, "rounding_decides": 0,
            "blind_passes": 0, "with_cell_modifier_card": 0, "hypothesis_links_false": 0,
            "hypothesis_disp3_false": 0, "hypothesis_arity_false": 0, "cell_surfaces_emptied": 0, "oracle_failure_kinds": {}, "cells_repointed": 0,
            "surviving_shared_by_2plus_cells": 0}
    results = []
    for c, r in zip(cases, run_all(cases, procs)):
        dist["cases"] += 1
        if "skip" in r:
            dist["skipped"][r["skip"]] = dist["skipped"].get(r["skip"], 0) + 1
            ctx.count_case(("skip", c["text"], c["tol"], str(c["pre"])), nontrivial=False)
            continue
        results.append((c, r))
    reqs = [r["request"] for _, r in results]
    answers = vlib.model_ask(MODEL, reqs)
    nx, bad = vlib.vm_crosscheck(MODEL, reqs, answers, sample=25 if ctx.tier == "quick" else 200, seed=ctx.seed)
    if bad:
        ctx.broken_obligations.append({"obligation": "extraction cross-check Dedup", "detail": bad[:2]})
    corr_bad = []
    n_viol = 0
    n_shrunk = 0
    for (c, r), ans in zip(results, answers):
        ctx.cov["programs"] += 1
        tol = float.fromhex(c["tol"])
        dist["tol"][repr(tol)] = dist["tol"].get(repr(tol), 0) + 1
        dist["with_pre"] += bool(c["pre"])
        dist["two_stage"] += (len(c["pre"]) >= 2 and c["pre"][0][0] in ("geom_and", "geom_or") and c["pre"][1][0] == "dedup")
        for p in c["pre"]:
            dist["pre_ops"][p[0]] = dist["pre_ops"].get(p[0], 0) + 1
        b = r["before"]
        dist["surfaces"] += len(b["surfs"])
        dist["cells"] += len(b["cells"])
        dist["leaves"] += sum(len([t for t in w if t[0] in "pmc"]) for w in b["cells"].values())
        dist["transforms"] += r["request"].split(" ")[4].count(";") + (r["request"].split(" ")[4] != "-")
        dist["with_cell_modifier_card"] += bool(re.search(r"^vol", c["text"], re.M))
        nm = len(r["map"] or [])
        dist["merged_pairs"] += nm
        dist["cases_with_merge"] += nm > 0
        dist["rounding_decides"] += r["rounding"]
        dist["blind_passes"] += bool(r.get("blind"))
        dist["hypothesis_links_false"] += not b["links"]
        dist["hypothesis_disp3_false"] += not b["disp3"]
        dist["hypothesis_arity_false"] += not b["arity"]
        if r["exc"]:
            dist["exceptions"][r["exc"]] = dist["exceptions"].get(r["exc"], 0) + 1
        if "after" in r:
            a = r["after"]
            dist["cell_surfaces_emptied"] += any(
                not a["cell_surfs"][cn] and any(t[0] in "pm" for t in a["cells"][cn]) for cn in a["cells"])
            dist["cells_repointed"] += sum(1 for cn in a["cells"] if a["cells"][cn] != b["cells"].get(cn))
            vals = [v for _, v in (r["map"] or [])]
            for s in set(vals):
                if sum(1 for cn in a["cells"] if ("p%d" % s) in a["cells"][cn] or ("m%d" % s) in a["cells"][cn]) >= 2:
                    dist["surviving_shared_by_2plus_cells"] += 1
        ctx.count_case((c["text"], c["tol"], str(c["pre"])), nontrivial=nm > 0 or bool(r["exc"]))
        ctx.cov["disagreements_checked"] += 1
        mm = corr_mismatch(r, ans)
        if mm:
            corr_bad.append({"case": c, "mismatch": mm})
        for k, v in r["shape"].items():
            dist["family_shapes"][k] = dist["family_shapes"].get(k, 0) + bool(v)
        classes = {}
        for f in r["fails"]:
            classes.setdefault(f[0], []).append(f[1])
        for k in sorted(classes):
            dist["oracle_failure_kinds"][k] = dist["oracle_failure_kinds"].get(k, 0) + 1
            rec = {"kind": k, "case": c, "detail": [str(d)[:400] for d in classes[k][:3]]}
            fid = r["attrib"].get(k)
            if fid:
                ctx.filtered[fid] = ctx.filtered.get(fid, 0) + 1
                continue
            if n_viol >= 8:
                dist["violations_not_recorded"] = dist.get("violations_not_recorded", 0) + 1
                continue
            if n_shrunk < 3:
                n_shrunk += 1
                small = shrink(c, lambda cc, k=k: k in failure_kinds(cc)
                               and ctx.attribute({"kind": k, "case": cc}) is None)
                r2 = run_case(small)
                rec = {"kind": k, "case": small,
                       "detail": [str(f[1])[:400] for f in r2.get("fails", []) if f[0] == k][:3]}
            if ctx.fail(rec):
                n_viol += 1
        if len(ctx.cov["samples"]) < 4 and nm > 0:
            ctx.sample({"text": c["text"][:500], "tol": tol, "pre": c["pre"], "map": r["map"], "real": r["real"][:300]})
    if corr_bad:
        first = corr_bad[0]

        def mismatching(cc):
            rr = run_case(cc, want_text=False)
            if "skip" in rr:
                return False
            return corr_mismatch(rr, vlib.model_ask(MODEL, [rr["request"]])[0]) is not None
        small = shrink(first["case"], mismatching)
        r2 = run_case(small, want_text=False)
        if "skip" not in r2:
            first = {"case": small, "mismatch": corr_mismatch(r2, vlib.model_ask(MODEL, [r2["request"]])[0])}
        ctx.broken_obligations.append({
            "obligation": "correspondence Dedup.dedup vs MCNP_Problem.remove_duplicate_surfaces",
            "detail": {"n": len(corr_bad), "first": first}})
        # the code no longer does what the model says: look for a concrete failing input around the disagreement
        tried = 0
        for nb in neighbours(small):
            if n_viol >= 8:
                break
            rn = run_case(nb)
            tried += 1
            if "skip" in rn:
                continue
            att = attribute_classes(nb, rn)
            for k in sorted(att):
                if att[k] is None and n_viol < 8:
                    if ctx.fail({"kind": k, "case": nb, "near": "correspondence disagreement",
                                 "detail": [str(f[1])[:400] for f in rn["fails"] if f[0] == k][:3]}):
                        n_viol += 1
        dist["neighbours_of_disagreement_tried"] = tried
    # ---- replay the committed findings
    for fd in ctx.findings:
        if fd.get("status") == "open" and fd.get("replay"):
            try:
                c = load_case(os.path.join(vlib.VERIF, fd["replay"]))
                r = run_case(c)
                fd["_reproduced"] = bool(r.get("fails")) and fd.get("failure_kind") in {f[0] for f in r["fails"]}
            except Exception:       # noqa: BLE001
                fd["_reproduced"] = False
    tb = vlib.KERNEL_TB + [
        "modelled, not verified: MCNP_Problem.remove_duplicate_surfaces, Cell/HalfSpace/UnitHalfSpace."
        "remove_duplicate_surfaces, the divider setter, AxisPlane/CylinderOnAxis/CylinderParAxis/Surface."
        "find_duplicate_surfaces, Surface._may_be_merged_with, Transform.equivalent, as coq/Model/Dedup.v Part 1 "
        "(/repo HEAD, after d09ab94 f2650a0 983bf94); object identity = number (collection numbers unique: checked "
        "per case); floats = exact rationals (cases where a rounded subtraction decides a comparison are counted "
        "and left out of the correspondence)",
        f"vm_compute cross-check of {nx} requests",
        "oracle: harness/spec.py (independent reader) on the text before and the text written after the call; "
        "the matching map is observed by wrapping Cell.remove_duplicate_surfaces for the duration of the call",
    ]
    assumptions = [
        "NOT modelled: integer (unresolved) dividers, leaves that do not know their cell (cell.surfaces compared as a "
        "set), the partial state left by an exception",
        "theorems take as hypotheses: unique surface numbers, class consistent with mnemonic and arity, displacement "
        "vectors of length three, cell.surfaces covering the leaves (all checked on every real case before the call; "
        "cases outside are counted as skipped)",
    ]
    return ctx.finish(tb, assumptions,
                      "cases = generated problems (1-4 families of equal / near-equal at +-tol*{0.5,0.99,1,1.01,2} / "
                      "look-alike surfaces differing in type, constants, transform, periodic, reflecting/white; chains; "
                      "geometries from gen.gen_geom over shared surfaces; 11 tolerances incl. 0 and negative; 30% with "
                      "earlier edits) ; distinct = distinct (text, tol, edits); non-trivial = at least one pair merged "
                      "or an exception raised",
                      extra={"input_distribution": dist})
