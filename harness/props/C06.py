"""C06 — numbered collections: unique numbers, current look-ups.

Obligations: coq/Properties/C06.v (theorems over coq/Model/Coll.v).
Correspondence: random operation sequences on the five real collection classes versus the
extracted Coll model (result of every operation, final member list, final number cache).
Oracle: the property's sentences evaluated literally on the real collection after every op.
"""
import json
import os
import random
import sys

import vlib

KINDS = ["cell", "surface", "material", "transform", "universe"]


# ----------------------------------------------------------------------------
# real objects
# ----------------------------------------------------------------------------
def _mk(kind, oid, number):
    import montepy
    from montepy.input_parser.mcnp_input import Input
    from montepy.input_parser.block_type import BlockType

    if kind == "cell":
        c = montepy.Cell()
        c.number = number
        return c
    if kind == "surface":
        from montepy.surfaces.surface_builder import surface_builder
        return surface_builder(Input([f"{number} so {oid + 0.5}"], BlockType.SURFACE))
    if kind == "material":
        from montepy.data_inputs.material import Material
        return Material(Input([f"m{number} 1001.80c {0.25 + oid}"], BlockType.DATA))
    if kind == "transform":
        from montepy.data_inputs.transform import Transform
        return Transform(Input([f"tr{number} {oid}.5 0 0"], BlockType.DATA))
    if kind == "universe":
        from montepy.universe import Universe
        return Universe(number)
    raise ValueError(kind)


def _coll_of(problem, kind):
    return {"cell": problem.cells, "surface": problem.surfaces, "material": problem.materials,
            "transform": problem.transforms, "universe": problem.universes}[kind]


def _coll_class(kind):
    import montepy
    from montepy.cells import Cells
    from montepy.surface_collection import Surfaces
    from montepy.materials import Materials
    from montepy.transforms import Transforms
    from montepy.universes import Universes
    return {"cell": Cells, "surface": Surfaces, "material": Materials, "transform": Transforms,
            "universe": Universes}[kind]


def _exc_name(e):
    n = type(e).__name__
    return n


class World:
    """Real-side state for one case."""

    def __init__(self, case):
        import montepy
        self.case = case
        kind = case["kind"]
        other = "surface" if kind != "surface" else "cell"
        self.objs = []
        for oid, (n, ty) in enumerate(zip(case["nums"], case["types"])):
            self.objs.append(_mk(kind if ty else other, oid, n))
        self.index = {id(o): i for i, o in enumerate(self.objs)}
        if case["clink"]:
            self.problem = montepy.MCNP_Problem("verif_c06")
            self.coll = _coll_of(self.problem, kind)
            for m in case["members"]:
                self.coll.append(self.objs[m])
        else:
            self.problem = None
            self.coll = _coll_class(kind)([self.objs[m] for m in case["members"]])

    def oid(self, obj):
        return self.index.get(id(obj), -1)

    def number(self, i):
        return self.objs[i].number

    def members(self):
        return [self.oid(o) for o in self.coll._objects]

    def cache(self):
        c = getattr(self.coll, "_NumberedObjectCollection__num_cache")
        return sorted((k, self.oid(v)) for k, v in c.items())

    def apply(self, op):
        """Apply one op; return the canonical result string (same alphabet as Coll.show_res)."""
        c = self.coll
        o = self.objs
        try:
            k = op[0]
            if k == "append":
                c.append(o[op[1]]); return "ok"
            if k == "append_renumber":
                return "n:%d" % c.append_renumber(o[op[1]], op[2])
            if k == "extend":
                c.extend([o[i] for i in op[1]]); return "ok"
            if k == "iadd":
                c += [o[i] for i in op[1]]
                self.coll = c
                return "ok"
            if k == "setitem":
                c[op[1]] = o[op[2]]; return "ok"
            if k == "remove":
                c.remove(o[op[1]]); return "ok"
            if k == "pop":
                return "o:%d" % self.oid(c.pop(op[1]))
            if k == "del":
                del c[op[1]]; return "ok"
            if k == "clear":
                c.clear(); return "ok"
            if k == "setnum":
                o[op[1]].number = op[2]; return "ok"
            if k == "get":
                r = c.get(op[1]); return "o:none" if r is None else "o:%d" % self.oid(r)
            if k == "getitem":
                return "o:%d" % self.oid(c[op[1]])
            if k == "contains":
                return "b:1" if o[op[1]] in c else "b:0"
            if k == "numbers":
                return "ns:" + (",".join(str(x) for x in c.numbers) or "-")
            if k == "keys":
                return "ns:" + (",".join(str(x) for x in c.keys()) or "-")
            if k == "len":
                return "n:%d" % len(c)
            if k == "check_number":
                c.check_number(op[1]); return "ok"
            if k == "request_number":
                return "n:%d" % c.request_number(op[1], op[2])
            if k == "next_number":
                return "n:%d" % c.next_number(op[1])
            if k == "slice":
                r = c[slice(op[1], op[2], op[3])]
                return "os:" + (",".join(str(self.oid(x)) for x in r._objects) or "-")
            raise RuntimeError("unknown op " + repr(op))
        except Exception as e:  # noqa
            return "err:" + _exc_name(e)


def op_text(op):
    def z(x):
        return "_" if x is None else str(x)
    k = op[0]
    if k in ("extend", "iadd"):
        return k + " " + (",".join(map(str, op[1])) or "-")
    return " ".join([k] + [z(x) for x in op[1:]])


def request_of(case):
    def bl(l):
        return ",".join("1" if x else "0" for x in l) or "-"
    linked = [bool(case["clink"]) and (i in case["members"]) for i in range(len(case["nums"]))]
    hd = " ".join([
        "1" if case["clink"] else "0",
        ",".join(map(str, case["nums"])) or "-",
        bl(linked), bl(case["types"]),
        ",".join(map(str, case["members"])) or "-",
    ])
    return hd + " | " + " ; ".join(op_text(o) for o in case["ops"])


def run_real(case):
    w = World(case)
    outs = [w.apply(op) for op in case["ops"]]
    mem = ",".join(map(str, w.members())) or "-"
    cache = ",".join(f"{k}>{v}" for k, v in w.cache()) or "-"
    return ";".join(outs) + "|" + mem + "|" + cache


def canon_model(ans):
    """sort the model's cache rendering by key (Python side is sorted too)"""
    parts = ans.split("|")
    if len(parts) != 3:
        return ans
    c = parts[2]
    if c != "-":
        items = []
        for it in c.split(","):
            k, v = it.split(">")
            items.append((int(k), int(v)))
        c = ",".join(f"{k}>{v}" for k, v in sorted(items))
    return parts[0] + "|" + parts[1] + "|" + c


# ----------------------------------------------------------------------------
# oracle: the property read literally
# ----------------------------------------------------------------------------
def oracle(case):
    """Return None or a dict describing the first violated sentence.  Two passes: look-ups repair the
    number cache of the real collection, so a pass that probes get()/[] after every operation can hide a
    stale-cache defect from the operations that follow; the first pass therefore observes nothing but the
    objects themselves, the second adds the look-up probes."""
    return oracle_pass(case, False) or oracle_pass(case, True)


def oracle_pass(case, probe_lookups):
    w = World(case)
    nrange = range(-1, max(case["nums"] + [1]) + 12)
    for i, op in enumerate(case["ops"]):
        before_members = w.members()
        before_nums = [w.number(j) for j in range(len(w.objs))]
        r = w.apply(op)
        members = w.members()
        nums = [w.number(j) for j in members]
        if len(set(nums)) != len(nums):
            return {"sentence": "no two members share a number", "at_op": i, "op": op_text(op),
                    "member_numbers": nums}
        if len(set(members)) != len(members):
            return {"sentence": "an object is a member at most once", "at_op": i, "op": op_text(op),
                    "members": members}
        if r == "err:NumberConflictError":
            if members != before_members or [w.number(j) for j in range(len(w.objs))] != before_nums:
                return {"sentence": "NumberConflictError leaves the collection unchanged", "at_op": i,
                        "op": op_text(op), "before": [before_members, before_nums],
                        "after": [members, [w.number(j) for j in range(len(w.objs))]]}
        if op[0] in ("request_number",) and r.startswith("n:"):
            if int(r[2:]) in nums:
                return {"sentence": "request_number offers a free number", "at_op": i, "op": op_text(op), "got": r}
        if op[0] == "next_number" and r.startswith("n:"):
            if int(r[2:]) in nums:
                return {"sentence": "next_number offers a free number", "at_op": i, "op": op_text(op), "got": r}
        # look-ups are current
        for n in (nrange if probe_lookups else ()):
            exp = [m for m in members if w.number(m) == n]
            got = w.coll.get(n)
            g = None if got is None else w.oid(got)
            if (exp and g != exp[0]) or (not exp and g is not None):
                return {"sentence": "get(n) returns the member whose current number is n, else None",
                        "at_op": i, "op": op_text(op), "n": n, "expected": exp[:1], "got": g}
            try:
                got2 = w.oid(w.coll[n])
            except KeyError:
                got2 = None
            if got2 != g:
                return {"sentence": "[] agrees with get", "at_op": i, "op": op_text(op), "n": n}
    return None


# ----------------------------------------------------------------------------
# generator
# ----------------------------------------------------------------------------
OPS_W = [
    ("append", 10), ("append_renumber", 6), ("extend", 7), ("iadd", 7), ("setitem", 3), ("remove", 6),
    ("pop", 4), ("del", 5), ("clear", 1), ("setnum", 14), ("get", 8), ("getitem", 4), ("contains", 2),
    ("numbers", 3), ("keys", 1), ("len", 1), ("check_number", 3), ("request_number", 3),
    ("next_number", 2), ("slice", 3),
]


def gen_case(rng, idx, freestanding_collisions=False):
    kind = KINDS[idx % len(KINDS)]
    clink = rng.random() < 0.75
    n = rng.choice([2, 3, 4, 5, 6, 8, 10])
    hi = rng.choice([3, 4, 6, 9, 15])
    nums = [rng.randint(1, hi) for _ in range(n)]
    types = [rng.random() > 0.08 for _ in range(n)]
    members = []
    used = set()
    for i in rng.sample(range(n), n):
        if types[i] and nums[i] not in used and rng.random() < 0.6:
            members.append(i)
            used.add(nums[i])
    nops = rng.choice([1, 2, 3, 5, 8, 12, 20, 40]) if rng.random() < 0.9 else rng.randint(40, 80)
    names = [k for k, _ in OPS_W]
    weights = [w for _, w in OPS_W]
    ops = []
    # shadow state only used to keep free-standing sequences inside the property's premise
    sh_nums = list(nums)
    sh_mem = list(members)
    for _ in range(nops):
        k = rng.choices(names, weights)[0]
        o = rng.randrange(n)
        typed = [j for j in range(n) if types[j]] or [0]
        num = rng.randint(0, hi + 2) if rng.random() < 0.9 else rng.randint(-3, hi + 8)
        if k == "append":
            op = (k, o)
        elif k == "append_renumber":
            op = (k, o, rng.choice([1, 1, 1, 2, 3, 5, -1, -2]))
        elif k in ("extend", "iadd"):
            op = (k, [rng.randrange(n) for _ in range(rng.choice([0, 1, 2, 2, 3, 4]))])
        elif k == "setitem":
            op = (k, num, o)
        elif k == "remove":
            op = (k, rng.choice(typed))
        elif k == "pop":
            op = (k, rng.choice([-1, -1, 0, 1, 2, -2, 5, -7]))
        elif k == "del":
            op = (k, num)
        elif k == "clear":
            op = (k,)
        elif k == "setnum":
            op = (k, o, num)
        elif k in ("get", "getitem", "check_number"):
            op = (k, num)
        elif k == "contains":
            op = (k, rng.choice(typed))   # == against a foreign class is outside the model
        elif k in ("numbers", "keys", "len"):
            op = (k,)
        elif k == "request_number":
            op = (k, num, rng.choice([1, 1, 2, 3, -1]))
        elif k == "next_number":
            op = (k, rng.choice([1, 1, 2, 5, 0, -1]))
        elif k == "slice":
            def b():
                return None if rng.random() < 0.4 else rng.randint(-1, hi + 3)
            op = (k, b(), b(), rng.choice([None, None, 1, 2, -1, -2, 3, 0]))
        ops.append(op)
        # probe right after a number changed hands, where a stale cache would show: ask for exactly
        # that number (offered numbers must be free, look-ups must be current)
        if k == "setnum" and rng.random() < 0.5:
            ops.append(rng.choice([("request_number", num, rng.choice([1, 1, 2, 3])), ("get", num),
                                   ("check_number", num), ("get", nums[o])]))
        elif k in ("extend", "iadd", "append", "append_renumber") and rng.random() < 0.35:
            cand = op[1][0] if isinstance(op[1], list) and op[1] else (op[1] if isinstance(op[1], int) else None)
            if cand is not None:
                ops.append(rng.choice([("request_number", nums[cand], rng.choice([1, 2])), ("get", nums[cand]),
                                       ("next_number", 1)]))
    return {"kind": kind, "clink": clink, "nums": nums, "types": types, "members": members, "ops": ops}


def premise_ok(case):
    """The invariant is claimed for problem collections; a free-standing collection cannot see
    a member being renumbered (the object has no pointer to it), so sequences that renumber a
    *member* of a free-standing collection onto a number in use are outside the premise
    (Coll.op_ok in the Coq statement).  Decided on the real objects."""
    if case["clink"]:
        return True
    w = World(case)
    for op in case["ops"]:
        if op[0] == "setnum":
            mem = w.members()
            if op[1] in mem and op[2] in [w.number(m) for m in mem]:
                return False
        w.apply(op)
    return True


def shrink(case, failing):
    """greedy delta-debugging over the op list, then over objects' membership"""
    cur = dict(case)
    changed = True
    while changed:
        changed = False
        ops = cur["ops"]
        for i in range(len(ops) - 1, -1, -1):
            cand = dict(cur)
            cand["ops"] = ops[:i] + ops[i + 1:]
            try:
                if cand["ops"] and failing(cand):
                    cur = cand
                    changed = True
                    break
            except Exception:
                pass
    return cur


# ----------------------------------------------------------------------------
def check_case(case):
    """returns (kind, detail) for a failing case or None"""
    o = oracle(case)
    if o is not None:
        return ("oracle", o)
    return None


def corr_mismatch(case, model_ans):
    real = run_real(case)
    if real != canon_model(model_ans):
        return {"real": real, "model": canon_model(model_ans)}
    return None


def replay(ctx, path):
    case = json.load(open(path))
    c = case.get("case", case)
    c["ops"] = [tuple(o) for o in c["ops"]]
    bad = check_case(c)
    if bad is None:
        ok, _ = vlib.coq_make(["Model/Coll.vo"])
        ans = vlib.model_ask("Coll", [request_of(c)])[0]
        mm = corr_mismatch(c, ans)
        if mm:
            bad = ("correspondence", mm)
    if bad:
        print(f"REPLAY property=C06 still fails: {bad[0]}: {json.dumps(bad[1])}")
        print(f"VIOLATION property=C06 replay={path}")
        return 1
    print("REPLAY property=C06 passes")
    return 0


def corpus_cases():
    d = os.path.join(vlib.VERIF, "corpus", "C06")
    out = []
    if os.path.isdir(d):
        for f in sorted(os.listdir(d)):
            if f.endswith(".json"):
                c = json.load(open(os.path.join(d, f)))
                c = c.get("case", c)
                c["ops"] = [tuple(o) for o in c["ops"]]
                out.append((f, c))
    return out


def run(ctx):
    n_cases = 600 if ctx.tier == "quick" else 30000
    proved = ctx.prove()
    ok, log = vlib.coq_make(["Model/Coll.vo"])
    if not ok:
        ctx.broken_obligations.append({"obligation": "Model/Coll.vo builds", "detail": log[-800:]})
        return ctx.finish(vlib.KERNEL_TB, [], "model did not build")

    cases = [c for _, c in corpus_cases()]
    n_corpus = len(cases)
    i = 0
    skipped = 0
    while len(cases) < n_corpus + n_cases:
        rng = random.Random(f"{ctx.seed}:C06:{i}")
        c = gen_case(rng, i)
        i += 1
        if not premise_ok(c):
            skipped += 1
            continue
        cases.append(c)
    reqs = [request_of(c) for c in cases]
    answers = vlib.model_ask("Coll", reqs)
    nx, bad = vlib.vm_crosscheck("Coll", reqs, answers, sample=120 if ctx.tier == "quick" else 600, seed=ctx.seed)
    if bad:
        ctx.broken_obligations.append({"obligation": "extraction cross-check (binary vs vm_compute)", "detail": bad[:3]})

    dist = {"kinds": {}, "ops": {}, "results": {}, "linked": 0, "freestanding": 0, "op_count_hist": {}}
    corr_bad = 0
    first_corr = None
    for idx, (c, ans) in enumerate(zip(cases, answers)):
        ctx.cov["programs"] += 1
        ctx.count_case(reqs[idx], nontrivial=len(c["ops"]) >= 2)
        dist["kinds"][c["kind"]] = dist["kinds"].get(c["kind"], 0) + 1
        dist["linked" if c["clink"] else "freestanding"] += 1
        b = str(min(len(c["ops"]) // 10 * 10, 80))
        dist["op_count_hist"][b] = dist["op_count_hist"].get(b, 0) + 1
        for o in c["ops"]:
            dist["ops"][o[0]] = dist["ops"].get(o[0], 0) + 1
        for r in ans.split("|")[0].split(";"):
            key = r.split(":")[1] if r.startswith("err:") else r.split(":")[0]
            dist["results"][key] = dist["results"].get(key, 0) + 1
        if idx < 3 or idx == n_corpus:
            ctx.sample({"request": reqs[idx], "model_answer": ans})
        mm = corr_mismatch(c, ans)
        orc = check_case(c)
        ctx.cov["disagreements_checked"] += 1
        if orc is not None:
            def failing(cc):
                return check_case(cc) is not None
            small = shrink(c, failing)
            ctx.fail({"kind": "oracle", "case": small, "detail": check_case(small)[1], "request": request_of(small)})
            if len(ctx.violations) >= 5:
                break
        elif mm is not None:
            corr_bad += 1
            if first_corr is None:
                def failing2(cc):
                    a = vlib.model_ask("Coll", [request_of(cc)])[0]
                    return corr_mismatch(cc, a) is not None and check_case(cc) is None
                small = shrink(c, failing2)
                a = vlib.model_ask("Coll", [request_of(small)])[0]
                first_corr = {"case": small, "request": request_of(small), "diff": corr_mismatch(small, a)}
    if corr_bad:
        ctx.broken_obligations.append({
            "obligation": "correspondence Coll.step vs montepy NumberedObjectCollection",
            "detail": {"disagreeing_cases": corr_bad, "first_shrunk": first_corr}})

    assumptions = [
        "objects offered to a collection are pairwise value-distinct, so Python == on Surface/Material is identity",
        "request_number / append_renumber are called with step != 0 (step 0 loops forever on a used number; "
        "the model reports OutOfFuel, the generator does not produce it)",
        "free-standing collections: sequences that renumber a member onto a number in use are outside the "
        "premise (the object cannot see the collection); %d generated sequences skipped for that reason" % skipped,
    ]
    tb = vlib.KERNEL_TB + [
        "modelled, not verified: montepy/numbered_object_collection.py and the number setters of Cell, Surface, "
        "Material, Transform, Universe as coq/Model/Coll.v (hand-written); tie = op-sequence correspondence of this run",
        f"vm_compute cross-check of {nx} requests of this run against the extracted binary",
    ]
    return ctx.finish(
        tb, assumptions,
        "cases = corpus + seeded random op sequences over 5 collection kinds (linked / free-standing); "
        "distinct = distinct request strings; non-trivial = at least 2 operations",
        extra={"input_distribution": dist, "corpus_cases": n_corpus, "skipped_outside_premise": skipped},
    )
