"""C06 — numbered collections: unique numbers, current look-ups.

Obligations: coq/Properties/C06.v (theorems over coq/Model/Coll.v).
Correspondence: random operation sequences on the five real collection classes versus the
extracted Coll model (result of every operation, final member list, final number cache, final
problem link of every object, final member list of the other problem's collection).
Oracle: the property's sentences evaluated literally on the real collection after every op.

The world of one case: objects 0..n-1 of one kind (a few of a wrong class); the collection under test
(a problem's, or free-standing); a second problem whose collection of the same kind holds the
`fmembers` (objects linked to a FOREIGN problem; with `qcopy` that second problem is a
copy.deepcopy of the first, so its members are deep copies of the members); `keys`: objects with one
key have the same value, so for Surface and Material they are == while their numbers agree.
`read`: the members of a problem's collection are not built one by one but READ: an MCNP input holding them is
written and `montepy.read_input` builds the problem, so every member has `old_number` = its number in the file;
`parsed`: the other cells are parsed from an input line instead of `montepy.Cell()`.
"""
import copy
import json
import os
import random
import sys

import vlib

KINDS = ["cell", "surface", "material", "transform", "universe"]
VALUE_EQ_KINDS = ("surface", "material")     # classes that define __eq__ by value


# ----------------------------------------------------------------------------
# real objects
# ----------------------------------------------------------------------------
def _mk(kind, key, number, parsed=False):
    import montepy
    from montepy.input_parser.mcnp_input import Input
    from montepy.input_parser.block_type import BlockType

    if kind == "cell":
        if parsed:
            return montepy.Cell(Input([f"{number} 0 -9000 imp:n=1"], BlockType.CELL))
        c = montepy.Cell()
        c.number = number
        return c
    if kind == "surface":
        from montepy.surfaces.surface_builder import surface_builder
        return surface_builder(Input([f"{number} so {key + 0.5}"], BlockType.SURFACE))
    if kind == "material":
        from montepy.data_inputs.material import Material
        return Material(Input([f"m{number} 1001.80c {0.25 + key}"], BlockType.DATA))
    if kind == "transform":
        from montepy.data_inputs.transform import Transform
        return Transform(Input([f"tr{number} {key}.5 0 0"], BlockType.DATA))
    if kind == "universe":
        from montepy.universe import Universe
        return Universe(number)
    raise ValueError(kind)


def _coll_of(problem, kind):
    return {"cell": problem.cells, "surface": problem.surfaces, "material": problem.materials,
            "transform": problem.transforms, "universe": problem.universes}[kind]


def _coll_class(kind):
    import montepy
    from montepy.cells import Cells
    from montepy.surface_collection import Surfaces
    from montepy.materials import Materials
    from montepy.transforms import Transforms
    from montepy.universes import Universes
    return {"cell": Cells, "surface": Surfaces, "material": Materials, "transform": Transforms,
            "universe": Universes}[kind]


def _exc_name(e):
    n = type(e).__name__
    return n


def load_json(path):
    with open(path) as fh:
        return json.load(fh)


def norm_case(c):
    """fill the fields older corpus files do not have"""
    c = dict(c)
    n = len(c["nums"])
    c.setdefault("keys", list(range(n)))
    c.setdefault("fmembers", [])
    c.setdefault("qcopy", False)
    c.setdefault("read", False)
    c.setdefault("parsed", False)
    c["ops"] = [tuple(list(o[:1]) + [list(x) if isinstance(x, (list, tuple)) else x for x in o[1:]])
                for o in c["ops"]]
    return c


def qcopy_ok(case):
    """the second problem can be made by copy.deepcopy of the first: its members begin with one
    copy of every member, in order"""
    m = case["members"]
    f = case["fmembers"]
    if not (case.get("qcopy") and case["clink"] and m and len(f) >= len(m)):
        return False
    for a, b in zip(m, f):
        if case["nums"][a] != case["nums"][b] or case["keys"][a] != case["keys"][b] or not case["types"][b]:
            return False
    return len(set(f[:len(m)]) | set(m)) == 2 * len(m)


def read_ok(case):
    """the problem can be read from an input that holds the members"""
    return bool(case.get("read") and case["clink"] and case["members"])


def input_text(case):
    """an MCNP input whose collection of the case's kind holds exactly the members, in order, with their
    numbers (and, for surfaces / materials / transforms, the value that belongs to their key)"""
    kind = case["kind"]
    mem = [(case["nums"][m], case["keys"][m]) for m in case["members"]]
    cells, surfs, data = [], ["9000 so 100"], ["mode n"]
    if kind == "cell":
        cells = [f"{n} 0 -9000 imp:n=1" for n, _ in mem]
    elif kind == "universe":
        cells = [f"{900 + i} 0 -9000 u={n} imp:n=1" for i, (n, _) in enumerate(mem)]
    elif kind == "surface":
        surfs = [f"{n} so {k + 0.5}" for n, k in mem]
        cells = [f"1 0 -{mem[0][0]} imp:n=1"]
    else:
        cells = ["1 0 -9000 imp:n=1"]
        if kind == "material":
            data += [f"m{n} 1001.80c {0.25 + k}" for n, k in mem]
        else:
            data += [f"tr{n} {k}.5 0 0" for n, k in mem]
    return "\n".join(["verif c06 read world"] + cells + [""] + surfs + [""] + data) + "\n"


def needs_other(case):
    return bool(case["fmembers"]) or any(o[0] == "fappend" for o in case["ops"])


class World:
    """Real-side state for one case."""

    def __init__(self, case):
        import montepy
        self.case = case
        kind = case["kind"]
        other = "surface" if kind != "surface" else "cell"
        n = len(case["nums"])
        deep = qcopy_ok(case)
        copies = set(case["fmembers"][:len(case["members"])]) if deep else set()
        self.objs = []
        reading = read_ok(case)
        for oid, (num, ty, key) in enumerate(zip(case["nums"], case["types"], case["keys"])):
            if oid in copies or (reading and oid in case["members"]):
                self.objs.append(None)
            else:
                self.objs.append(_mk(kind if ty else other, key, num, bool(case.get("parsed"))))
        if reading:
            import mp
            self.problem = mp.read_problem(input_text(case), name="c06.i")
            self.coll = _coll_of(self.problem, kind)
            if [o.number for o in self.coll._objects] != [case["nums"][m] for m in case["members"]]:
                raise RuntimeError("the problem read does not hold the members of the case")
            for k, m in enumerate(case["members"]):
                self.objs[m] = self.coll._objects[k]
        elif case["clink"]:
            self.problem = montepy.MCNP_Problem("verif_c06")
            self.coll = _coll_of(self.problem, kind)
            for m in case["members"]:
                self.coll.append(self.objs[m])
        else:
            self.problem = None
            self.coll = _coll_class(kind)([self.objs[m] for m in case["members"]])
        self.other = None
        self.fcoll = None
        if needs_other(case):
            if deep:
                self.other = copy.deepcopy(self.problem)
                self.fcoll = _coll_of(self.other, kind)
                for k, oid in enumerate(case["fmembers"][:len(case["members"])]):
                    self.objs[oid] = self.fcoll._objects[k]
                rest = case["fmembers"][len(case["members"]):]
            else:
                self.other = montepy.MCNP_Problem("verif_c06_other")
                self.fcoll = _coll_of(self.other, kind)
                rest = case["fmembers"]
            for oid in rest:
                self.fcoll.append(self.objs[oid])
        self.index = {id(o): i for i, o in enumerate(self.objs)}

    def oid(self, obj):
        return self.index.get(id(obj), -1)

    def number(self, i):
        return self.objs[i].number

    def members(self):
        return [self.oid(o) for o in self.coll._objects]

    def fmembers(self):
        return [self.oid(o) for o in self.fcoll._objects] if self.fcoll is not None else list(self.case["fmembers"])

    def links(self):
        out = []
        for o in self.objs:
            p = getattr(o, "_problem", None)
            if p is None:
                out.append(0)
            elif self.problem is not None and p is self.problem:
                out.append(1)
            elif self.other is not None and p is self.other:
                out.append(2)
            else:
                out.append(3)
        return out

    def cache(self):
        c = getattr(self.coll, "_NumberedObjectCollection__num_cache")
        return sorted((k, self.oid(v)) for k, v in c.items())

    def apply(self, op):
        """Apply one op; return the canonical result string (same alphabet as Coll.show_res)."""
        c = self.coll
        o = self.objs
        try:
            k = op[0]
            if k == "append":
                c.append(o[op[1]]); return "ok"
            if k == "append_renumber":
                return "n:%d" % c.append_renumber(o[op[1]], op[2])
            if k == "extend":
                c.extend([o[i] for i in op[1]]); return "ok"
            if k == "iadd":
                c += [o[i] for i in op[1]]
                self.coll = c
                return "ok"
            if k == "setitem":
                c[op[1]] = o[op[2]]; return "ok"
            if k == "remove":
                c.remove(o[op[1]]); return "ok"
            if k == "pop":
                return "o:%d" % self.oid(c.pop(op[1]))
            if k == "del":
                del c[op[1]]; return "ok"
            if k == "clear":
                c.clear(); return "ok"
            if k == "setnum":
                o[op[1]].number = op[2]; return "ok"
            if k == "get":
                r = c.get(op[1]); return "o:none" if r is None else "o:%d" % self.oid(r)
            if k == "getitem":
                return "o:%d" % self.oid(c[op[1]])
            if k == "contains":
                return "b:1" if o[op[1]] in c else "b:0"
            if k == "numbers":
                return "ns:" + (",".join(str(x) for x in c.numbers) or "-")
            if k == "keys":
                return "ns:" + (",".join(str(x) for x in c.keys()) or "-")
            if k == "len":
                return "n:%d" % len(c)
            if k == "check_number":
                c.check_number(op[1]); return "ok"
            if k == "request_number":
                return "n:%d" % c.request_number(op[1], op[2])
            if k == "next_number":
                return "n:%d" % c.next_number(op[1])
            if k == "slice":
                r = c[slice(op[1], op[2], op[3])]
                return "os:" + (",".join(str(self.oid(x)) for x in r._objects) or "-")
            if k == "fappend":
                self.fcoll.append(o[op[1]]); return "ok"
            if k == "slice_append":
                r = c[slice(op[1], op[2], op[3])]
                r.append(o[op[4]]); return "ok"
            raise RuntimeError("unknown op " + repr(op))
        except Exception as e:  # noqa
            return "err:" + _exc_name(e)


def op_text(op):
    def z(x):
        return "_" if x is None else str(x)
    k = op[0]
    if k in ("extend", "iadd"):
        return k + " " + (",".join(map(str, op[1])) or "-")
    return " ".join([k] + [z(x) for x in op[1:]])


def wire_keys(case):
    """== is identity for Cell, Transform, Universe (every object its own class); objects of a wrong
    class are never compared"""
    n = len(case["nums"])
    if case["kind"] in VALUE_EQ_KINDS:
        return [case["keys"][i] if case["types"][i] else 100000 + i for i in range(n)]
    return list(range(n))


def request_of(case):
    def bl(l):
        return ",".join("1" if x else "0" for x in l) or "-"
    n = len(case["nums"])
    links = []
    for i in range(n):
        if i in case["fmembers"]:
            links.append(2)
        elif case["clink"] and i in case["members"]:
            links.append(1)
        else:
            links.append(0)
    hd = " ".join([
        "1" if case["clink"] else "0",
        ",".join(map(str, case["nums"])) or "-",
        ",".join(map(str, links)) or "-",
        bl(case["types"]),
        ",".join(map(str, wire_keys(case))) or "-",
        ",".join(map(str, case["members"])) or "-",
        ",".join(map(str, case["fmembers"])) or "-",
    ])
    return hd + " | " + " ; ".join(op_text(o) for o in case["ops"])


def run_real(case):
    """results of all operations | members | number cache | links | members of the other collection"""
    w = World(case)
    outs = [w.apply(op) for op in case["ops"]]
    mem = ",".join(map(str, w.members())) or "-"
    cache = ",".join(f"{k}>{v}" for k, v in w.cache()) or "-"
    links = ",".join(map(str, w.links())) or "-"
    fmem = ",".join(map(str, w.fmembers())) or "-"
    return ";".join(outs) + "|" + mem + "|" + cache + "|" + links + "|" + fmem


def ghosts_only(obs):
    """The compared part of the number cache: the entries that point at an object which is NOT a member (the
    second clause of Inv says there are none).  Which of the members' entries are present depends on which
    look-ups happened to refresh the cache; no result depends on it (C06_lookup), and a rewrite of the refresh
    policy is not a defect - the full caches are compared too, but a difference there is only counted."""
    parts = obs.split("|")
    if len(parts) != 5:
        return obs
    mem = set() if parts[1] == "-" else set(parts[1].split(","))
    g = [it for it in ([] if parts[2] == "-" else parts[2].split(",")) if it.split(">")[1] not in mem]
    return "|".join([parts[0], parts[1], ",".join(g) or "-", parts[3], parts[4]])


def split_model(ans):
    """(observable part, positions of SetNum ops outside the premise, positions of Remove ops that were
    given an equal object which is not the member)"""
    parts = ans.split("|")
    if len(parts) != 7:
        return ans, [], []
    c = parts[2]
    if c != "-":
        items = []
        for it in c.split(","):
            k, v = it.split(">")
            items.append((int(k), int(v)))
        c = ",".join(f"{k}>{v}" for k, v in sorted(items))

    def ints(s):
        return [] if s == "-" else [int(x) for x in s.split(",")]
    return "|".join([parts[0], parts[1], c, parts[3], parts[4]]), ints(parts[5]), ints(parts[6])


def canon_model(ans):
    return split_model(ans)[0]


def ask(cases):
    return vlib.model_ask("Coll", [request_of(c) for c in cases])


def inside_premise(case):
    """the model's verdict on the premise the invariant is claimed under (Coll.setnum_seen =
    CollProofs.op_ok for SetNum, C06_premise_decided): no member that is not linked to this collection's
    problem is renumbered onto a number in use"""
    return not split_model(ask([case])[0])[1]


# ----------------------------------------------------------------------------
# oracle: the property read literally
# ----------------------------------------------------------------------------
def oracle(case):
    """Return None or a dict describing the first violated sentence.  Two passes: look-ups repair the
    number cache of the real collection, so a pass that probes get()/[] after every operation can hide a
    stale-cache defect from the operations that follow; the first pass therefore observes nothing but the
    objects themselves (and probes once, after the last operation), the second adds the look-up probes."""
    return oracle_pass(case, False) or oracle_pass(case, True)


def oracle_pass(case, probe_lookups):
    w = World(case)
    nrange = range(-1, max(case["nums"] + [1]) + 12)
    last = len(case["ops"]) - 1
    for i, op in enumerate(case["ops"]):
        before_members = w.members()
        before_f = w.fmembers()
        before_nums = [w.number(j) for j in range(len(w.objs))]
        r = w.apply(op)
        members = w.members()
        nums = [w.number(j) for j in members]
        if len(set(nums)) != len(nums):
            return {"sentence": "no two members share a number", "at_op": i, "op": op_text(op),
                    "member_numbers": nums}
        if len(set(members)) != len(members):
            return {"sentence": "an object is a member at most once", "at_op": i, "op": op_text(op),
                    "members": members}
        if r == "err:NumberConflictError":
            if members != before_members or [w.number(j) for j in range(len(w.objs))] != before_nums \
                    or w.fmembers() != before_f:
                return {"sentence": "NumberConflictError leaves the collection unchanged", "at_op": i,
                        "op": op_text(op), "before": [before_members, before_nums],
                        "after": [members, [w.number(j) for j in range(len(w.objs))]]}
        if op[0] in ("request_number",) and r.startswith("n:"):
            if int(r[2:]) in nums:
                return {"sentence": "request_number offers a free number", "at_op": i, "op": op_text(op), "got": r}
        if op[0] == "next_number" and r.startswith("n:"):
            if int(r[2:]) in nums:
                return {"sentence": "next_number offers a free number", "at_op": i, "op": op_text(op), "got": r}
        if op[0] == "append_renumber" and r.startswith("n:"):
            if nums.count(int(r[2:])) != 1:
                return {"sentence": "append_renumber gives the object a free number", "at_op": i,
                        "op": op_text(op), "got": r}
        # look-ups are current
        for n in (nrange if (probe_lookups or i == last) else ()):
            exp = [m for m in members if w.number(m) == n]
            got = w.coll.get(n)
            g = None if got is None else w.oid(got)
            if (exp and g != exp[0]) or (not exp and g is not None):
                return {"sentence": "get(n) returns the member whose current number is n, else None",
                        "at_op": i, "op": op_text(op), "n": n, "expected": exp[:1], "got": g}
            try:
                got2 = w.oid(w.coll[n])
            except KeyError:
                got2 = None
            if got2 != g:
                return {"sentence": "[] agrees with get", "at_op": i, "op": op_text(op), "n": n}
        # `in`: Python membership (identity or ==) against the members, nothing else
        if probe_lookups or i == last:
            mobjs = [w.objs[m] for m in members]
            for j, x in enumerate(w.objs):
                if not case["types"][j]:
                    continue
                exp_in = any(m is x or m == x for m in mobjs)
                if (x in w.coll) != exp_in:
                    return {"sentence": "obj in collection iff obj equals a member", "at_op": i, "op": op_text(op),
                            "object": j, "expected": exp_in}
    return None


# ----------------------------------------------------------------------------
# generator
# ----------------------------------------------------------------------------
OPS_W = [
    ("append", 10), ("append_renumber", 6), ("extend", 7), ("iadd", 7), ("setitem", 3), ("remove", 7),
    ("pop", 4), ("del", 5), ("clear", 1), ("setnum", 14), ("get", 8), ("getitem", 4), ("contains", 2),
    ("numbers", 3), ("keys", 1), ("len", 1), ("check_number", 3), ("request_number", 3),
    ("next_number", 2), ("slice", 3), ("fappend", 3), ("slice_append", 2),
]


def gen_case(rng, idx):
    kind = KINDS[idx % len(KINDS)]
    clink = rng.random() < 0.75
    n = rng.choice([2, 3, 4, 5, 6, 8, 10])
    hi = rng.choice([3, 4, 6, 9, 15])
    nums = [rng.randint(1, hi) for _ in range(n)]
    types = [rng.random() > 0.08 for _ in range(n)]
    keys = list(range(n))
    # objects of equal value: Surface and Material compare by value (== needs equal numbers too)
    if rng.random() < 0.6:
        for i in range(1, n):
            if types[i] and rng.random() < 0.45:
                j = rng.randrange(i)
                if types[j]:
                    keys[i] = keys[j]
                    if rng.random() < 0.8:
                        nums[i] = nums[j]
    members = []
    used = set()
    for i in rng.sample(range(n), n):
        if types[i] and nums[i] not in used and rng.random() < 0.6:
            members.append(i)
            used.add(nums[i])
    # a second problem with its own collection: deep copy of the first, or independent
    fmembers = []
    qcopy = False
    mode = rng.random()
    if mode < 0.25 and clink and members:
        qcopy = True
        for m in members:
            nums.append(nums[m]); types.append(True); keys.append(keys[m])
            fmembers.append(len(nums) - 1)
    if mode < 0.6:
        fused = set(nums[i] for i in fmembers)
        for i in rng.sample(range(n), n):
            if i not in members and types[i] and nums[i] not in fused and rng.random() < 0.5:
                fmembers.append(i)
                fused.add(nums[i])
    n = len(nums)
    read = clink and bool(members) and rng.random() < 0.4
    parsed = rng.random() < 0.5
    foreign = [i for i in fmembers]
    twins = [i for i in range(n) if types[i] and any(j != i and keys[j] == keys[i] for j in range(n))]
    nops = rng.choice([1, 2, 3, 5, 8, 12, 20, 40]) if rng.random() < 0.9 else rng.randint(40, 80)
    names = [k for k, _ in OPS_W]
    weights = [w for _, w in OPS_W]
    ops = []
    typed = [j for j in range(n) if types[j]] or [0]

    def pick_obj():
        r = rng.random()
        if foreign and r < 0.25:
            return rng.choice(foreign)
        if twins and r < 0.45:
            return rng.choice(twins)
        return rng.randrange(n)

    def member_number():
        pool = [nums[m] for m in members] or nums
        return rng.choice(pool)

    def equal_pair():
        """a member (or any object) and another object of the same value"""
        pairs = [(e, x) for e in (members or typed) for x in typed if x != e and keys[x] == keys[e]]
        return rng.choice(pairs) if pairs else None

    for _ in range(nops):
        if twins and rng.random() < 0.08:
            # an object equal to a member stands in for it: the member is renumbered, the equal object follows,
            # remove() is given the equal object, then the numbers the member had are asked for and re-used
            pr = equal_pair()
            if pr:
                e, x = pr
                k2 = rng.randint(1, hi + 4)
                seq = [("setnum", e, k2), ("setnum", x, k2), ("remove", x),
                       rng.choice([("get", k2), ("getitem", k2), ("slice", k2, k2, None), ("request_number", k2, 1),
                                   ("setnum", e, nums[e]), ("append", x)]),
                       rng.choice([("get", nums[e]), ("setnum", e, nums[e]), ("get", k2), ("append", e)]),
                       ("get", nums[e])]
                ops.extend(seq[rng.choice([0, 0, 1, 2]):rng.choice([3, 4, 5, 6])])
                continue
        if rng.random() < 0.07:
            # a member goes away from the number it started with, someone else takes that number, the first
            # one wants it back: whatever the object remembers about its first number, the answer is no
            a = rng.choice(members) if members and rng.random() < 0.8 else rng.choice(typed)
            others = [j for j in (members if rng.random() < 0.7 else typed) if j != a]
            if others:
                b = rng.choice(others)
                away = hi + rng.randint(3, 12)
                seq = [("setnum", a, away), ("setnum", b, nums[a]), ("setnum", a, nums[a]),
                       rng.choice([("get", nums[a]), ("getitem", nums[a]), ("request_number", nums[a], 1)])]
                if a not in members and rng.random() < 0.7:
                    seq.insert(0, ("append", a))
                if b not in members and rng.random() < 0.7:
                    seq.insert(1, ("append", b))
                ops.extend(seq)
                continue
        k = rng.choices(names, weights)[0]
        o = pick_obj()
        num = rng.randint(0, hi + 2) if rng.random() < 0.9 else rng.randint(-3, hi + 8)
        if k == "append":
            op = (k, o)
        elif k == "append_renumber":
            op = (k, o, rng.choice([1, 1, 1, 2, 3, 5, -1, -2]))
        elif k in ("extend", "iadd"):
            op = (k, [pick_obj() for _ in range(rng.choice([0, 1, 2, 2, 3, 4]))])
        elif k == "setitem":
            op = (k, num, o)
        elif k == "remove":
            x = o if types[o] else rng.choice(typed)
            op = (k, x)
        elif k == "pop":
            op = (k, rng.choice([-1, -1, 0, 1, 2, -2, 5, -7]))
        elif k == "del":
            op = (k, num)
        elif k == "clear":
            op = (k,)
        elif k == "setnum":
            op = (k, o, num)
        elif k in ("get", "getitem", "check_number"):
            op = (k, num)
        elif k == "contains":
            op = (k, o if types[o] else rng.choice(typed))   # == against another class is outside the model
        elif k in ("numbers", "keys", "len"):
            op = (k,)
        elif k == "request_number":
            op = (k, num, rng.choice([1, 1, 2, 3, -1]))
        elif k == "next_number":
            op = (k, rng.choice([1, 1, 2, 5, 0, -1]))
        elif k == "slice":
            def b():
                return None if rng.random() < 0.4 else rng.randint(-1, hi + 3)
            op = (k, b(), b(), rng.choice([None, None, 1, 2, -1, -2, 3, 0]))
        elif k == "fappend":
            op = (k, o)
        elif k == "slice_append":
            def b2():
                return None if rng.random() < 0.5 else rng.randint(0, hi + 3)
            op = (k, b2(), b2(), rng.choice([None, None, 1, 2, -1]), o)
        ops.append(op)
        # probe right after a number changed hands, where a stale cache would show: ask for exactly
        # that number (offered numbers must be free, look-ups must be current)
        if k == "setnum" and rng.random() < 0.5:
            ops.append(rng.choice([("request_number", num, rng.choice([1, 1, 2, 3])), ("get", num),
                                   ("check_number", num), ("get", nums[o])]))
        elif k in ("extend", "iadd", "append", "append_renumber", "setitem"):
            cands = op[1] if k in ("extend", "iadd") else [op[2] if k == "setitem" else op[1]]
            r = rng.random()
            if cands and r < 0.3:
                cand = cands[0]
                ops.append(rng.choice([("request_number", nums[cand], rng.choice([1, 2])), ("get", nums[cand]),
                                       ("next_number", 1)]))
            elif cands and r < 0.65:
                # the object that has just been added is renumbered onto the number of another member:
                # its setter has to ask THIS collection, whatever the object was linked to before
                cand = rng.choice(cands)
                if rng.random() < 0.5:
                    ops.append(("setnum", cand, member_number()))
                else:
                    fresh = hi + rng.randint(3, 9)
                    mover = rng.choice(members) if members else rng.randrange(n)
                    ops.append(("setnum", mover, fresh))
                    ops.append(("setnum", cand, fresh))
        elif k == "remove" and rng.random() < 0.6:
            # after remove(x) nobody has x's number: look it up, renumber the equal objects back and forth
            x = op[1]
            same = [j for j in range(n) if keys[j] == keys[x] and types[j]] or [x]
            ops.append(rng.choice([("get", nums[x]), ("getitem", nums[x]), ("slice", nums[x], nums[x], None),
                                   ("setnum", rng.choice(same), nums[x]), ("setnum", rng.choice(same), num),
                                   ("request_number", nums[x], 1)]))
        elif k == "fappend" and rng.random() < 0.5:
            ops.append(("setnum", op[1], member_number()))
        elif k == "slice_append" and rng.random() < 0.6:
            # what was added to the slice is not in this collection: its number stays free here
            ops.append(rng.choice([("get", nums[o]), ("request_number", nums[o], 1), ("setnum", o, member_number())]))
    return {"kind": kind, "clink": clink, "nums": nums, "types": types, "keys": keys, "members": members,
            "fmembers": fmembers, "qcopy": qcopy, "read": read, "parsed": parsed, "ops": ops}


def setup_ok(case):
    """the initial state can be built on the real side (unique numbers in both collections)"""
    try:
        World(case)
        return True
    except Exception:
        return False


def into_premise(cases):
    """Drop, in every case, the SetNum operations that are outside the premise of the invariant theorem
    (the renumbering, onto a number in use, of a member that is not linked to this collection's problem: a
    free-standing collection, or a member another problem has taken over, cannot see it).  Decided by the
    model (Coll.setnum_seen), in rounds; what is still outside after the rounds is cut off.
    Returns (cases, model answers, number of operations dropped)."""
    cases = [dict(c) for c in cases]
    answers = ask(cases)
    dropped = 0
    for rnd in range(6):
        todo = []
        for i, a in enumerate(answers):
            br = split_model(a)[1]
            if br:
                ops = list(cases[i]["ops"])
                if rnd < 5:
                    del ops[br[0]]
                    dropped += 1
                else:
                    dropped += len(ops) - br[0]
                    ops = ops[:br[0]]
                cases[i]["ops"] = ops
                todo.append(i)
        if not todo:
            break
        new = ask([cases[i] for i in todo])
        for i, a in zip(todo, new):
            answers[i] = a
    return cases, answers, dropped


def shrink(case, failing):
    """delta-debugging over the op list: what follows the failing operation goes first, then blocks of
    operations (halving), then single operations until nothing can be removed"""
    cur = dict(case)
    try:
        bad = check_case(cur)
        if bad is not None and "at_op" in bad[1]:
            cand = dict(cur, ops=list(cur["ops"])[:bad[1]["at_op"] + 1])
            if len(cand["ops"]) < len(cur["ops"]) and failing(cand):
                cur = cand
    except Exception:
        pass
    size = len(cur["ops"]) // 2
    while size >= 2:
        i = 0
        while i < len(cur["ops"]):
            cand = dict(cur, ops=cur["ops"][:i] + cur["ops"][i + size:])
            try:
                ok = bool(cand["ops"]) and failing(cand)
            except Exception:
                ok = False
            if ok:
                cur = cand
            else:
                i += size
        size //= 2
    changed = True
    while changed:
        changed = False
        ops = cur["ops"]
        for i in range(len(ops) - 1, -1, -1):
            cand = dict(cur)
            cand["ops"] = ops[:i] + ops[i + 1:]
            try:
                if cand["ops"] and failing(cand):
                    cur = cand
                    changed = True
                    break
            except Exception:
                pass
    return cur


# ----------------------------------------------------------------------------
ADDERS = ("append", "append_renumber", "extend", "iadd", "setitem")


def first_outside_premise_real(case):
    """The premise once more, on the real side, for trees on which the model's state may have drifted from the
    real one: position of the first SetNum that renumbers a member onto a number in use although the member
    is not SUPPOSED to be linked to this collection's problem, else None.  'Supposed' follows the history, not
    obj._problem (a tree that forgets to link is exactly what must be caught): an object is supposed to be
    linked here after an adding operation of this problem's collection succeeded for it, and elsewhere after
    the other problem's append succeeded for it."""
    w = World(case)
    n = len(w.objs)
    here = [case["clink"] and i in case["members"] and i not in case["fmembers"] for i in range(n)]
    for i, op in enumerate(case["ops"]):
        if op[0] == "setnum":
            mem = w.members()
            x = op[1]
            if x in mem and not here[x] and op[2] in [w.number(m) for m in mem if m != x]:
                return i
        before = set(w.members())
        r = w.apply(op)
        if op[0] in ADDERS and case["clink"] and (r == "ok" or r.startswith("n:")):
            for x in set(w.members()) - before:
                here[x] = True
        elif op[0] == "fappend" and r == "ok":
            here[op[1]] = False
    return None


def check_case(case):
    """returns (kind, detail) for a failing case or None; only the part of the sequence that is inside the
    premise on the real side too is judged"""
    j = first_outside_premise_real(case)
    if j is not None:
        case = dict(case, ops=list(case["ops"])[:j])
    o = oracle(case) if case["ops"] else None
    if o is not None:
        return ("oracle", o)
    return None


def fails_inside_premise(case):
    return check_case(case) is not None and inside_premise(case)


CACHE_POLICY_DIFFS = [0]


def corr_mismatch(case, model_ans):
    real = run_real(case)
    model = canon_model(model_ans)
    if ghosts_only(real) != ghosts_only(model):
        return {"real": real, "model": model}
    if real != model:
        CACHE_POLICY_DIFFS[0] += 1
    return None


def neighbours(case, rng, limit=500):
    """the disagreeing case followed by one or two operations aimed at what it touched: every object gets
    the numbers that are around, is added, removed, looked up"""
    w = World(case)
    for op in case["ops"]:
        w.apply(op)
    n = len(w.objs)
    numbers = sorted(set(list(case["nums"]) + [w.number(i) for i in range(n)] +
                         [x for op in case["ops"] for x in op[1:] if isinstance(x, int) and 0 < x < 60]))
    touched = set(w.members())
    for op in case["ops"]:
        if op[0] in ("extend", "iadd"):
            touched |= set(op[1])
        elif op[0] in ("append", "append_renumber", "remove", "setnum", "contains", "fappend"):
            touched.add(op[1])
        elif op[0] == "setitem":
            touched.add(op[2])
        elif op[0] == "slice_append":
            touched.add(op[4])
    touched = sorted(x for x in touched if isinstance(x, int) and 0 <= x < n)
    objs = touched or list(range(n))
    fresh = max(numbers + [1]) + 3
    pool = []
    for i in objs:
        if not case["types"][i]:
            continue
        pool += [("setnum", i, m) for m in numbers + [fresh]]
        pool += [("append", i), ("remove", i), ("append_renumber", i, 1), ("extend", [i]), ("iadd", [i])]
    pool += [("get", m) for m in numbers] + [("del", m) for m in numbers]
    pool += [("request_number", m, 1) for m in numbers] + [("next_number", 1), ("pop", -1), ("slice", None, None, None)]
    out = [dict(case, ops=list(case["ops"]) + [p]) for p in pool]
    pairs = [(a, b) for a in pool for b in pool if a[0] in ("setnum", "append", "remove", "extend", "iadd")]
    rng.shuffle(pairs)
    out += [dict(case, ops=list(case["ops"]) + [a, b]) for a, b in pairs[:max(0, limit - len(out))]]
    return out[:limit]


def search_near(case, rng):
    """lesson (ii): before a disagreement is reported without a failing input, evaluate the property on the
    shrunk case and on its neighbours (inside the premise)"""
    cands = [case] + neighbours(case, rng)
    answers = ask(cands)
    for c, a in zip(cands, answers):
        if split_model(a)[1]:
            continue
        try:
            if check_case(c) is not None:
                return c
        except Exception:
            continue
    return None


def replay(ctx, path):
    case = load_json(path)
    c = norm_case(case.get("case", case))
    ok, _ = vlib.coq_make(["Model/Coll.vo"])
    bad = check_case(c)
    if bad is not None and not inside_premise(c):
        bad = None
    if bad is None:
        ans = ask([c])[0]
        mm = corr_mismatch(c, ans)
        if mm:
            bad = ("correspondence", mm)
    if bad:
        print(f"REPLAY property=C06 still fails: {bad[0]}: {json.dumps(bad[1])}")
        print(f"VIOLATION property=C06 replay={path}")
        return 1
    print("REPLAY property=C06 passes")
    return 0


def corpus_cases():
    d = os.path.join(vlib.VERIF, "corpus", "C06")
    out = []
    if os.path.isdir(d):
        for f in sorted(os.listdir(d)):
            if f.endswith(".json"):
                c = load_json(os.path.join(d, f))
                out.append((f, norm_case(c.get("case", c))))
    return out


def replay_findings(ctx):
    """(6) the committed replay of every open finding: does the defect still show on this tree?"""
    for fd in ctx.findings:
        if fd.get("status") != "open" or not fd.get("replay"):
            continue
        try:
            c = load_json(os.path.join(vlib.VERIF, fd["replay"]))
            c = norm_case(c.get("case", c))
            fd["_reproduced"] = check_case(c) is not None
        except Exception as e:  # noqa
            fd["_reproduced"] = False
            fd["_replay_error"] = repr(e)


def run(ctx):
    n_cases = 600 if ctx.tier == "quick" else 20000
    proved = ctx.prove()
    ok, log = vlib.coq_make(["Model/Coll.vo"])
    if not ok:
        ctx.broken_obligations.append({"obligation": "Model/Coll.vo builds", "detail": log[-800:]})
        return ctx.finish(vlib.KERNEL_TB, [], "model did not build")

    cases = [c for _, c in corpus_cases()]
    n_corpus = len(cases)
    i = 0
    unbuildable = 0
    while len(cases) < n_corpus + n_cases:
        rng = random.Random(f"{ctx.seed}:C06:{i}")
        c = gen_case(rng, i)
        i += 1
        if not setup_ok(c):
            unbuildable += 1
            continue
        cases.append(c)
    cases, answers, dropped = into_premise(cases)
    reqs = [request_of(c) for c in cases]
    nx, bad = vlib.vm_crosscheck("Coll", reqs, answers, sample=120 if ctx.tier == "quick" else 600, seed=ctx.seed)
    if bad:
        ctx.broken_obligations.append({"obligation": "extraction cross-check (binary vs vm_compute)", "detail": bad[:3]})

    dist = {"kinds": {}, "ops": {}, "results": {}, "linked": 0, "freestanding": 0, "op_count_hist": {},
            "second_problem": {"none": 0, "independent": 0, "deepcopy": 0}, "cases_with_equal_valued_objects": 0,
            "remove_given_equal_non_member": 0, "candidates_linked_elsewhere": 0,
            "members_read_from_an_input": 0, "cells_parsed_from_a_line": 0}
    corr_bad = 0
    first_corr = None
    near = None
    for idx, (c, ans) in enumerate(zip(cases, answers)):
        ctx.cov["programs"] += 1
        ctx.count_case(reqs[idx], nontrivial=len(c["ops"]) >= 2)
        dist["kinds"][c["kind"]] = dist["kinds"].get(c["kind"], 0) + 1
        dist["linked" if c["clink"] else "freestanding"] += 1
        dist["second_problem"]["deepcopy" if qcopy_ok(c) else "independent" if c["fmembers"] else "none"] += 1
        if c["kind"] in VALUE_EQ_KINDS and len(set(c["keys"])) < len(c["keys"]):
            dist["cases_with_equal_valued_objects"] += 1
        dist["remove_given_equal_non_member"] += len(split_model(ans)[2])
        dist["members_read_from_an_input"] += 1 if read_ok(c) else 0
        dist["cells_parsed_from_a_line"] += 1 if (c["kind"] == "cell" and c.get("parsed")) else 0
        b = str(min(len(c["ops"]) // 10 * 10, 80))
        dist["op_count_hist"][b] = dist["op_count_hist"].get(b, 0) + 1
        for o in c["ops"]:
            dist["ops"][o[0]] = dist["ops"].get(o[0], 0) + 1
            if o[0] in ("append", "append_renumber") and o[1] in c["fmembers"]:
                dist["candidates_linked_elsewhere"] += 1
            elif o[0] in ("extend", "iadd"):
                dist["candidates_linked_elsewhere"] += sum(1 for x in o[1] if x in c["fmembers"])
        for r in ans.split("|")[0].split(";"):
            key = r.split(":")[1] if r.startswith("err:") else r.split(":")[0]
            dist["results"][key] = dist["results"].get(key, 0) + 1
        if idx < 3 or idx == n_corpus:
            ctx.sample({"request": reqs[idx], "model_answer": ans})
        mm = corr_mismatch(c, ans)
        orc = check_case(c)
        ctx.cov["disagreements_checked"] += 1
        if orc is not None:
            small = shrink(c, fails_inside_premise)
            ctx.fail({"kind": "oracle", "case": small, "detail": check_case(small)[1], "request": request_of(small)})
            if len(ctx.violations) >= 5:
                break
        elif mm is not None:
            corr_bad += 1
            if first_corr is None:
                def failing2(cc):
                    a = ask([cc])[0]
                    return corr_mismatch(cc, a) is not None and check_case(cc) is None
                small = shrink(c, failing2)
                a = ask([small])[0]
                first_corr = {"case": small, "request": request_of(small), "diff": corr_mismatch(small, a)}
            if near is None and corr_bad <= 4:
                # lesson (ii): look for a failing input around the disagreement before giving up
                def failing3(cc):
                    return corr_mismatch(cc, ask([cc])[0]) is not None and check_case(cc) is None
                sm = first_corr["case"] if corr_bad == 1 else shrink(c, failing3)
                near = search_near(sm, random.Random(f"{ctx.seed}:C06:near:{idx}"))
                if near is not None:
                    small = shrink(near, fails_inside_premise)
                    ctx.fail({"kind": "oracle", "found": "next to a correspondence disagreement", "case": small,
                              "detail": check_case(small)[1], "request": request_of(small)})
    if corr_bad:
        ctx.broken_obligations.append({
            "obligation": "correspondence Coll.step vs montepy NumberedObjectCollection",
            "detail": {"disagreeing_cases": corr_bad, "first_shrunk": first_corr}})

    replay_findings(ctx)

    assumptions = [
        "Python == on objects: Surface.__eq__ / Material.__eq__ compare the value and the number (Coll.oeq with the "
        "generated value classes); Cell, Transform, Universe compare by identity; objects of a wrong class are offered "
        "to append/extend/+=/[]= only (== against another class is outside the model)",
        "request_number / append_renumber are called with step != 0 (step 0 loops forever on a used number; "
        "the model reports OutOfFuel, the generator does not produce it)",
        "premise of the invariant (Coll.setnum_seen, decided by the model, C06_premise_decided): a member that is not "
        "linked to this collection's problem - free-standing collection, or member taken over by another problem's "
        "collection - is not renumbered onto a number in use (the object cannot see the collection); "
        "%d generated operations dropped for that reason" % dropped,
        "one other problem per case; its collection is only appended to (fappend) and asked by number setters",
    ]
    tb = vlib.KERNEL_TB + [
        "modelled, not verified: montepy/numbered_object_collection.py and the number setters of Cell, Surface, "
        "Material, Transform, Universe as coq/Model/Coll.v (hand-written); tie = op-sequence correspondence of this run",
        f"vm_compute cross-check of {nx} requests of this run against the extracted binary",
    ]
    return ctx.finish(
        tb, assumptions,
        "cases = corpus + seeded random op sequences over 5 collection kinds (linked / free-standing, with a second "
        "problem: none / independent / deep copy); distinct = distinct request strings; non-trivial = at least 2 operations",
        extra={"input_distribution": dist, "corpus_cases": n_corpus, "ops_dropped_outside_premise": dropped,
               "unbuildable_initial_states": unbuildable,
               "cases_whose_member_cache_entries_differ_from_the_model": CACHE_POLICY_DIFFS[0]},
    )
