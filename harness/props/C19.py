"""C19 — see DESIGN.md §6 C19 / §14; shared runner in _rtcommon.py, oracles in harness/rt.py."""
import props._rtcommon as R

ASSUMPTIONS = [
    "generated problems stay inside the safe region of the generator (harness/gen.py): no xM shortcut, no three chained "
    "shortcuts, no '#' in columns 1-5, every ZAID with a library — those are C08/C12 findings",
    "spec.py is this framework's reading of the MCNP 6.2 manual (MCNP itself is not available)",
]


def run(ctx):
    ctx, tb, dist = R.run_rt(ctx, "C19", 400, 3000, with_edits=True)
    return ctx.finish(tb, ASSUMPTIONS, "generated problems x edit programs: write twice, write with str/repr/format/write interleaved between the edits, and read MontePy's own output and write it again (generations); distinct = distinct (text, program)", extra={"input_distribution": dist})


def replay(ctx, path):
    return R.replay_rt(ctx, "C19", path)
