"""C01 — see DESIGN.md §6 C01 / §14; shared runner in _rtcommon.py, oracles in harness/rt.py."""
import props._rtcommon as R

ASSUMPTIONS = [
    "generated problems stay inside the safe region of the generator (harness/gen.py): no xM shortcut, no three chained "
    "shortcuts, no '#' in columns 1-5, every ZAID with a library — those are C08/C12 findings",
    "spec.py is this framework's reading of the MCNP 6.2 manual (MCNP itself is not available)",
]


def run(ctx):
    ctx, tb, dist = R.run_rt(ctx, "C01", 400, 6000, with_edits=False)
    return ctx.finish(tb, ASSUMPTIONS, "generated G_core problems (cells with CSG geometry, materials, surfaces of many mnemonics, data cards incl. data-block cell modifiers, shortcuts, comments, message block; 80 and 128 columns), read and written unedited; distinct = distinct input text", extra={"input_distribution": dist})


def replay(ctx, path):
    return R.replay_rt(ctx, "C01", path)
