"""C01 — see DESIGN.md §6 C01 / §14; shared runner in _rtcommon.py, oracles in harness/rt.py."""
import props._rtcommon as R

ASSUMPTIONS = [
    "generated problems stay inside the safe region of the generator (harness/gen.py): no xM shortcut, no three chained "
    "shortcuts, no '#' in columns 1-5, every ZAID with a library, no interpolation that ends in 0 — those are C08/C12's",
    "spec.py is this framework's reading of the MCNP 6.2 manual (MCNP itself is not available)",
    "the theorems are about coq/Model/Tree.v; they reach the real code through the per-run correspondence (dumped real "
    "trees, first and second format, cell parameter loop, importance trees) and the per-input validation of the parser "
    "hypothesis (flatten(parsed tree) == text read, up to the comment lines parse_input moves to the next input)",
    "C01_split_agrees (coq/Properties/C01Spec.v) holds for files satisfying SpecWire.wf_file (notes/Spec.md: ends in LF, "
    "no '#' in columns 1-5, no '& $', no comment-only block, ...); outside it the reader and the rules differ on the "
    "witnesses recorded as F-C01-spec-* findings; the reader side of the theorem is the model coq/Model/Lines.v, tied to "
    "the real read_input_syntax by the instance check of harness/spec_tie.py on every well-formed generated file",
]


def run(ctx):
    ctx, tb, dist = R.run_rt(ctx, "C01", 400, 6000, with_edits=False)
    # the oracle's reading of a file (harness/spec.py) is itself tied to the Coq rules Spec/Cards.v, and the modelled line
    # reader is PROVED to yield the cards of those rules (Properties/C01Spec.v: C01_split_agrees, 9 statements); their
    # obligations count for C01 and a mismatch between spec.py / the real reader / the rules is a broken obligation of C01
    import spec_tie
    tie = spec_tie.run(ctx)
    tb = tb + [
        "coq/Spec/Cards.v (MCNP's line/card rules S1-S9, DESIGN 3.1) is a transcription of the manual by this framework; "
        "harness/spec_tie.py compares it with harness/spec.py and the real read_input_syntax on generated files (search, not proof)",
    ]
    return ctx.finish(tb, ASSUMPTIONS, "generated G_core problems (cells with CSG geometry, materials, surfaces of many mnemonics, data cards incl. data-block cell modifiers, lattice fill arrays, shortcuts, comments, message block; plain and wild layouts incl. tabs, '&', mixed case, CRLF; comment lines at block ends, text after the data block, junk beyond the column limit; 80 and 128 columns), read and written unedited; distinct = distinct input text", extra={"input_distribution": dist, "spec_tie": tie})


def replay(ctx, path):
    import json
    with open(path) as fh:
        c = json.load(fh)
    if (c.get("case") or {}).get("kind") == "reader-differs-from-rules":      # a replay of harness/spec_tie.py
        import spec_tie
        return spec_tie.replay(ctx, path)
    return R.replay_rt(ctx, "C01", path)
