"""C05 — numbers set through the API are written without loss.

Obligations: coq/Properties/C05.v over coq/Model/Num.v (ValueNode.format and everything it calls,
CPython's %d/%e/%f/%g conversions and math.isclose in exact integer arithmetic).
Correspondence: ValueNode(token, type, padding) [+ _convert_to_int]; .value = v; .format()  versus the
extracted Num model, byte for byte (exception class when it raises), on generated
(token format x padding x new value) cases; values cross as (sign, mantissa, exponent), never decimal.
Also: fortran_float(token) vs the model's correctly rounded float(), and spec.read_number vs the model's reader.
Oracle (search): the text the real format() produced is re-read by spec.read_number (independent reader)
and compared with the value that was set: floats with math.isclose(rel_tol=1e-9), integers exactly and
spelled as integers, an unchanged value keeps its spelling, the number is followed by a blank when the
node had a blank after it, format() does not raise for a finite value.
"""
import json
import math
import os
import random
import re
import warnings
from fractions import Fraction

import vlib
import spec

REL_TOL = 1e-9


# ---------------------------------------------------------------------------- encoding
def hx(s):
    return s.encode("latin-1", "replace").hex()


def unhx(s):
    return bytes.fromhex(s).decode("latin-1")


def float_parts(x):
    """finite float -> (neg, m, e) with |x| = m * 2**e exactly"""
    neg = math.copysign(1.0, x) < 0
    m, e = math.frexp(abs(x))
    M = int(m * 2 ** 53)
    E = e - 53
    if M == 0:
        E = 0
    while M and M % 2 == 0:
        M //= 2
        E += 1
    return neg, M, E


def val_of(case):
    k, s = case["val"]
    return int(s) if k == "i" else float.fromhex(s)


def enc_val(case):
    k, s = case["val"]
    if k == "i":
        return "i:%d" % int(s)
    neg, M, E = float_parts(float.fromhex(s))
    return "f:%d:%d:%d" % (1 if neg else 0, M, E)


def request_of(case):
    t = case["tok"]
    tk = "n" if t is None else ("j" if t == "<J>" else "t:" + hx(t))
    p = case["pad"]
    if p is None:
        pd = "n"
    elif not p:
        pd = "-"
    else:
        pd = ",".join(k + hx(s) for k, s in p)
    return "%s %s %s %d %s" % (case["kind"], tk, pd, 1 if case.get("never_pad") else 0, enc_val(case))


# ---------------------------------------------------------------------------- the real code
def build_node(case):
    from montepy.input_parser.syntax_node import ValueNode, PaddingNode, CommentNode
    from montepy.input_parser.mcnp_input import Jump
    t = case["tok"]
    tok = None if t is None else (Jump() if t == "<J>" else t)
    pad = None
    if case["pad"] is not None:
        pad = PaddingNode()
        for k, s in case["pad"]:
            if k == "c":
                pad.append(CommentNode(s))
            else:
                pad._nodes.append(s)
    ty = int if case["kind"] == "i" else float
    n = ValueNode(tok, ty, pad, never_pad=bool(case.get("never_pad")))
    if case["kind"] == "c":
        n._convert_to_int()
    return n


def real_run(case):
    """-> ('ok', text, parsed_value) | ('err', ExceptionClassName, None)"""
    with warnings.catch_warnings():
        warnings.simplefilter("ignore")
        try:
            n = build_node(case)
        except Exception as e:
            return ("err", type(e).__name__, None, "ctor")
        og = n.value
        try:
            n.value = val_of(case)
            return ("ok", n.format(), og, "")
        except Exception as e:
            return ("err", type(e).__name__, og, "format")


def real_answer(r):
    return "ok:" + hx(r[1]) if r[0] == "ok" else "err:" + r[1]


# ---------------------------------------------------------------------------- generator
def tok_formats(rng):
    """(class name, token text) — the spelling of the token that is replaced"""
    mag = rng.choice([rng.uniform(0.1, 10), rng.uniform(0.001, 1000), float(rng.randint(1, 999)),
                      rng.uniform(1e-8, 1e-2), rng.uniform(1e3, 1e12), 10 ** rng.uniform(-30, 30)])
    p = rng.randint(0, 7)
    cls = rng.choice(["intlike", "fixed", "sci_e", "sci_E", "fortran", "plus", "minus", "lead0", "dot_end",
                      "dot_start", "exp_pad", "sci_int", "minus_sci", "jump", "none", "zero", "long_fixed",
                      "plus_sci"])
    if cls == "intlike":
        t = str(rng.choice([0, 1, 5, 12, 57, 100, 999, 123456, 10 ** 9, rng.randint(1, 10 ** 7)]))
    elif cls == "fixed":
        t = "%.*f" % (max(p, 1), mag)
    elif cls == "sci_e":
        t = "%.*e" % (p, mag)
        if rng.random() < 0.5:
            t = re.sub(r"e([+-])0*(\d)", lambda m: "e" + (m.group(1) if m.group(1) == "-" or rng.random() < 0.5 else "") + m.group(2), t)
    elif cls == "sci_E":
        t = "%.*E" % (p, mag)
    elif cls == "fortran":
        t = ("%.*e" % (max(p, 1), mag)).replace("e", "")
        if rng.random() < 0.5:
            t = re.sub(r"([+-])0(\d)$", r"\1\2", t)
    elif cls == "plus":
        t = "+" + rng.choice(["%.*f" % (p, mag), str(rng.randint(0, 500))])
    elif cls == "plus_sci":
        t = "+%.*e" % (p, mag)
    elif cls == "minus":
        t = "-" + rng.choice(["%.*f" % (p, mag), str(rng.randint(1, 500))])
    elif cls == "minus_sci":
        t = "-" + rng.choice(["%.*e" % (p, mag), ("%.*E" % (max(p, 1), mag)).replace("E", ""), "%de%d" % (rng.randint(1, 9), rng.randint(0, 12))])
    elif cls == "lead0":
        t = rng.choice(["0", "00", "-0", "+0"])[:rng.randint(1, 2)] + rng.choice(["%.*f" % (p, mag), str(rng.randint(0, 500)), "%.*e" % (p, mag)])
    elif cls == "dot_end":
        t = "%d." % int(mag % 1000)
        if rng.random() < 0.3:
            t += rng.choice(["e3", "E-2", "e+05"])
    elif cls == "dot_start":
        t = rng.choice([".5", ".25", ".125", ".001", ".5e3", ".25E-2", ".5+3", "-.5", "+.75"])
    elif cls == "exp_pad":
        t = "%.*e" % (p, mag)
        t = re.sub(r"e([+-])(\d+)$", lambda m: "e" + m.group(1) + m.group(2).zfill(rng.choice([2, 3, 4])), t)
    elif cls == "sci_int":
        t = "%d%s%d" % (rng.randint(1, 99), rng.choice(["e", "E", "e+", "e-", "+", "-", "e0", "E+0"]), rng.randint(0, 20))
    elif cls == "zero":
        t = rng.choice(["0", "0.0", "0.", "0.000", "0e0", "0.0e+00", "-0.0", "+0", "00"])
    elif cls == "long_fixed":
        t = "%.*f" % (rng.randint(9, 25), mag)
    elif cls == "jump":
        t = "<J>"
    else:
        t = None
    return cls, t


def int_token(rng):
    cls = rng.choice(["intlike", "intlike", "plus", "minus", "lead0", "zero", "big", "jump", "none"])
    n = rng.choice([rng.randint(0, 99), rng.randint(100, 99999), rng.randint(10 ** 5, 10 ** 8)])
    if cls == "intlike":
        t = str(n)
    elif cls == "plus":
        t = "+%d" % n
    elif cls == "minus":
        t = "-%d" % max(n, 1)
    elif cls == "lead0":
        t = rng.choice(["0", "00", "000", "-0", "+00"]) + str(n)
    elif cls == "zero":
        t = rng.choice(["0", "00", "-0", "+0"])
    elif cls == "big":
        t = str(rng.choice([10 ** 9, 2 * 10 ** 9 + 7, 10 ** 12, 2 ** 53, 2 ** 53 + 1, 10 ** 18 + 3, 123456789012]))
    elif cls == "jump":
        t = "<J>"
    else:
        t = None
    return cls, t


def conv_token(rng):
    if rng.random() < 0.7:
        return int_token(rng)
    n = rng.randint(0, 9999)
    return "float_spelled_int", rng.choice(["%d.0", "%d.00", "-%d.0", "+%d.000", "0%d.0"]) % n


def gen_pad(rng):
    r = rng.random()
    if r < 0.12:
        return None
    if r < 0.45:
        return [["s", " "]]
    if r < 0.6:
        return [["s", " " * rng.randint(2, 9)]]
    if r < 0.68:
        return [["s", " "], ["s", "\n"]]
    if r < 0.73:
        return [["s", "\n"]]
    if r < 0.8:
        return [["s", " " * rng.randint(1, 3)], ["c", rng.choice(["$ comment", "$x", "$ 1 2 3"])], ["s", "\n"]]
    if r < 0.84:
        return [["c", "$ tight"], ["s", "\n"]]
    if r < 0.88:
        return [["s", " "], ["s", "     "]]
    if r < 0.91:
        return [["s", "\t"]]
    if r < 0.94:
        return []
    if r < 0.97:
        return [["s", "  "], ["s", "\n"], ["s", "     "]]
    return [["s", "\n"], ["c", "c a comment line"], ["s", "\n"], ["s", "     "]]


def parse_tok_float(t):
    if t is None or t == "<J>":
        return None
    f = spec.read_number(t)
    if f is None:
        return None
    try:
        return float(f)
    except OverflowError:
        return None


def gen_value(rng, og, kind):
    """(class name, python value)"""
    if kind in ("i", "c"):
        cls = rng.choice(["same", "int_small", "int_small", "int_neg", "int_big", "int_near", "zero", "int_digits",
                          "float_on_int"])
        ogi = int(og) if og is not None else rng.randint(1, 1000)
        if cls == "same":
            v = ogi
        elif cls == "int_small":
            v = rng.randint(1, 99999)
        elif cls == "int_neg":
            v = -rng.randint(1, 99999)
        elif cls == "int_big":
            v = rng.choice([10 ** 9 + 1, 2 ** 53 + 1, 10 ** 15 + 7, 99999999, 10 ** 8, rng.randint(10 ** 8, 10 ** 13)])
        elif cls == "int_near":
            v = ogi + rng.choice([-2, -1, 1, 2, 10])
        elif cls == "zero":
            v = 0
        elif cls == "int_digits":
            v = rng.randint(0, 10 ** rng.randint(1, 12))
        else:
            v = rng.choice([2.0, 2.7, -3.5, float(ogi) + 0.25, 1e3])
        return cls, v
    base = og if og not in (None, 0.0) else rng.uniform(0.5, 50)
    cls = rng.choice(["same", "more_digits", "more_digits", "fewer_digits", "magnitude", "magnitude", "tiny_huge",
                      "negated", "zero", "neg_zero", "integral", "ulp_int", "near_same", "int_value", "subnormal",
                      "near_int", "neg_more_digits", "half_way", "scaled"])
    if cls == "same":
        v = og if og is not None else 1.0
    elif cls == "more_digits":
        v = base * rng.uniform(0.1, 10)
    elif cls == "neg_more_digits":
        v = -abs(base) * rng.uniform(0.1, 10)
    elif cls == "fewer_digits":
        v = rng.choice([2.5, 0.125, 3.0, 0.5, 1e3, 2.5e-3, 7.25, 100.0, 1e-5, 4.0e7])
    elif cls == "magnitude":
        v = base * 10.0 ** rng.randint(-12, 12)
    elif cls == "tiny_huge":
        v = rng.choice([1e-300, 1e300, 3.3e-250, 7.77e250, 1.7976931348623157e308, 2.2250738585072014e-308,
                        10.0 ** rng.randint(-300, 300) * rng.uniform(1, 10)])
    elif cls == "subnormal":
        v = rng.choice([5e-324, 1e-320, 2.2250738585072009e-308, 1.5e-310, rng.randint(1, 2 ** 52) * 5e-324])
    elif cls == "negated":
        v = -base
    elif cls == "zero":
        v = 0.0
    elif cls == "neg_zero":
        v = -0.0
    elif cls == "integral":
        v = rng.choice([7.0, 1e22, float(2 ** 60), 123456.0, 1234567.0, 1e5, 99999.0, 1e6, -3.0, float(rng.randint(1, 10 ** 9)), 1e16, 2.0 ** 53])
    elif cls == "ulp_int":
        n = float(rng.choice([1, 2, 58, 100, 1000, 99999, 10 ** 6, rng.randint(1, 10 ** 7)]))
        v = math.nextafter(n, rng.choice([0.0, math.inf]))
        if rng.random() < 0.3:
            v = -v
    elif cls == "near_int":
        n = float(rng.randint(1, 10 ** 6))
        v = n * (1 + rng.choice([-1, 1]) * 10.0 ** rng.uniform(-12, -7))
    elif cls == "near_same":
        v = base * (1 + rng.choice([-1, 1]) * 10.0 ** rng.uniform(-11, -7.5))
        if rng.random() < 0.3:
            v = math.nextafter(base, rng.choice([0.0, math.inf]))
    elif cls == "int_value":
        v = rng.choice([0, 1, 3, -4, 10, 12345, 10 ** 6, 10 ** 15, 2 ** 53 + 1, 10 ** 400])
    elif cls == "half_way":
        v = rng.choice([0.5, 1.5, 2.5, 0.25, 0.125, 2.675, 1.005, 0.045, 1e-5 * 2.5, 12345.5, 999999.5, 9.9999995, 99999.5, 0.99999949999])
    else:
        v = base * rng.choice([0.5, 2.0, 1.1, 0.9, 1.0 + 1e-6, 3.0])
    return cls, v


def gen_case(rng):
    kind = rng.choice(["f", "f", "f", "f", "i", "c"])
    if kind == "f":
        tcls, tok = tok_formats(rng)
    elif kind == "i":
        tcls, tok = int_token(rng)
    else:
        tcls, tok = conv_token(rng)
    og = parse_tok_float(tok)
    vcls, v = gen_value(rng, og, kind)
    case = {"kind": kind, "tok": tok, "pad": gen_pad(rng), "never_pad": rng.random() < 0.05,
            "val": ["i", str(v)] if isinstance(v, int) else ["f", float(v).hex()],
            "tcls": tcls, "vcls": vcls}
    return case


# ---------------------------------------------------------------------------- oracle
NUM_RE = re.compile(r"[^\s$&]+")


def number_text(out):
    """the first blank-delimited word of the written text and the index just after it"""
    m = NUM_RE.search(out)
    if not m:
        return None, 0
    return m.group(0), m.end()


def check_case(case, r=None):
    """The property's sentences on the real code.  -> None or a failure dict."""
    r = r or real_run(case)
    v = val_of(case)
    if r[0] == "err":
        if r[3] == "ctor":
            return None                     # not a token MontePy reads: outside the property
        if isinstance(v, int) and abs(v) >= 2 ** 1023:
            return None                     # no finite double: outside 'every finite new value'
        return {"kind": "exception", "exc": r[1]}
    out, og = r[1], r[2]
    is_int_node = case["kind"] in ("i", "c")
    if is_int_node and not isinstance(v, int):
        return None                         # a float given to an integer node: not in the property's domain
    txt, end = number_text(out)
    if txt is None:
        return {"kind": "no-number-written", "out": out}
    pad_text = "".join(s for _, s in (case["pad"] or []))
    # an unchanged value keeps its original spelling
    if og is not None and type(og) == type(v) and og == v and case["tok"] not in (None, "<J>"):
        if out != case["tok"] + pad_text:
            return {"kind": "unchanged-respelled", "out": out}
        return None
    got = spec.read_number(txt)
    if got is None:
        return {"kind": "unreadable", "out": out, "text": txt}
    if is_int_node:
        if not re.fullmatch(r"[+-]?\d+", txt) or got != v:
            return {"kind": "int-not-exact", "out": out, "text": txt}
    else:
        try:
            gf = float(got)
        except OverflowError:
            return {"kind": "not-close", "out": out, "text": txt}
        if not math.isclose(gf, float(v), rel_tol=REL_TOL, abs_tol=0.0):
            return {"kind": "not-close", "out": out, "text": txt}
    # no fusion: a node that had a blank after it still ends its number with a blank / newline
    p = case["pad"]
    had_blank = (p and p[0][0] == "s" and p[0][1].strip() == "" and p[0][1] != "\n") or \
                (p is None and case["tok"] in (None, "<J>") and not case.get("never_pad"))
    if had_blank and not (end < len(out) and out[end] in " \t\n"):
        return {"kind": "fused", "out": out}
    return None


def shrink(case, failing):
    cur = dict(case)
    for cand_pad in (None, [["s", " "]]):
        c = dict(cur, pad=cand_pad, never_pad=False)
        if failing(c):
            cur = c
            break
    if cur["val"][0] == "f":
        x = float.fromhex(cur["val"][1])
        for k in range(1, 17):
            y = float("%.*g" % (k, x))
            c = dict(cur, val=["f", y.hex()])
            if failing(c):
                cur = c
                break
    return cur


def branch_of(case, r):
    if r[0] == "err":
        return "raises:" + r[1]
    if case["tok"] is not None and case["tok"] != "<J>" and r[1].startswith(case["tok"]) and r[2] is not None:
        try:
            if math.isclose(float(val_of(case)), float(r[2]), rel_tol=REL_TOL, abs_tol=0.0):
                return "unchanged"
        except OverflowError:
            pass
    t, _ = number_text(r[1])
    t = t or ""
    if re.fullmatch(r"[+-]?\d+", t):
        return "integer-text"
    if re.search(r"\d[eE]?[+-]\d+$", t) or re.search(r"[eE]\d+$", t):
        return "scientific-text"
    return "fixed-text"


def load_json_case(path):
    with open(path) as fh:
        c = json.load(fh)
    return c.get("case", c)


def replay(ctx, path):
    c = load_json_case(path)
    bad = check_case(c) is not None
    if not bad:
        ok, _ = vlib.coq_make(["Model/Num.vo"])
        ans = vlib.model_ask("Num", [request_of(c)])[0]
        bad = ans != real_answer(real_run(c)) and ans != "unmodelled"
    if bad:
        print("REPLAY property=C05 still fails")
        print(f"VIOLATION property=C05 replay={path}")
        return 1
    print("REPLAY property=C05 passes")
    return 0


def run(ctx):
    n_cases = 4000 if ctx.tier == "quick" else 400000
    ctx.prove()
    ok, log = vlib.coq_make(["Model/Num.vo"])
    if not ok:
        ctx.broken_obligations.append({"obligation": "Model/Num.vo builds", "detail": log[-800:]})
        return ctx.finish(vlib.KERNEL_TB, [], "model did not build")
    # ---- cases: corpus first, then the known findings' witnesses, then generated
    cases = []
    cdir = os.path.join(vlib.VERIF, "corpus", "C05")
    if os.path.isdir(cdir):
        for f in sorted(os.listdir(cdir)):
            c = load_json_case(os.path.join(cdir, f))
            c["_corpus"] = f
            cases.append(c)
    n_corpus = len(cases)
    for i in range(n_cases):
        cases.append(gen_case(random.Random(f"{ctx.seed}:C05:{i}")))
    reqs = [request_of(c) for c in cases]
    answers = vlib.model_ask("Num", reqs)
    nx, bad = vlib.vm_crosscheck("Num", reqs, answers, sample=40 if ctx.tier == "quick" else 400, seed=ctx.seed)
    if bad:
        ctx.broken_obligations.append({"obligation": "extraction cross-check Num", "detail": bad[:2]})
    dist = {"kind": {}, "token_class": {}, "value_class": {}, "branch": {}, "padding": {}, "model_unmodelled": 0,
            "oracle_failures": {}, "corpus": n_corpus}
    corr_bad = []
    n_fail = 0
    for c, ans in zip(cases, answers):
        ctx.cov["programs"] += 1
        r = real_run(c)
        ra = real_answer(r)
        br = branch_of(c, r)
        for key, val in (("kind", c["kind"]), ("token_class", c.get("tcls", "corpus")),
                         ("value_class", c.get("vcls", "corpus")), ("branch", br),
                         ("padding", "none" if c["pad"] is None else ("empty" if not c["pad"] else
                                     "+".join(k for k, _ in c["pad"])))):
            dist[key][val] = dist[key].get(val, 0) + 1
        ctx.count_case((c["kind"], c["tok"], str(c["pad"]), c["val"]), nontrivial=(br != "unchanged"))
        ctx.cov["disagreements_checked"] += 1
        if ans == "unmodelled":
            dist["model_unmodelled"] += 1
        elif ans != ra:
            corr_bad.append({"case": c, "real": ra if r[0] == "err" else r[1],
                             "model": unhx(ans[3:]) if ans.startswith("ok:") else ans})
        # oracle
        f = check_case(c, r)
        if f is not None:
            n_fail += 1
            dist["oracle_failures"][f["kind"]] = dist["oracle_failures"].get(f["kind"], 0) + 1
            small = shrink(c, lambda cc: (check_case(cc) or {}).get("kind") == f["kind"])
            f2 = check_case(small) or f
            ctx.fail({"kind": f2["kind"], "case": small, "detail": f2})
            if len(ctx.violations) >= 5:
                break
        if len(ctx.cov["samples"]) < 6 and br != "unchanged" and r[0] == "ok":
            ctx.sample({"kind": c["kind"], "token": c["tok"], "padding": c["pad"], "value": repr(val_of(c)),
                        "written": r[1], "model": ans})
    if corr_bad:
        ctx.broken_obligations.append({"obligation": "correspondence Num.render vs ValueNode.format",
                                       "detail": {"n": len(corr_bad), "first": corr_bad[0]}})
    # ---- float() and the reader: model vs fortran_float / spec.read_number on the tokens and outputs
    aux_reqs, aux_exp = [], []
    from montepy.utilities import fortran_float
    seen = set()
    for c in cases:
        t = c["tok"]
        if t in (None, "<J>") or t in seen:
            continue
        seen.add(t)
        try:
            x = fortran_float(t)
            if math.isinf(x):
                e = "unmodelled"
            else:
                neg, M, E = float_parts(x)
                e = ("%d %d %d" % (1 if neg else 0, M, E))
        except ValueError:
            e = "err:ValueError"
        aux_reqs.append("float " + hx(t))
        aux_exp.append(("float", e))
        f = spec.read_number(t)
        aux_reqs.append("read " + hx(t))
        aux_exp.append(("read", f))
    aux_ans = vlib.model_ask("Num", aux_reqs)
    aux_bad = []
    for q, a, (k, e) in zip(aux_reqs, aux_ans, aux_exp):
        ctx.cov["disagreements_checked"] += 1
        if k == "float":
            if e == "unmodelled" or a == "unmodelled":
                okk = (a == e)
            elif a.startswith("err") or e.startswith("err"):
                okk = (a == e)
            else:
                ng, M, E = a.split()
                e1 = e.split()
                okk = ng == e1[0] and Fraction(int(M)) * Fraction(2) ** int(E) == Fraction(int(e1[1])) * Fraction(2) ** int(e1[2])
        else:
            if a == "none" or e is None:
                okk = (a == "none") == (e is None)
            else:
                ng, M, K = a.split()
                val = Fraction(int(M)) * Fraction(10) ** int(K)
                okk = (-val if ng == "1" else val) == e
        if not okk:
            aux_bad.append({"request": q, "token": unhx(q.split()[1]), "model": a, "real": str(e)})
    dist["aux_float_read_checks"] = len(aux_reqs)
    if aux_bad:
        ctx.broken_obligations.append({"obligation": "Num.fortran_float / Num.read_number vs fortran_float / spec.read_number",
                                       "detail": {"n": len(aux_bad), "first": aux_bad[0]}})
    # ---- known findings: replay the committed witnesses
    for fd in ctx.findings:
        if fd.get("status") == "open" and fd.get("replay"):
            try:
                c = load_json_case(os.path.join(vlib.VERIF, fd["replay"]))
                f = check_case(c)
                fd["_reproduced"] = f is not None and f["kind"] == fd.get("failure_kind", f["kind"])
            except Exception:
                fd["_reproduced"] = False
    tb = vlib.KERNEL_TB + [
        "modelled, not verified: ValueNode.__init__/_convert_to_int/value setter/_reverse_engineer_formatting/"
        "_reverse_engineer_float/_can_float_to_int_happen/_value_changed/format, PaddingNode.is_space, fortran_float, "
        "and CPython 3.12 float(str), int(str), int(float), round(float), float(int), math.isclose, str.format "
        "d/e/f/g with fill '0' align '=' as coq/Model/Num.v; NOT modelled: non-finite floats, negatable nodes, "
        "enum/str nodes, LineExpansionWarning",
        "spec.read_number (independent reader, harness/spec.py) is the oracle's reading of the written text; "
        "it is compared with Num.read_number on every token",
        f"vm_compute cross-check of {nx} requests",
    ]
    assumptions = [
        "closeness is math.isclose(float(read text), value, rel_tol=1e-9, abs_tol=0): the text is read to the "
        "nearest double, as MCNP stores it",
        "a float value given to an integer node, an int beyond the double range and a token MontePy cannot read "
        "are outside the property's domain (counted, not judged)",
    ]
    return ctx.finish(tb, assumptions,
                      "cases = generated (token spelling class x padding shape x new-value class) triples; distinct = "
                      "distinct (kind, token, padding, value); non-trivial = the value differs from the token's value "
                      "(format() does not take the unchanged short cut)",
                      extra={"input_distribution": dist, "oracle_failing_cases": n_fail})
