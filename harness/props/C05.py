"""C05 — numbers set through the API are written without loss.

Obligations: coq/Properties/C05.v over coq/Model/Num.v (ValueNode.format and everything it calls: the
precision loop with _reads_back_as / _format_float and the ".17g" fall-back, int(round()), exact integer
comparison; CPython's %d/%e/%f/%g conversions, float(str), round() and math.isclose in exact integer
arithmetic).
Correspondence: ValueNode(token, type, padding) [+ _convert_to_int / is_negatable_float /
is_negatable_identifier]; .value = v; .format()  versus the extracted Num model, byte for byte (exception
class when it raises), on generated (token format x padding x new value) cases; values cross as
(sign, mantissa, exponent), never as decimal text.  Also: fortran_float(token) vs the model's correctly
rounded float(), spec.read_number vs the model's reader, math.isclose vs the model's isclose on pairs at the
tolerance boundary, round() vs the model's round, _value_changed vs the model's.
Oracle (search): the text the real format() produced is re-read by spec.read_number (independent reader)
and compared with the value that was set: floats with math.isclose(rel_tol=1e-9), integers exactly and
spelled as integers, an unchanged value keeps its spelling, the number is followed by a blank when the
node had a blank after it, format() does not raise for a finite value.
Carriers: real problems (surface constants, densities, material fractions, transform vectors, importances,
volumes; cell parameters and data-block cards; objects made from scratch: a new cell, a transform given more
rotation entries than its line had, a volume for a cell whose entry was a jump) edited through the public
API, written with write_to_file and re-read by spec.py: every value that was set is found at its place
within the tolerance, every value that was not set keeps its spelling.
"""
import json
import math
import os
import random
import re
import warnings
from fractions import Fraction

import vlib
import spec

REL_TOL = 1e-9


# ---------------------------------------------------------------------------- encoding
def hx(s):
    return s.encode("latin-1", "replace").hex()


def unhx(s):
    return bytes.fromhex(s).decode("latin-1")


def float_parts(x):
    """finite float -> (neg, m, e) with |x| = m * 2**e exactly"""
    neg = math.copysign(1.0, x) < 0
    m, e = math.frexp(abs(x))
    M = int(m * 2 ** 53)
    E = e - 53
    if M == 0:
        E = 0
    while M and M % 2 == 0:
        M //= 2
        E += 1
    return neg, M, E


def enc_float(x):
    neg, M, E = float_parts(x)
    return "f:%d:%d:%d" % (1 if neg else 0, M, E)


def val_of(case):
    k, s = case["val"]
    return int(s) if k == "i" else float.fromhex(s)


def enc_val(case):
    k, s = case["val"]
    if k == "i":
        return "i:%d" % int(s)
    return enc_float(float.fromhex(s))


def enc_tok(t):
    return "n" if t is None else ("j" if t == "<J>" else "t:" + hx(t))


def request_of(case):
    p = case["pad"]
    if p is None:
        pd = "n"
    elif not p:
        pd = "-"
    else:
        pd = ",".join(k + hx(s) for k, s in p)
    return "%s %s %s %d %s" % (case["kind"], enc_tok(case["tok"]), pd, 1 if case.get("never_pad") else 0,
                               enc_val(case))


# ---------------------------------------------------------------------------- the real code
def build_node(case):
    from montepy.input_parser.syntax_node import ValueNode, PaddingNode, CommentNode
    from montepy.input_parser.mcnp_input import Jump
    t = case["tok"]
    tok = None if t is None else (Jump() if t == "<J>" else t)
    pad = None
    if case["pad"] is not None:
        pad = PaddingNode()
        for k, s in case["pad"]:
            if k == "c":
                pad.append(CommentNode(s))
            else:
                pad._nodes.append(s)
    neg = bool(case.get("negatable"))
    ty = int if case["kind"] == "i" else float
    n = ValueNode(tok, ty, pad, never_pad=bool(case.get("never_pad")))
    if case["kind"] == "f":
        if neg:
            n.is_negatable_float = True          # cell density, material fraction
    elif neg:
        n.is_negatable_identifier = True         # transform / periodic surface pointer (converts to int)
    elif case["kind"] == "c":
        n._convert_to_int()
    return n


def set_value(n, case):
    v = val_of(case)
    if case.get("negatable"):
        # a negatable node holds the magnitude and the sign separately
        if isinstance(v, int):
            n.value = abs(v)
            n.is_negative = v < 0
        else:
            n.value = abs(v)
            n.is_negative = math.copysign(1.0, v) < 0
    else:
        n.value = v


def real_run(case):
    """-> ('ok', text, parsed_value, '') | ('err', ExceptionClassName, parsed_value, where)"""
    with warnings.catch_warnings():
        warnings.simplefilter("ignore")
        try:
            n = build_node(case)
        except Exception as e:
            return ("err", type(e).__name__, None, "ctor")
        og = n._og_value
        try:
            set_value(n, case)
            return ("ok", n.format(), og, "")
        except Exception as e:
            return ("err", type(e).__name__, og, "format")


def real_answer(r):
    return "ok:" + hx(r[1]) if r[0] == "ok" else "err:" + r[1]


# ---------------------------------------------------------------------------- generator
def tok_formats(rng):
    """(class name, token text) — the spelling of the token that is replaced"""
    mag = rng.choice([rng.uniform(0.1, 10), rng.uniform(0.001, 1000), float(rng.randint(1, 999)),
                      rng.uniform(1e-8, 1e-2), rng.uniform(1e3, 1e12), 10 ** rng.uniform(-30, 30)])
    p = rng.randint(0, 7)
    cls = rng.choice(["intlike", "intlike", "fixed", "fixed", "sci_e", "sci_E", "fortran", "plus", "minus", "lead0",
                      "dot_end", "dot_start", "exp_pad", "sci_int", "minus_sci", "jump", "none", "zero",
                      "long_fixed", "plus_sci"])
    if cls == "intlike":
        t = str(rng.choice([0, 1, 5, 12, 57, 100, 999, 123456, 10 ** 9, rng.randint(1, 10 ** 7)]))
    elif cls == "fixed":
        t = "%.*f" % (max(p, 1), mag)
    elif cls == "sci_e":
        t = "%.*e" % (p, mag)
        if rng.random() < 0.5:
            t = re.sub(r"e([+-])0*(\d)", lambda m: "e" + (m.group(1) if m.group(1) == "-" or rng.random() < 0.5 else "") + m.group(2), t)
    elif cls == "sci_E":
        t = "%.*E" % (p, mag)
    elif cls == "fortran":
        t = ("%.*e" % (max(p, 1), mag)).replace("e", "")
        if rng.random() < 0.5:
            t = re.sub(r"([+-])0(\d)$", r"\1\2", t)
    elif cls == "plus":
        t = "+" + rng.choice(["%.*f" % (p, mag), str(rng.randint(0, 500))])
    elif cls == "plus_sci":
        t = "+%.*e" % (p, mag)
    elif cls == "minus":
        t = "-" + rng.choice(["%.*f" % (p, mag), str(rng.randint(1, 500))])
    elif cls == "minus_sci":
        t = "-" + rng.choice(["%.*e" % (p, mag), ("%.*E" % (max(p, 1), mag)).replace("E", ""), "%de%d" % (rng.randint(1, 9), rng.randint(0, 12))])
    elif cls == "lead0":
        t = rng.choice(["0", "00", "-0", "+0"])[:rng.randint(1, 2)] + rng.choice(["%.*f" % (p, mag), str(rng.randint(0, 500)), "%.*e" % (p, mag)])
    elif cls == "dot_end":
        t = "%d." % int(mag % 1000)
        if rng.random() < 0.3:
            t += rng.choice(["e3", "E-2", "e+05", "+3", "-2", "+05"])
    elif cls == "dot_start":
        t = rng.choice([".5", ".25", ".125", ".001", ".5e3", ".25E-2", ".5+3", "-.5", "+.75"])
    elif cls == "exp_pad":
        t = "%.*e" % (p, mag)
        t = re.sub(r"e([+-])(\d+)$", lambda m: "e" + m.group(1) + m.group(2).zfill(rng.choice([2, 3, 4])), t)
    elif cls == "sci_int":
        t = "%d%s%d" % (rng.randint(1, 99), rng.choice(["e", "E", "e+", "e-", "+", "-", "e0", "E+0"]), rng.randint(0, 20))
    elif cls == "zero":
        t = rng.choice(["0", "0.0", "0.", "0.000", "0e0", "0.0e+00", "-0.0", "+0", "00"])
    elif cls == "long_fixed":
        t = "%.*f" % (rng.randint(9, 25), mag)
    elif cls == "jump":
        t = "<J>"
    else:
        t = None
    return cls, t


def int_token(rng):
    cls = rng.choice(["intlike", "intlike", "plus", "minus", "lead0", "zero", "big", "jump", "none"])
    n = rng.choice([rng.randint(0, 99), rng.randint(100, 99999), rng.randint(10 ** 5, 10 ** 8)])
    if cls == "intlike":
        t = str(n)
    elif cls == "plus":
        t = "+%d" % n
    elif cls == "minus":
        t = "-%d" % max(n, 1)
    elif cls == "lead0":
        t = rng.choice(["0", "00", "000", "-0", "+00"]) + str(n)
    elif cls == "zero":
        t = rng.choice(["0", "00", "-0", "+0"])
    elif cls == "big":
        t = str(rng.choice([10 ** 9, 2 * 10 ** 9 + 7, 10 ** 12, 2 ** 53, 2 ** 53 + 1, 10 ** 18 + 3, 123456789012]))
    elif cls == "jump":
        t = "<J>"
    else:
        t = None
    return cls, t


def conv_token(rng):
    if rng.random() < 0.7:
        return int_token(rng)
    n = rng.randint(0, 9999)
    return "float_spelled_int", rng.choice(["%d.0", "%d.00", "-%d.0", "+%d.000", "0%d.0"]) % n


def gen_pad(rng):
    r = rng.random()
    if r < 0.12:
        return None
    if r < 0.45:
        return [["s", " "]]
    if r < 0.6:
        return [["s", " " * rng.randint(2, 9)]]
    if r < 0.68:
        return [["s", " "], ["s", "\n"]]
    if r < 0.73:
        return [["s", "\n"]]
    if r < 0.8:
        return [["s", " " * rng.randint(1, 3)], ["c", rng.choice(["$ comment", "$x", "$ 1 2 3"])], ["s", "\n"]]
    if r < 0.84:
        return [["c", "$ tight"], ["s", "\n"]]
    if r < 0.88:
        return [["s", " "], ["s", "     "]]
    if r < 0.91:
        return [["s", "\t"]]
    if r < 0.94:
        return []
    if r < 0.97:
        return [["s", "  "], ["s", "\n"], ["s", "     "]]
    return [["s", "\n"], ["c", "c a comment line"], ["s", "\n"], ["s", "     "]]


def parse_tok_float(t):
    if t is None or t == "<J>":
        return None
    f = spec.read_number(t)
    if f is None:
        return None
    try:
        return float(f)
    except OverflowError:
        return None


def parse_tok_int(t):
    if t is None or t == "<J>":
        return None
    m = re.fullmatch(r"([+-]?\d+)(\.0*)?", t)
    return int(m.group(1)) if m else None


def gen_value(rng, og, kind, tok=None):
    """(class name, python value)"""
    if kind in ("i", "c"):
        cls = rng.choice(["same", "int_small", "int_small", "int_neg", "int_big", "int_near", "zero", "int_digits",
                          "float_on_int", "float_of_token"])
        ti = parse_tok_int(tok)
        ogi = ti if ti is not None else (int(og) if og is not None else rng.randint(1, 1000))
        if cls == "same":
            v = ogi
        elif cls == "float_of_token":
            v = int(og) if og is not None else ogi       # the integer Python's float(token) denotes
        elif cls == "int_small":
            v = rng.randint(1, 99999)
        elif cls == "int_neg":
            v = -rng.randint(1, 99999)
        elif cls == "int_big":
            v = rng.choice([10 ** 9 + 1, 2 ** 53 + 1, 10 ** 15 + 7, 99999999, 10 ** 8, rng.randint(10 ** 8, 10 ** 13)])
        elif cls == "int_near":
            v = ogi + rng.choice([-2, -1, 1, 2, 10])
        elif cls == "zero":
            v = 0
        elif cls == "int_digits":
            v = rng.randint(0, 10 ** rng.randint(1, 12))
        else:
            v = rng.choice([2.0, 2.7, -3.5, float(ogi) + 0.25, 1e3])
        return cls, v
    base = og if og not in (None, 0.0) else rng.uniform(0.5, 50)
    cls = rng.choice(["same", "more_digits", "more_digits", "fewer_digits", "magnitude", "magnitude", "tiny_huge",
                      "negated", "zero", "neg_zero", "integral", "ulp_int", "near_same", "int_value", "subnormal",
                      "near_int", "neg_more_digits", "half_way", "scaled", "int_abs_off", "tol_edge", "full_digits",
                      "tiny_on_fixed", "near_int_edge"])
    if cls == "same":
        v = og if og is not None else 1.0
    elif cls == "more_digits":
        v = base * rng.uniform(0.1, 10)
    elif cls == "neg_more_digits":
        v = -abs(base) * rng.uniform(0.1, 10)
    elif cls == "fewer_digits":
        v = rng.choice([2.5, 0.125, 3.0, 0.5, 1e3, 2.5e-3, 7.25, 100.0, 1e-5, 4.0e7])
    elif cls == "magnitude":
        v = base * 10.0 ** rng.randint(-12, 12)
    elif cls == "tiny_huge":
        v = rng.choice([1e-300, 1e300, 3.3e-250, 7.77e250, 1.7976931348623157e308, 2.2250738585072014e-308,
                        10.0 ** rng.randint(-300, 300) * rng.uniform(1, 10)])
    elif cls == "subnormal":
        v = rng.choice([5e-324, 1e-320, 2.2250738585072009e-308, 1.5e-310, rng.randint(1, 2 ** 52) * 5e-324])
    elif cls == "negated":
        v = -base
    elif cls == "zero":
        v = 0.0
    elif cls == "neg_zero":
        v = -0.0
    elif cls == "integral":
        v = rng.choice([7.0, 1e22, float(2 ** 60), 123456.0, 1234567.0, 1e5, 99999.0, 1e6, -3.0, float(rng.randint(1, 10 ** 9)), 1e16, 2.0 ** 53])
    elif cls == "ulp_int":
        n = float(rng.choice([1, 2, 58, 100, 1000, 99999, 10 ** 6, rng.randint(1, 10 ** 7)]))
        v = math.nextafter(n, rng.choice([0.0, math.inf]))
        if rng.random() < 0.3:
            v = -v
    elif cls == "near_int":
        n = float(rng.randint(1, 10 ** 6))
        v = n * (1 + rng.choice([-1, 1]) * 10.0 ** rng.uniform(-12, -7))
    elif cls == "near_int_edge":
        # an integer-looking value just inside / just outside the relative tolerance
        n = float(rng.choice([1, 2, 5, 58, 1000, rng.randint(1, 10 ** 6)]))
        v = n * (1 + rng.choice([-1, 1]) * 1e-9 * rng.choice([0.5, 0.9, 0.999, 1.001, 1.1, 2.0, 10.0]))
    elif cls == "int_abs_off":
        # a small integer plus an absolute offset between 1e-9 and 1e-4: far outside the relative tolerance
        n = float(rng.choice([0, 1, 2, 5, 12, 57, 100, rng.randint(1, 2000)]))
        v = n + rng.choice([-1, 1]) * 10.0 ** rng.uniform(-9, -4)
    elif cls == "near_same":
        v = base * (1 + rng.choice([-1, 1]) * 10.0 ** rng.uniform(-11, -7.5))
        if rng.random() < 0.3:
            v = math.nextafter(base, rng.choice([0.0, math.inf]))
    elif cls == "tol_edge":
        # the old value moved by almost exactly the tolerance
        v = base * (1 + rng.choice([-1, 1]) * 1e-9 * rng.choice([0.99, 0.999999, 1.0, 1.000001, 1.01]))
    elif cls == "full_digits":
        v = rng.choice([0.1 + 0.2, 1 / 3, 2 / 3, math.pi, math.e * 1e-5, 1e23, 9007199254740993.0,
                        rng.random(), rng.random() * 10.0 ** rng.randint(-20, 20), 0.8358073613682703])
    elif cls == "tiny_on_fixed":
        v = rng.choice([1.234e-12, 1.23456789e-13, 5e-18, -3.3e-15, 1.7e-9, rng.random() * 1e-14])
    elif cls == "int_value":
        v = rng.choice([0, 1, 3, -4, 10, 12345, 10 ** 6, 10 ** 15, 2 ** 53 + 1, 10 ** 400])
    elif cls == "half_way":
        v = rng.choice([0.5, 1.5, 2.5, 0.25, 0.125, 2.675, 1.005, 0.045, 1e-5 * 2.5, 12345.5, 999999.5, 9.9999995, 99999.5, 0.99999949999])
    else:
        v = base * rng.choice([0.5, 2.0, 1.1, 0.9, 1.0 + 1e-6, 3.0])
    return cls, v


def gen_case(rng):
    kind = rng.choice(["f", "f", "f", "f", "i", "c"])
    if kind == "f":
        tcls, tok = tok_formats(rng)
    elif kind == "i":
        tcls, tok = int_token(rng)
    else:
        tcls, tok = conv_token(rng)
    og = parse_tok_float(tok)
    vcls, v = gen_value(rng, og, kind, tok)
    case = {"kind": kind, "tok": tok, "pad": gen_pad(rng), "never_pad": rng.random() < 0.05,
            "val": ["i", str(v)] if isinstance(v, int) else ["f", float(v).hex()],
            "tcls": tcls, "vcls": vcls}
    if rng.random() < 0.15 and not (kind in ("i", "c") and not isinstance(v, int)):
        case["negatable"] = True
    return case


# ---------------------------------------------------------------------------- oracle
NUM_RE = re.compile(r"[^\s$&]+")


def number_text(out):
    """the first blank-delimited word of the written text and the index just after it"""
    m = NUM_RE.search(out)
    if not m:
        return None, 0
    return m.group(0), m.end()


def close_to(got, v):
    """got: Fraction read from the text; v: the python value that was set"""
    try:
        gf = float(got)
    except OverflowError:
        return False
    return math.isclose(gf, float(v), rel_tol=REL_TOL, abs_tol=0.0)


def check_case(case, r=None):
    """The property's sentences on the real code.  -> None or a failure dict."""
    r = r or real_run(case)
    v = val_of(case)
    if r[0] == "err":
        if r[3] == "ctor":
            return None                     # not a token MontePy reads: outside the property
        if isinstance(v, int) and abs(v) >= 2 ** 1023:
            return None                     # no finite double: outside 'every finite new value'
        return {"kind": "exception", "exc": r[1]}
    out, og = r[1], r[2]
    is_int_node = case["kind"] in ("i", "c")
    if is_int_node and not isinstance(v, int):
        return None                         # a float given to an integer node: not in the property's domain
    txt, end = number_text(out)
    if txt is None:
        return {"kind": "no-number-written", "out": out}
    pad_text = "".join(s for _, s in (case["pad"] or []))
    # an unchanged value keeps its original spelling
    tok_int = parse_tok_int(case["tok"])
    same = (is_int_node and tok_int is not None and tok_int == v) or \
           (not is_int_node and og is not None and type(og) == type(v) and og == v)
    if same and case["tok"] not in (None, "<J>"):
        # the number keeps its spelling (the blanks after it are layout, not part of the number)
        if txt != case["tok"]:
            return {"kind": "unchanged-respelled", "out": out}
        return None
    got = spec.read_number(txt)
    if got is None:
        return {"kind": "unreadable", "out": out, "text": txt}
    if is_int_node:
        if not re.fullmatch(r"[+-]?\d+", txt) or got != v:
            return {"kind": "int-not-exact", "out": out, "text": txt}
    elif not close_to(got, v):
        return {"kind": "not-close", "out": out, "text": txt}
    # no fusion: a node that had a blank after it still ends its number with a blank / newline
    p = case["pad"]
    had_blank = (p and p[0][0] == "s" and p[0][1].strip() == "" and p[0][1] not in ("", "\n")) or \
                (p is None and case["tok"] in (None, "<J>") and not case.get("never_pad"))
    if had_blank and not (end < len(out) and out[end] in " \t\n"):
        return {"kind": "fused", "out": out}
    return None


def shrink(case, failing):
    cur = dict(case)
    for drop in ("negatable",):
        if cur.get(drop):
            c = dict(cur)
            c.pop(drop)
            if failing(c):
                cur = c
    for cand_pad in (None, [["s", " "]]):
        c = dict(cur, pad=cand_pad, never_pad=False)
        if failing(c):
            cur = c
            break
    if cur["val"][0] == "f":
        x = float.fromhex(cur["val"][1])
        for k in range(1, 17):
            y = float("%.*g" % (k, x))
            c = dict(cur, val=["f", y.hex()])
            if failing(c):
                cur = c
                break
    return cur


def branch_of(case, r):
    if r[0] == "err":
        return "raises:" + r[1]
    if case["tok"] is not None and case["tok"] != "<J>" and r[1].startswith(case["tok"]) and r[2] is not None:
        try:
            if math.isclose(float(val_of(case)), float(r[2]), rel_tol=REL_TOL, abs_tol=0.0):
                return "unchanged"
        except OverflowError:
            pass
    t, _ = number_text(r[1])
    t = t or ""
    if re.fullmatch(r"[+-]?\d+", t):
        return "integer-text"
    if re.search(r"\d[eE]?[+-]\d+$", t) or re.search(r"[eE]\d+$", t):
        return "scientific-text"
    return "fixed-text"


def digits_class(case, r):
    """how many digits format() added to the old token's precision (measured on the real node)"""
    if case["kind"] != "f" or r[0] != "ok":
        return None
    try:
        with warnings.catch_warnings():
            warnings.simplefilter("ignore")
            n = build_node(case)
            set_value(n, case)
            if not n._value_changed or n.value is None:
                return "unchanged"
            n._reverse_engineer_formatting()
            if n._can_float_to_int_happen():
                return "as-integer"
            v = n._print_value
            p0 = p = n._formatter["precision"]
            t = n._format_float(v, p)
            while p < 17 and not n._reads_back_as(t, v):
                p += 1
                t = n._format_float(v, p)
            if not n._reads_back_as(t, v):
                return "fallback-17g"
            return "+%d" % (p - p0) if p - p0 < 6 else "+6..12"
    except Exception:
        return "error"


def load_json_case(path):
    with open(path) as fh:
        c = json.load(fh)
    return c.get("case", c)


# ---------------------------------------------------------------------------- carriers
SPELL = ["{:.1f}", "{:.3f}", "{:.0f}", "{:.2e}", "{:.1E}", "{:.4e}", "{:g}", "+{:.2f}", "{:.0f}.", "{:06.2f}", "FORTRAN"]


def spell(rng, x, allow_sign=True):
    """a token for the magnitude x in a random spelling; returns the text (its value may be rounded)"""
    f = rng.choice(SPELL)
    if f == "FORTRAN":
        return ("%.2e" % x).replace("e", "")
    if f.startswith("+") and not allow_sign:
        f = f[1:]
    t = f.format(x)
    if spec.read_number(t) == 0:
        t = "%.4g" % x                  # a zero density / fraction is not a valid input
    return t


PERTURB = ["perturb_rel", "perturb_rel", "perturb_abs", "at_tol"]


def new_value(rng, tok_val, stats=None):
    """a new value for a number whose token reads tok_val (None: no token).  A third of the time the new value
    is a tiny perturbation of the old one: relative 1e-8..1e-5, absolute 1e-9..1e-7, or almost exactly the
    tolerance — the object layer must hand even those to the node (sign of the old value kept)."""
    classes = ["digits", "digits", "scale", "tiny", "huge", "third", "round", "near_int", "full"]
    if tok_val is not None:
        classes += PERTURB
    cls = rng.choice(classes)
    if stats is not None:
        stats[cls] = stats.get(cls, 0) + 1
    b = abs(tok_val) if tok_val else 1.0
    if cls == "perturb_rel":
        if tok_val == 0:
            return rng.choice([-1, 1]) * 10.0 ** rng.uniform(-9, -7)
        return tok_val * (1 + rng.choice([-1, 1]) * 10.0 ** rng.uniform(-8, -5))
    if cls == "perturb_abs":
        return tok_val + rng.choice([-1, 1]) * 10.0 ** rng.uniform(-9, -7)
    if cls == "at_tol":
        if tok_val == 0:
            return 5e-9
        return tok_val * (1 + rng.choice([-1, 1]) * 1e-9 * rng.choice([0.5, 0.999, 1.001, 1.5, 3.0]))
    if cls == "digits":
        return b * rng.uniform(0.5, 2.0)
    if cls == "scale":
        return b * 10.0 ** rng.randint(-8, 8)
    if cls == "tiny":
        return rng.uniform(1, 10) * 10.0 ** rng.randint(-14, -6)
    if cls == "huge":
        return rng.uniform(1, 10) * 10.0 ** rng.randint(6, 14)
    if cls == "third":
        return rng.choice([1 / 3, 2 / 3, 1 / 7, math.pi, 0.8358073613682703])
    if cls == "round":
        return float(rng.choice([1, 2, 5, 10, 250]))
    if cls == "near_int":
        return rng.randint(1, 500) + rng.choice([-1, 1]) * 10.0 ** rng.uniform(-8, -4)
    return rng.random() * 10.0 ** rng.randint(-3, 3)


def gen_carrier(rng):
    """A small problem text with the numeric tokens spelled at random + a list of API edits.
    slots: name -> (token text or None); ops: list of [op, target, values]"""
    layout = rng.choice(["params", "data"])            # importances / volumes as cell parameters or data cards
    dens1 = spell(rng, rng.uniform(0.5, 20), False)
    dens3 = spell(rng, rng.uniform(1e-3, 0.1), False)
    imp = [rng.choice(["1", "2", "1.0", "0.5", "2.50"]) for _ in range(5)]
    vol = [spell(rng, rng.uniform(0.5, 500), False) for _ in range(5)]
    jump_vol = layout == "data" and rng.random() < 0.5
    if jump_vol:
        vol[1] = "J"
    sc = {1: [spell(rng, rng.uniform(0.1, 10))],
          2: [rng.choice(["-", ""]) + spell(rng, rng.uniform(0.1, 10), False)],
          3: [spell(rng, rng.uniform(1, 50), False)],
          4: [spell(rng, rng.uniform(0.1, 5)), spell(rng, rng.uniform(0.1, 5)), spell(rng, rng.uniform(1, 9), False)],
          5: [spell(rng, rng.uniform(1, 9), False)],
          6: [rng.choice(["-", ""]) + spell(rng, rng.uniform(0.1, 9), False) for _ in range(10)],
          7: [spell(rng, rng.uniform(0.1, 10))]}
    fr1 = [spell(rng, rng.uniform(0.1, 0.9), False), spell(rng, rng.uniform(0.1, 0.9), False)]
    fr2 = ["-" + spell(rng, rng.uniform(0.1, 0.9), False), "-" + spell(rng, rng.uniform(0.1, 0.9), False)]
    ntr = rng.choice([3, 3, 12, 9, 5])
    tr1 = [spell(rng, rng.uniform(0.5, 9)) for _ in range(3)]
    rot = ["1", "0", "0", "0", "1", "0", "0", "0", "1"]
    if rng.random() < 0.5:
        rot = ["0.8", "0.6", "0", "-0.6", "0.8", "0", "0", "0", "1"]
    if ntr > 3:
        tr1 += rot[:ntr - 3]
    tr2 = [spell(rng, rng.uniform(0.5, 9)) for _ in range(3)] + ["30", "60", "90", "120", "30", "90", "90", "90", "0"]
    fill = [rng.choice(["0", "0.0", spell(rng, rng.uniform(0.5, 9))]) for _ in range(3)]      # cell 4: fill=9 (dx dy dz)
    c = ["1 1 -%s -1 2" % dens1, "2 0 1:-2 3", "3 2 %s -3 4" % dens3, "4 0 -5 fill=9 (%s)" % " ".join(fill),
         "5 0 -3 u=9"]
    if layout == "params":
        c = [c[i] + " imp:n=%s vol=%s" % (imp[i], vol[i]) for i in range(5)]
    lines = ["C05 carrier"] + c + ["",
             "1 px " + sc[1][0], "2 pz " + sc[2][0], "3 so " + sc[3][0], "4 c/z " + " ".join(sc[4]),
             "5 cz " + sc[5][0], "6 gq " + " ".join(sc[6][:5]), "     " + " ".join(sc[6][5:]),
             "7 1 py " + sc[7][0], "",
             "m1 1001.80c %s 8016.80c %s" % tuple(fr1), "m2 92235.80c %s 92238.80c %s" % tuple(fr2),
             "tr1 " + " ".join(tr1), "*tr2 " + " ".join(tr2)]
    if layout == "data":
        lines.append("imp:n " + " ".join(imp))
        lines.append("vol " + " ".join(vol))
    text = "\n".join(lines) + "\n"
    slots = {"dens1": "-" + dens1, "dens3": dens3, "imp": imp, "vol": vol, "sc": sc, "fr1": fr1, "fr2": fr2,
             "tr1": tr1, "tr2": tr2, "fill": fill}
    ops = []
    vstats = {}

    def tv(t):
        f = spec.read_number(t.upper()) if t not in ("J",) else None
        return float(f) if f is not None else None

    def nv(old, flip=False):
        """new value for a slot whose token reads old; a random sign only for values that are not perturbations"""
        before = dict(vstats)
        v = new_value(rng, old, vstats)
        pert = any(vstats.get(k, 0) != before.get(k, 0) for k in PERTURB)
        if flip and not pert and rng.random() < 0.5:
            v = -v
        return v

    dens_cur = {1: abs(tv(dens1)), 3: abs(tv(dens3))}
    for _ in range(rng.randint(2, 7)):
        op = rng.choice(["loc", "loc", "radius", "coords", "consts", "mass", "atom", "frac", "disp", "disp", "rot", "rot",
                         "rot_longer", "fill_disp", "imp", "vol", "newcell"])
        if op == "loc":
            sn = rng.choice([1, 2, 7])
            ops.append(["loc", sn, [nv(tv(sc[sn][0]), True)]])
        elif op == "radius":
            sn = rng.choice([4, 5])
            ops.append(["radius", sn, [abs(nv(tv(sc[sn][-1])))]])
        elif op == "coords":
            ops.append(["coords", 4, [nv(tv(sc[4][0]), True), nv(tv(sc[4][1]))]])
        elif op == "consts":
            sn = rng.choice([3, 6])
            cur = [tv(t) for t in sc[sn]]
            k = rng.randrange(len(cur))
            new = list(cur)
            new[k] = nv(cur[k], sn == 6)
            if sn == 3:
                new[k] = abs(new[k])
            ops.append(["consts", sn, new, k])
        elif op == "mass":
            cn = rng.choice([1, 3])
            ops.append(["mass", cn, [abs(nv(dens_cur[cn]))]])
        elif op == "atom":
            cn = rng.choice([1, 3])
            ops.append(["atom", cn, [abs(nv(dens_cur[cn]))]])
        elif op == "frac":
            mn, k = rng.choice([1, 2]), rng.randrange(2)
            ops.append(["frac", mn, k, [abs(nv(abs(tv((fr1 if mn == 1 else fr2)[k]))))]])
        elif op == "disp":
            tn = rng.choice([1, 2])
            cur = [tv(t) for t in (tr1 if tn == 1 else tr2)[:3]]
            ops.append(["disp", tn, [nv(x, True) if rng.random() < 0.7 else x for x in cur]])
        elif op == "rot":
            tn = 2 if ntr < 12 or rng.random() < 0.5 else 1
            cur = [tv(t) for t in (tr1 if tn == 1 else tr2)[3:12]]
            ops.append(["rot", tn, [nv(x) if rng.random() < 0.5 else x for x in cur]])
        elif op == "rot_longer":
            th = rng.uniform(0.01, 3)
            ops.append(["rot", 1, [math.cos(th), -math.sin(th), 0.0, math.sin(th), math.cos(th), 0.0, 0.0, 0.0, 1.0]])
        elif op == "fill_disp":
            cur = [tv(t) for t in fill]
            ops.append(["fill_disp", 4, [nv(x, True) if rng.random() < 0.7 else x for x in cur]])
        elif op == "imp":
            cn = rng.choice([1, 2, 3])
            ops.append(["imp", cn, [rng.choice([0.0, 1.0, 2.0, abs(nv(tv(imp[cn - 1])))])]])
        elif op == "vol":
            cn = rng.choice([1, 2, 3])
            ops.append(["vol", cn, [abs(nv(tv(vol[cn - 1])))]])
        else:
            ops.append(["newcell", 10 + len(ops), [new_value(rng, None, vstats), new_value(rng, None, vstats),
                                                   new_value(rng, None, vstats)]])
    # identifiers: integers are written exactly, on the card and wherever the object is pointed at
    if rng.random() < 0.4:
        for kind in rng.sample(["renum_surf", "renum_mat", "renum_tr", "renum_cell"], rng.randint(1, 2)):
            new = rng.choice([rng.randint(20, 99), rng.randint(100, 99999), rng.randint(10 ** 5, 99999999)])
            ops.append([kind, {"renum_surf": 5, "renum_mat": 2, "renum_tr": 1, "renum_cell": 2}[kind], [new]])
    return {"text": text, "layout": layout, "slots": slots, "ops": ops, "ntr": ntr, "jump_vol": jump_vol,
            "value_classes": vstats}


def norm_carrier(car):
    """a carrier that went through JSON: surface numbers are keys again"""
    car["slots"]["sc"] = {int(k): v for k, v in car["slots"]["sc"].items()}
    return car


def run_carrier(car):
    """apply the edits through the public API, write, return (written text, expectations)
    expectations: list of (where, key, position, 'set' value | 'kept' token)"""
    import numpy as np
    norm_carrier(car)
    import montepy
    import mp
    from montepy.data_inputs.transform import Transform
    pr = mp.read_problem(car["text"], name="c05_in.i")
    sl = car["slots"]
    exp = {}            # (card kind, card id, position) -> ("set", v) | ("kept", token)
    for sn, toks in sl["sc"].items():
        for i, t in enumerate(toks):
            exp[("surf", sn, i)] = ("kept", t)
    exp[("dens", 1, 0)] = ("kept", sl["dens1"])
    exp[("dens", 3, 0)] = ("kept", sl["dens3"])
    for i in range(len(sl["imp"])):
        exp[("imp", i + 1, 0)] = ("kept", sl["imp"][i])
        exp[("vol", i + 1, 0)] = ("kept", sl["vol"][i])
    for i, t in enumerate(sl.get("fill", [])):
        exp[("fill", 4, i)] = ("kept", t)
    for i in range(2):
        exp[("frac", 1, i)] = ("kept", sl["fr1"][i])
        exp[("frac", 2, i)] = ("kept", sl["fr2"][i])
    for i, t in enumerate(sl["tr1"]):
        exp[("tr", 1, i)] = ("kept", t)
    for i, t in enumerate(sl["tr2"]):
        exp[("tr", 2, i)] = ("kept", t)
    trs = {d.number: d for d in pr.data_inputs if isinstance(d, Transform)}

    def set_or_keep(key, v):
        how, old = exp.get(key, ("set", None))
        if how == "kept" and old != "J" and float(spec.read_number(old.upper())) == v:
            return                                  # assigned the value the token already has
        exp[key] = ("set", v)

    with warnings.catch_warnings():
        warnings.simplefilter("ignore")
        for op in car["ops"]:
            k = op[0]
            if k == "loc":
                pr.surfaces[op[1]].location = op[2][0]
                exp[("surf", op[1], 0)] = ("set", op[2][0])
            elif k == "radius":
                pr.surfaces[op[1]].radius = op[2][0]
                exp[("surf", op[1], len(sl["sc"][op[1]]) - 1)] = ("set", op[2][0])
            elif k == "coords":
                pr.surfaces[4].coordinates = tuple(op[2])
                exp[("surf", 4, 0)] = ("set", op[2][0])
                exp[("surf", 4, 1)] = ("set", op[2][1])
            elif k == "consts":
                pr.surfaces[op[1]].surface_constants = list(op[2])
                for j, v in enumerate(op[2]):
                    how, old = exp[("surf", op[1], j)]
                    if how == "kept" and float(spec.read_number(old.upper())) == v:
                        continue                        # assigned the value the token already has
                    exp[("surf", op[1], j)] = ("set", v)
            elif k == "mass":
                pr.cells[op[1]].mass_density = op[2][0]
                exp[("dens", op[1], 0)] = ("set", -op[2][0])
            elif k == "atom":
                pr.cells[op[1]].atom_density = op[2][0]
                exp[("dens", op[1], 0)] = ("set", op[2][0])
            elif k == "frac":
                m = pr.materials[op[1]]
                comp = list(m.material_components.values())[op[2]]
                comp.fraction = op[3][0]
                exp[("frac", op[1], op[2])] = ("set", op[3][0] if op[1] == 1 else -op[3][0])
            elif k == "disp":
                trs[op[1]].displacement_vector = np.array(op[2])
                for i, v in enumerate(op[2]):
                    set_or_keep(("tr", op[1], i), v)
            elif k == "rot":
                trs[op[1]].rotation_matrix = np.array(op[2])
                for i, v in enumerate(op[2]):
                    set_or_keep(("tr", op[1], 3 + i), v)
            elif k == "fill_disp":
                pr.cells[op[1]].fill.transform.displacement_vector = np.array(op[2])
                for i, v in enumerate(op[2]):
                    set_or_keep(("fill", op[1], i), v)
            elif k == "imp":
                pr.cells[op[1]].importance.neutron = op[2][0]
                exp[("imp", op[1], 0)] = ("set", op[2][0])
            elif k == "vol":
                pr.cells[op[1]].volume = op[2][0]
                exp[("vol", op[1], 0)] = ("set", op[2][0])
            elif k == "newcell":
                c = montepy.Cell()
                c.number = op[1]
                c.geometry = -pr.surfaces[3] & +pr.surfaces[5]
                c.material = pr.materials[1]
                c.mass_density = op[2][0]
                c.importance.neutron = op[2][1]
                c.volume = op[2][2]
                pr.cells.append(c)
                exp[("dens", op[1], 0)] = ("set", -op[2][0])
                exp[("imp", op[1], 0)] = ("set", op[2][1])
                exp[("vol", op[1], 0)] = ("set", op[2][2])
            elif k in ("renum_surf", "renum_mat", "renum_tr", "renum_cell"):
                old, new = op[1], op[2][0]
                kinds = {"renum_surf": ("surf",), "renum_mat": ("frac",), "renum_tr": ("tr",),
                         "renum_cell": ("dens", "imp", "vol")}[k]
                if k == "renum_surf":
                    pr.surfaces[old].number = new
                elif k == "renum_mat":
                    pr.materials[old].number = new
                    for c in pr.cells:
                        if c.material is not None and c.material.number == new:
                            exp[("mat", c.number, 0)] = ("int", new)
                elif k == "renum_tr":
                    trs[old].number = new
                    exp[("trptr", 7, 0)] = ("int", new)
                else:
                    pr.cells[old].number = new
                for key in [key for key in exp if key[0] in kinds and key[1] == old]:
                    exp[(key[0], new, key[2])] = exp.pop(key)
                exp[("num", kinds[0], new)] = ("int", new)
        out = mp.write_problem(pr, name="c05_out.i")
    return out, exp


def read_carrier(out):
    """the written file through spec.py: {(kind, id, position): token text}"""
    f = spec.split_file(out)
    got = {}
    cells, surfs, data = (f["blocks"] + [[], [], []])[:3]
    order = []
    for card in cells:
        toks = spec.tokens(card.text)
        num = int(toks[0])
        order.append(num)
        got[("num", "dens", num)] = toks[0]
        got[("mat", num, 0)] = toks[1]
        if toks[1] != "0":
            got[("dens", num, 0)] = toks[2]
        c = spec.parse_cell(card)
        for key, vals in c["params"].items():
            if key.startswith("IMP:") and vals:
                got[("imp", num, 0)] = vals[0]
            if key == "VOL" and vals:
                got[("vol", num, 0)] = vals[0]
            if key in ("FILL", "*FILL") and "(" in vals:
                for j, t in enumerate(vals[vals.index("(") + 1: vals.index(")") if ")" in vals else None]):
                    got[("fill", num, j)] = t
    for card in surfs:
        toks = spec.tokens(card.text)
        num = int(toks[0].lstrip("*+"))
        i = 1
        got[("num", "surf", num)] = toks[0].lstrip("*+")
        if re.fullmatch(r"[+-]?\d+", toks[1]):
            got[("trptr", num, 0)] = toks[1]
            i = 2
        for j, t in enumerate(toks[i + 1:]):
            got[("surf", num, j)] = t
    for card in data:
        toks = spec.tokens(card.text)
        head = toks[0]
        m = re.fullmatch(r"M(\d+)", head)
        if m:
            got[("num", "frac", int(m.group(1)))] = m.group(1)
            for j in range((len(toks) - 1) // 2):
                got[("frac", int(m.group(1)), j)] = toks[2 + 2 * j]
            continue
        m = re.fullmatch(r"\*?TR(\d+)", head)
        if m:
            got[("num", "tr", int(m.group(1)))] = m.group(1)
            for j, t in enumerate(toks[1:]):
                got[("tr", int(m.group(1)), j)] = t
            continue
        if head.startswith("IMP:"):
            vals = spec.expand_shortcuts(toks[1:])
            raw = toks[1:]
            for j, num in enumerate(order):
                if j < len(vals):
                    got[("imp", num, 0)] = raw[j] if len(raw) == len(vals) else vals[j]
            continue
        if head == "VOL":
            vals = spec.expand_shortcuts(toks[1:])
            raw = toks[1:]
            for j, num in enumerate(order):
                if j < len(vals):
                    got[("vol", num, 0)] = raw[j] if len(raw) == len(vals) else vals[j]
    return got


def check_carrier(car):
    """-> None | failure dict (first failing slot)"""
    try:
        out, exp = run_carrier(car)
    except Exception as e:
        return {"kind": "carrier-exception", "exc": type(e).__name__, "msg": str(e)[:200]}
    try:
        got = read_carrier(out)
    except Exception as e:
        return {"kind": "carrier-unreadable", "exc": type(e).__name__, "out": out}
    for key, (how, want) in sorted(exp.items(), key=lambda kv: str(kv[0])):
        g = got.get(key)
        if how == "kept":
            if want == "J":
                continue                            # a jump that stays a jump: C07's business
            if isinstance(g, Fraction):
                if g != spec.read_number(want.upper()):
                    return {"kind": "carrier-kept-respelled", "slot": list(key), "want": want, "got": str(g), "out": out}
                continue
            if g is None or str(g).upper() != want.upper():
                # a kept token may have been moved by a longer neighbour but must be spelled the same
                return {"kind": "carrier-kept-respelled", "slot": list(key), "want": want, "got": str(g), "out": out}
        elif how == "int":
            if g is None or not re.fullmatch(r"[+-]?\d+", str(g)) or int(str(g)) != want:
                return {"kind": "carrier-int-not-exact", "slot": list(key), "want": want, "got": str(g), "out": out}
        else:
            if g is None:
                return {"kind": "carrier-missing", "slot": list(key), "want": repr(want), "out": out}
            val = g if isinstance(g, Fraction) else spec.read_number(str(g))
            if val is None or not close_to(val, want):
                return {"kind": "carrier-not-close", "slot": list(key), "want": repr(want), "got": str(g), "out": out}
    return None


def shrink_carrier(car, kind):
    cur = car
    changed = True
    while changed and len(cur["ops"]) > 1:
        changed = False
        for i in range(len(cur["ops"])):
            c = dict(cur, ops=cur["ops"][:i] + cur["ops"][i + 1:])
            f = check_carrier(c)
            if f is not None and f["kind"] == kind:
                cur = c
                changed = True
                break
    return cur


# ---------------------------------------------------------------------------- replay
def replay(ctx, path):
    import montepy
    with open(path) as fh:
        doc = json.load(fh)
    if "carrier" in doc:
        bad = check_carrier(doc["carrier"]) is not None
    else:
        c = doc.get("case", doc)
        bad = check_case(c) is not None
        if not bad:
            ok, _ = vlib.coq_make(["Model/Num.vo"])
            ans = vlib.model_ask("Num", [request_of(c)])[0]
            bad = ans != real_answer(real_run(c)) and ans != "unmodelled"
    if bad:
        print("REPLAY property=C05 still fails")
        print(f"VIOLATION property=C05 replay={path}")
        return 1
    print("REPLAY property=C05 passes")
    return 0


# ---------------------------------------------------------------------------- run
def model_ask_par(reqs, nproc=4):
    """vlib.model_ask on up to 4 model processes (the extracted model computes with Coq's binary integers:
    about 8 ms per case)"""
    if len(reqs) < 400:
        return vlib.model_ask("Num", reqs)
    from concurrent.futures import ThreadPoolExecutor
    vlib.build_model("Num")
    chunks = [reqs[i::nproc] for i in range(nproc)]
    with ThreadPoolExecutor(nproc) as ex:
        parts = list(ex.map(lambda ch: vlib.model_ask("Num", ch), chunks))
    out = [None] * len(reqs)
    for i, part in enumerate(parts):
        out[i::nproc] = part
    return out


def aux_checks(ctx, cases, dist):
    """float(), the reader, isclose, round, _value_changed: the model's building blocks against the real ones"""
    from montepy.utilities import fortran_float
    from montepy.constants import rel_tol, abs_tol
    reqs, exps = [], []
    seen = set()
    for c in cases:
        t = c["tok"]
        if t in (None, "<J>") or t in seen:
            continue
        seen.add(t)
        try:
            x = fortran_float(t)
            e = "unmodelled" if math.isinf(x) else ("%d %d %d" % ((1 if float_parts(x)[0] else 0,) + float_parts(x)[1:]))
        except ValueError:
            e = "err:ValueError"
        reqs.append("float " + hx(t))
        exps.append(("float", e))
        reqs.append("read " + hx(t))
        exps.append(("read", spec.read_number(t)))
    # isclose at and around the tolerance, round() on halves and near integers
    rng = random.Random(f"{ctx.seed}:C05:aux")
    n_pairs = 400 if ctx.tier == "quick" else 20000
    for i in range(n_pairs):
        a = rng.choice([rng.uniform(-100, 100), 10.0 ** rng.uniform(-300, 300), float(rng.randint(1, 10 ** 6)), 5e-324 * rng.randint(1, 100)])
        k = rng.choice(["edge", "edge", "ulp", "far", "same", "zero"])
        if k == "edge":
            b = a * (1 + rng.choice([-1, 1]) * 1e-9 * (1 + rng.choice([-1, 1]) * 2.0 ** -rng.randint(20, 53)))
        elif k == "ulp":
            b = math.nextafter(a * (1 + 1e-9), rng.choice([0.0, math.inf]))
        elif k == "far":
            b = a * rng.uniform(0.5, 2)
        elif k == "same":
            b = a
        else:
            b = 0.0
        if math.isinf(b) or math.isinf(a):
            continue
        reqs.append("isclose %s %s" % (enc_float(a), enc_float(b)))
        exps.append(("isclose", "1" if math.isclose(a, b, rel_tol=rel_tol, abs_tol=abs_tol) else "0"))
        y = rng.choice([a, float(rng.randint(-50, 50)) + 0.5, math.nextafter(float(rng.randint(1, 99)) + 0.5, 0.0), b])
        if abs(y) < 1e300:
            reqs.append("round " + enc_float(y))
            exps.append(("round", str(round(y))))
    # _value_changed on (kind, token, value)
    for c in cases[: (300 if ctx.tier == "quick" else 5000)]:
        if c.get("negatable") or c["tok"] in (None, "<J>"):
            continue
        with warnings.catch_warnings():
            warnings.simplefilter("ignore")
            try:
                n = build_node(dict(c, pad=None))
                n.value = val_of(c)
                e = "1" if n._value_changed else "0"
            except OverflowError:
                e = "err:OverflowError"
            except Exception:
                continue
        reqs.append("changed %s %s %s" % (c["kind"], enc_tok(c["tok"]), enc_val(c)))
        exps.append(("changed", e))
    answers = model_ask_par(reqs)
    bad = []
    counts = {}
    for q, a, (k, e) in zip(reqs, answers, exps):
        ctx.cov["disagreements_checked"] += 1
        counts[k] = counts.get(k, 0) + 1
        if k == "float":
            if e == "unmodelled" or a == "unmodelled" or a.startswith("err") or e.startswith("err"):
                okk = (a == e)
            else:
                ng, M, E = a.split()
                e1 = e.split()
                okk = ng == e1[0] and Fraction(int(M)) * Fraction(2) ** int(E) == Fraction(int(e1[1])) * Fraction(2) ** int(e1[2])
        elif k == "read":
            if a == "none" or e is None:
                okk = (a == "none") == (e is None)
            else:
                ng, M, K = a.split()
                val = Fraction(int(M)) * Fraction(10) ** int(K)
                okk = (-val if ng == "1" else val) == e
        else:
            okk = (a == e) or a == "unmodelled"
        if not okk:
            bad.append({"request": q, "model": a, "real": str(e)})
    dist["aux_checks"] = counts
    if bad:
        ctx.broken_obligations.append({"obligation": "Num building blocks (float / read_number / isclose / round / "
                                                     "value_changed) vs CPython and MontePy",
                                       "detail": {"n": len(bad), "first": bad[0]}})


def run(ctx):
    import montepy          # before any warnings.catch_warnings block: importing it installs warning filters
    n_cases = 6000 if ctx.tier == "quick" else 150000
    n_carriers = 150 if ctx.tier == "quick" else 4000
    ctx.prove()
    ok, log = vlib.coq_make(["Model/Num.vo"])
    if not ok:
        ctx.broken_obligations.append({"obligation": "Model/Num.vo builds", "detail": log[-800:]})
        return ctx.finish(vlib.KERNEL_TB, [], "model did not build")
    # ---- cases: corpus first (minimised past failures and the witnesses of fixed findings), then generated
    cases = []
    carriers = []
    cdir = os.path.join(vlib.VERIF, "corpus", "C05")
    if os.path.isdir(cdir):
        for f in sorted(os.listdir(cdir)):
            with open(os.path.join(cdir, f)) as fh:
                doc = json.load(fh)
            if "carrier" in doc:
                doc["carrier"]["_corpus"] = f
                carriers.append(doc["carrier"])
            else:
                c = doc.get("case", doc)
                c["_corpus"] = f
                cases.append(c)
    n_corpus = len(cases) + len(carriers)
    for i in range(n_cases):
        cases.append(gen_case(random.Random(f"{ctx.seed}:C05:{i}")))
    reqs = [request_of(c) for c in cases]
    answers = model_ask_par(reqs)
    nx, bad = vlib.vm_crosscheck("Num", reqs, answers, sample=40 if ctx.tier == "quick" else 400, seed=ctx.seed)
    if bad:
        ctx.broken_obligations.append({"obligation": "extraction cross-check Num", "detail": bad[:2]})
    dist = {"kind": {}, "token_class": {}, "value_class": {}, "branch": {}, "padding": {}, "digits_added": {},
            "negatable": 0, "model_unmodelled": 0, "oracle_failures": {}, "corpus": n_corpus}
    corr_bad = []
    n_fail = 0
    for c, ans in zip(cases, answers):
        ctx.cov["programs"] += 1
        r = real_run(c)
        ra = real_answer(r)
        br = branch_of(c, r)
        for key, val in (("kind", c["kind"]), ("token_class", c.get("tcls", "corpus")),
                         ("value_class", c.get("vcls", "corpus")), ("branch", br),
                         ("padding", "none" if c["pad"] is None else ("empty" if not c["pad"] else
                                     "+".join(k for k, _ in c["pad"])))):
            dist[key][val] = dist[key].get(val, 0) + 1
        if c.get("negatable"):
            dist["negatable"] += 1
        if ctx.cov["programs"] % 4 == 0:
            dc = digits_class(c, r)
            if dc:
                dist["digits_added"][dc] = dist["digits_added"].get(dc, 0) + 1
        ctx.count_case((c["kind"], c["tok"], str(c["pad"]), c["val"], bool(c.get("negatable"))),
                       nontrivial=(br != "unchanged"))
        ctx.cov["disagreements_checked"] += 1
        if ans == "unmodelled":
            dist["model_unmodelled"] += 1
        elif ans != ra:
            corr_bad.append({"case": c, "real": ra if r[0] == "err" else r[1],
                             "model": unhx(ans[3:]) if ans.startswith("ok:") else ans})
        # oracle
        f = check_case(c, r)
        if f is not None:
            n_fail += 1
            dist["oracle_failures"][f["kind"]] = dist["oracle_failures"].get(f["kind"], 0) + 1
            small = shrink(c, lambda cc: (check_case(cc) or {}).get("kind") == f["kind"])
            f2 = check_case(small) or f
            ctx.fail({"kind": f2["kind"], "case": small, "detail": f2})
            if len(ctx.violations) >= 5:
                break
        if len(ctx.cov["samples"]) < 6 and br != "unchanged" and r[0] == "ok":
            ctx.sample({"kind": c["kind"], "token": c["tok"], "padding": c["pad"], "value": repr(val_of(c)),
                        "written": r[1], "model": ans})
    if corr_bad:
        # a disagreement of the model and the code: look for a property failure near the disagreeing case
        first = corr_bad[0]
        ctx.broken_obligations.append({"obligation": "correspondence Num.render vs ValueNode.format",
                                       "detail": {"n": len(corr_bad), "first": first}})
        for cb in corr_bad[:20]:
            base = cb["case"]
            for pad in (base["pad"], [["s", " "]], None):
                for neg in (False, True):
                    cc = dict(base, pad=pad)
                    if neg:
                        cc["negatable"] = True
                    else:
                        cc.pop("negatable", None)
                    f = check_case(cc)
                    if f is not None:
                        ctx.fail({"kind": f["kind"], "case": cc, "detail": f})
                        break
    # ---- the model's building blocks
    aux_checks(ctx, cases, dist)
    # ---- carriers: real problems edited through the API, written, re-read by spec.py
    cdist = {"n": 0, "ops": {}, "layout": {}, "value_classes": {}, "failures": {}}
    for i in range(n_carriers):
        carriers.append(gen_carrier(random.Random(f"{ctx.seed}:C05:carrier:{i}")))
    for car in carriers:
        cdist["n"] += 1
        cdist["layout"][car["layout"]] = cdist["layout"].get(car["layout"], 0) + 1
        for op in car["ops"]:
            cdist["ops"][op[0]] = cdist["ops"].get(op[0], 0) + 1
        for k, n in car.get("value_classes", {}).items():
            cdist["value_classes"][k] = cdist["value_classes"].get(k, 0) + n
        ctx.count_case(("carrier", car["text"], json.dumps(car["ops"])), nontrivial=True)
        f = check_carrier(car)
        if f is not None:
            n_fail += 1
            cdist["failures"][f["kind"]] = cdist["failures"].get(f["kind"], 0) + 1
            small = shrink_carrier(car, f["kind"])
            f2 = check_carrier(small) or f
            ctx.fail({"kind": f2["kind"], "carrier": small, "detail": f2})
            if len(ctx.violations) >= 5:
                break
    dist["carriers"] = cdist
    # ---- known findings: replay the committed witnesses
    for fd in ctx.findings:
        if fd.get("status") == "open" and fd.get("replay"):
            try:
                c = load_json_case(os.path.join(vlib.VERIF, fd["replay"]))
                f = check_case(c)
                fd["_reproduced"] = f is not None and f["kind"] == fd.get("failure_kind", f["kind"])
            except Exception:
                fd["_reproduced"] = False
    tb = vlib.KERNEL_TB + [
        "modelled, not verified: ValueNode.__init__/_convert_to_int/value setter/_reverse_engineer_formatting/"
        "_reverse_engineer_float/_can_float_to_int_happen/_value_changed/_reads_back_as/_format_float/format, "
        "PaddingNode.is_space, fortran_float, and CPython 3.12 float(str), int(str), round(float), float(int), "
        "math.isclose, str.strip, str.format d/e/f/g with fill '0' align '=' as coq/Model/Num.v; a negatable node is "
        "compared with the model of a plain node holding the signed value; NOT modelled: non-finite floats, "
        "enum/str nodes, LineExpansionWarning, the objects that carry the nodes (checked by the carrier oracle only)",
        "spec.read_number / spec.split_file / spec.parse_cell (independent reader, harness/spec.py) are the oracle's "
        "reading of the written text; spec.read_number is compared with Num.read_number on every token",
        f"vm_compute cross-check of {nx} requests",
    ]
    assumptions = [
        "closeness is math.isclose(float(read text), value, rel_tol=1e-9, abs_tol=0): the text is read to the "
        "nearest double, as MCNP stores it; the theorems state exactly this (reads_as / isclose)",
        "a float value given to an integer node, an int beyond the double range and a token MontePy cannot read "
        "are outside the property's domain (counted, not judged)",
        "theorem C05_float_close needs followed_ok: the node is followed by nothing, by a blank string, or by "
        "something that starts with white space, '$' or '&' (newline, '$' comment); other paddings (an empty "
        "padding string, a 'c' comment glued to the number) are judged by the oracle only",
    ]
    return ctx.finish(tb, assumptions,
                      "cases = generated (token spelling class x padding shape x new-value class) triples plus carrier "
                      "problems (spelled tokens x API edits); distinct = distinct (kind, token, padding, value, "
                      "negatable) / (problem text, edits); non-trivial = the value differs from the token's value "
                      "(format() does not take the unchanged short cut)",
                      extra={"input_distribution": dist, "oracle_failing_cases": n_fail})
