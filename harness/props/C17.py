"""C17 — Problems are isolated; API behaviour does not depend on unrelated history.

Obligations: coq/Properties/C17.v over coq/Model/Iso.v and the generated coq/Gen/Globals.v
(harness/translate_globals.py: every site of process-wide mutable state of the source, its write/read sets
and the first access of every API entry point; decided in Coq: table_consistent, only_latches_dirty,
reset flags).

The check process itself never executes a MontePy API call: everything that runs the real code runs in a
forked child of this (pristine: modules imported, nothing called) process, so every child starts from the
state of a fresh interpreter; a few scenarios are additionally replayed in really fresh interpreters
(subprocess) to validate that equivalence.

Correspondence (model vs real code):
  R  read_input with read cards / failing cards / residue in reading_queue and in the shared parser log
     vs Iso.read_file (result class, loaded cards, queue residue, log residue);
  S  generated-property setter calls after a history of calls vs Iso.accepts / latch_after
     (declarations and class table taken from Gen/Globals.v);
  C  copy.deepcopy of a problem vs Iso.copy_problem (fresh identities, isomorphic pointer structure);
  M  monitor: every site of Gen/Globals.v is snapshotted in the live process before/after every operation;
     a site that changes although the table says the operation's entry points cannot write it is a
     correspondence disagreement;
  P  poison: every site the table claims is reset before it is read (or never read) is overwritten with junk
     before each operation; outcomes must not change.
Oracle (the property read literally): a program on problem A (read, edits, API calls incl. generated setters,
deepcopy/pickle, write for an MCNP version) run alone in a fresh process vs interleaved with arbitrary
operations on OTHER problems/objects (reads, failing reads, edits, writes for other versions, setter calls,
deep copies): outcomes (value / exception class) and written bytes must be equal.
"""
import json
import os
import pickle
import random
import select
import signal
import subprocess
import sys
import time
import traceback
import warnings

import vlib
import gen
import edits as ED

PROP = "C17"
SCRATCH_PREFIX = "/tmp/C17-"


# ----------------------------------------------------------------------------------------------
# forked children
# ----------------------------------------------------------------------------------------------
def _child_main(fn, args, wfd):
    try:
        warnings.simplefilter("ignore")
        res = fn(*args)
        data = json.dumps({"ok": res}, default=str)
    except BaseException:  # noqa
        data = json.dumps({"crash": traceback.format_exc()[-3000:]})
    try:
        b = data.encode()
        off = 0
        while off < len(b):
            off += os.write(wfd, b[off:off + 65536])
    finally:
        os._exit(0)


def fork_map(fn, arglist, procs=4, timeout=120):
    """run fn(*args) for every args of arglist, each in its own forked child (<= procs at a time);
    returns the list of results; a crashed / timed-out child gives {"__crash__": text}"""
    results = [None] * len(arglist)
    pending = list(range(len(arglist)))
    running = {}   # rfd -> (idx, pid, chunks, t0)
    sys.stdout.flush()
    sys.stderr.flush()
    while pending or running:
        while pending and len(running) < procs:
            i = pending.pop(0)
            r, w = os.pipe()
            pid = os.fork()
            if pid == 0:
                os.close(r)
                for fd in list(running):
                    try:
                        os.close(fd)
                    except OSError:
                        pass
                _child_main(fn, arglist[i], w)
            os.close(w)
            running[r] = (i, pid, [], time.time())
        if not running:
            continue
        ready, _, _ = select.select(list(running), [], [], 1.0)
        now = time.time()
        for fd in ready:
            i, pid, chunks, t0 = running[fd]
            b = os.read(fd, 1 << 16)
            if b:
                chunks.append(b)
                continue
            os.close(fd)
            os.waitpid(pid, 0)
            del running[fd]
            try:
                d = json.loads(b"".join(chunks).decode())
                results[i] = d["ok"] if "ok" in d else {"__crash__": d.get("crash", "?")}
            except Exception:
                results[i] = {"__crash__": "no result from child"}
        for fd in list(running):
            i, pid, chunks, t0 = running[fd]
            if now - t0 > timeout:
                try:
                    os.kill(pid, signal.SIGKILL)
                except OSError:
                    pass
                os.close(fd)
                os.waitpid(pid, 0)
                del running[fd]
                results[i] = {"__crash__": "timeout"}
    return results


def child_tmp():
    import tempfile
    import atexit
    import shutil
    d = tempfile.mkdtemp(prefix=SCRATCH_PREFIX + "w%d-" % os.getpid())
    return d


def _cleanup(d):
    import shutil
    shutil.rmtree(d, ignore_errors=True)


# ----------------------------------------------------------------------------------------------
# the real world (child side)
# ----------------------------------------------------------------------------------------------
def exc_name(e):
    return type(e).__name__


def canon(x, depth=0):
    """stable, address-free rendering of a value"""
    from collections import deque
    import enum
    if x is None or isinstance(x, (bool, int, str)):
        return repr(x)
    if isinstance(x, float):
        return x.hex()
    if isinstance(x, enum.Enum):
        return type(x).__name__ + "." + x.name
    if isinstance(x, type):
        return "<class %s>" % x.__name__
    if depth > 5:
        return "<%s...>" % type(x).__name__
    if isinstance(x, (list, tuple, deque)):
        return type(x).__name__ + "[" + ",".join(canon(y, depth + 1) for y in x) + "]"
    if isinstance(x, (set, frozenset)):
        return type(x).__name__ + "{" + ",".join(sorted(canon(y, depth + 1) for y in x)) + "}"
    if isinstance(x, dict):
        return "dict{" + ",".join(sorted(canon(k, depth + 1) + ":" + canon(v, depth + 1) for k, v in x.items())) + "}"
    try:
        import numpy as np
        if isinstance(x, np.ndarray):
            return "nd[" + ",".join(canon(float(y), depth + 1) for y in x.flatten()) + "]"
        if isinstance(x, np.generic):
            return canon(x.item(), depth + 1)
    except Exception:
        pass
    if callable(x) and hasattr(x, "__name__"):
        return "<fn %s>" % x.__name__
    d = getattr(x, "__dict__", None)
    if isinstance(d, dict) and depth <= 2:
        keys = sorted(k for k in d if not k.startswith("__"))
        return "<%s %s>" % (type(x).__name__, ",".join(k + "=" + canon(d[k], depth + 2) for k in keys[:12]))
    return "<%s>" % type(x).__name__


VERSIONS = [(6, 2, 0), (6, 1, 0), (5, 1, 60)]
import re as _re
_ADDR = _re.compile(r"0x[0-9a-fA-F]+")


class Slot:
    """one problem held by the scenario"""

    def __init__(self, pr):
        self.pr = pr
        self.h = ED.Handles(pr)


def handles_like(h, pr, cp):
    """handles on a copy of pr that address the copy's objects by the same (original) numbers as h does"""
    hc = ED.Handles(cp)
    for attr, coll in (("cells", "cells"), ("surfaces", "surfaces"), ("materials", "materials"),
                       ("transforms", "transforms"), ("universes", "universes")):
        src = list(getattr(pr, coll))
        dst = list(getattr(cp, coll))
        pos = {id(o): i for i, o in enumerate(src)}
        m = {}
        for k, o in getattr(h, attr).items():
            i = pos.get(id(o))
            if i is not None and i < len(dst):
                m[k] = dst[i]
        setattr(hc, attr, m)
    return hc


def observe_problem(pr):
    """what a problem reports through its API (no private attributes)"""
    out = []
    try:
        out.append("title:" + canon(pr.title.title if hasattr(pr.title, "title") else str(pr.title)))
    except Exception as e:
        out.append("title!" + exc_name(e))
    try:
        out.append("mode:" + canon(sorted(str(p_) for p_ in pr.mode.particles)))
    except Exception as e:
        out.append("mode!" + exc_name(e))
    for c in pr.cells:
        try:
            if isinstance(c.parameters, dict):
                out.append("c%d par=%s" % (c.number, canon(sorted(map(str, c.parameters)))))
        except Exception as e:
            out.append("c%d par!%s" % (c.number, exc_name(e)))
        try:
            mat = c.material.number if c.material is not None else None
            dens = None
            if c.material is not None:
                dens = c.atom_density if c.is_atom_dens else c.mass_density
            out.append("c%d m=%s d=%s g=%s imp=%s v=%s u=%s" % (
                c.number, mat, canon(dens), str(c.geometry),
                canon({str(p): c.importance[p] for p in pr.mode.particles}) if hasattr(pr, "mode") else "",
                canon(c.volume), c.universe.number if c.universe is not None else None))
        except Exception as e:
            out.append("c%d!%s" % (c.number, exc_name(e)))
    for s in pr.surfaces:
        try:
            out.append("s%d %s %s tr=%s per=%s" % (
                s.number, s.surface_type.name, canon(list(s.surface_constants)),
                s.transform.number if s.transform is not None else None,
                s.periodic_surface.number if s.periodic_surface is not None else None))
        except Exception as e:
            out.append("s%d!%s" % (s.number, exc_name(e)))
    for m in pr.materials:
        try:
            out.append("m%d %s" % (m.number, canon([(str(k), v.fraction) for k, v in m.material_components.items()])))
        except Exception as e:
            out.append("m%d!%s" % (m.number, exc_name(e)))
    for t in pr.transforms:
        try:
            out.append("t%d %s %s" % (t.number, canon(t.displacement_vector), canon(t.rotation_matrix)))
        except Exception as e:
            out.append("t%d!%s" % (t.number, exc_name(e)))
    # what every object says about itself (str / repr / mcnp_str), addresses removed
    for m in pr.materials:
        try:
            for iso, comp in m.material_components.items():
                out.append("m%d iso %s lib=%s str=%s frac=%s" % (m.number, iso.mcnp_str(), iso.library, str(iso),
                                                                 canon(comp.fraction)))
        except Exception as e:
            out.append("m%d iso!%s" % (m.number, exc_name(e)))
    for kind, coll in (("c", pr.cells), ("s", pr.surfaces), ("m", pr.materials), ("t", pr.transforms),
                       ("u", pr.universes), ("d", pr.data_inputs)):
        for o in coll:
            for fn in (str, repr):
                try:
                    out.append("%s %s" % (kind, _ADDR.sub("0x", fn(o))))
                except Exception as e:
                    out.append("%s %s!%s" % (kind, fn.__name__, exc_name(e)))
    return out


def write_bytes(pr, d, name, version):
    p = os.path.join(d, name)
    pr.mcnp_version = tuple(version)
    pr.write_to_file(p, overwrite=True)
    with open(p, "rb") as fh:
        return fh.read().hex()


def read_text(d, name, text, version=None):
    import montepy
    p = os.path.join(d, name)
    with open(p, "w", newline="") as fh:
        fh.write(text)
    if version is None:
        return montepy.read_input(p)
    return montepy.read_input(p, mcnp_version=tuple(version))


def make_pool():
    """scratch objects of many classes, for generated-setter calls on objects of no problem"""
    import montepy
    from montepy.input_parser.mcnp_input import Input
    from montepy.input_parser.block_type import BlockType
    from montepy.surfaces.surface_builder import surface_builder
    from montepy.data_inputs.material import Material
    from montepy.data_inputs.transform import Transform
    from montepy.universe import Universe
    pool = {}

    def surf(line):
        return surface_builder(Input([line], BlockType.SURFACE))
    pool["AxisPlane"] = [surf("901 px 1"), surf("902 pz 2")]
    pool["GeneralPlane"] = [surf("903 p 1 0 0 1"), surf("904 p 0 1 0 2")]
    pool["CylinderOnAxis"] = [surf("905 cz 1"), surf("906 cx 2")]
    pool["CylinderParAxis"] = [surf("907 c/z 0 0 1"), surf("908 c/x 1 1 2")]
    pool["Surface"] = [surf("909 so 5"), surf("910 sx 1 2")]
    pool["Cell"] = [montepy.Cell(), montepy.Cell()]
    pool["Material"] = [Material(Input(["m901 1001.80c 1.0"], BlockType.DATA)),
                        Material(Input(["m902 8016.80c 1.0"], BlockType.DATA))]
    pool["Transform"] = [Transform(Input(["tr901 0 0 1"], BlockType.DATA)),
                         Transform(Input(["tr902 1 0 0"], BlockType.DATA))]
    pool["Universe"] = [Universe(901), Universe(902)]
    a, b = pool["AxisPlane"]
    pool["UnitHalfSpace"] = [+a, -b]
    pool["HalfSpace"] = [(+a) & (-b), (-a) | (+b)]
    for c in pool["Cell"]:
        pass
    pool["int"] = [3, 7]
    pool["float"] = [1.5, 2.5]
    pool["str"] = ["x", "y"]
    pool["bool"] = [True, False]
    pool["NoneType"] = [None, None]
    return pool


BUILTIN_VALS = ["int", "float", "str", "bool", "NoneType"]


def prop_owner_instances(pool, owner):
    """pool class names whose instances have the property of class `owner`"""
    import montepy
    out = []
    for cn, objs in pool.items():
        if cn in BUILTIN_VALS:
            continue
        o = objs[0]
        if owner in [k.__name__ for k in type(o).__mro__]:
            out.append(cn)
    return out


def closure_cell(obj_or_cls, prop, var="types"):
    cls = obj_or_cls if isinstance(obj_or_cls, type) else type(obj_or_cls)
    for k in cls.__mro__:
        p = k.__dict__.get(prop)
        if isinstance(p, property) and p.fset is not None and p.fset.__closure__:
            names = p.fset.__code__.co_freevars
            if var in names:
                return p.fset.__closure__[names.index(var)].cell_contents
    return "<no-cell>"


def latch_name(v):
    if isinstance(v, type):
        return v.__name__
    return "-"


def genset(obj, prop, val):
    """one generated-setter call: 'accept' | 'reject' (the TypeError of the generated type check) | other class"""
    try:
        setattr(obj, prop, val)
        return "accept"
    except TypeError as e:
        if "must be of type" in str(e):
            return "reject"
        return "accept:TypeError"
    except Exception as e:
        return "accept:" + exc_name(e)


# ----------------------------------------------------------------------------------------------
# the generated table in the live process: snapshot, poison, entry discovery
# ----------------------------------------------------------------------------------------------
TABLE = None      # set by the parent before it forks (children inherit it)


class LiveTable:
    def __init__(self, res):
        self.res = res
        self.sites = []
        db = res.db
        for row in res.rows:
            s = row.site
            d = {"id": s.id, "name": s.name, "kind": s.kind, "status": row.status, "ext": bool(s.extra.get("ext")),
                 "resolver": None}
            if s.extra.get("dynamic") and s.attr == "<setattr>":
                pass
            elif s.kind in ("KModGlobal",):
                d["resolver"] = ("mod", s.mod.name, s.attr)
            elif s.kind in ("KClassAttr", "KSingleton") and s.cls is not None:
                d["resolver"] = ("cls", s.cls.mod.name, s.cls.name, s.attr)
            elif s.kind == "KInstAttr":
                d["resolver"] = ("inst", [(h.cls.mod.name, h.cls.name, h.attr) for h in s.holders], s.attr)
            elif s.kind == "KDefaultArg" and s.owner is not None and s.owner.parent is None:
                f = s.owner
                d["resolver"] = ("default", f.mod.name, (f.cls.name if f.cls is not None else None), f.name, s.attr)
            elif s.kind == "KClosure" and "." in s.extra.get("app", ""):
                cn, pn = s.extra["app"].split(".", 1)
                c = db.classes.get(cn)
                if c is not None:
                    d["resolver"] = ("closure", c.mod.name, cn, pn, s.attr)
            self.sites.append(d)
        self.by_first_line = {}
        for f in db.funcs:
            n = f.node
            if hasattr(n, "decorator_list"):
                first = min([x.lineno for x in n.decorator_list] + [n.lineno])
                self.by_first_line[(f.mod.rel, first)] = f
        self.closure_site = {}
        for row in res.rows:
            s = row.site
            if s.kind == "KClosure":
                self.closure_site[s.extra["app"]] = s
        self.site_index = {row.site: row.site.id for row in res.rows}

    def may_write_ids(self, func):
        return {self.site_index[s] for s in self.res.su.may_w.get(func, ()) if s in self.site_index}


ABSENT = "<absent>"


def _resolve(d):
    import importlib
    r = d["resolver"]
    if r is None:
        return None
    try:
        if r[0] == "mod":
            m = importlib.import_module(r[1])
            return [("mod", m, r[2])]
        if r[0] == "cls":
            m = importlib.import_module(r[1])
            c = getattr(m, r[2])
            a = r[3]
            if a.startswith("__") and not a.endswith("__"):
                a = "_" + r[2].lstrip("_") + a
            return [("attr", c, a)]
        if r[0] == "inst":
            out = []
            for (mn, cn, an) in r[1]:
                m = importlib.import_module(mn)
                inst = getattr(getattr(m, cn), an)
                out.append(("attr", inst, r[2]))
            return out
        if r[0] == "closure":
            m = importlib.import_module(r[1])
            return [("closure", getattr(m, r[2]), r[3], r[4])]
        if r[0] == "default":
            import inspect
            m = importlib.import_module(r[1])
            holder = getattr(m, r[2]) if r[2] else m
            fn = holder.__dict__.get(r[3]) if r[2] else getattr(m, r[3])
            fn = getattr(fn, "__func__", fn)
            fn = getattr(fn, "fget", fn)
            sig = inspect.signature(fn)
            return [("value", sig.parameters[r[4]].default)]
    except Exception:
        return None
    return None


def site_values(d):
    locs = _resolve(d)
    if locs is None:
        return None
    vals = []
    for loc in locs:
        if loc[0] == "mod":
            vals.append(getattr(loc[1], loc[2], ABSENT))
        elif loc[0] == "attr":
            o = loc[1]
            if isinstance(o, type):
                vals.append(o.__dict__.get(loc[2], getattr(o, loc[2], ABSENT)))
            else:
                vals.append(getattr(o, "__dict__", {}).get(loc[2], ABSENT))
        elif loc[0] == "value":
            vals.append(loc[1])
        else:
            vals.append(closure_cell(loc[1], loc[2], loc[3]))
    return vals


def snapshot():
    out = {}
    for d in TABLE.sites:
        v = site_values(d)
        if v is None:
            continue
        if d["kind"] == "KSingleton":
            out[d["id"]] = ",".join(str(id(x)) for x in v)       # identity of the bound instance
        elif d["name"].endswith(".tokens") and d["kind"] == "KInstAttr":
            out[d["id"]] = ",".join("set" if x is not ABSENT else ABSENT for x in v)   # a generator object
        else:
            out[d["id"]] = ";".join(canon(x) for x in v)
    return out


class Junk:
    """poison value: anything that reads it before resetting it fails or changes its result"""

    def __repr__(self):
        return "<C17 junk>"


def poison_sites(only_ids=None):
    """overwrite every site the table claims nobody reads before resetting it; returns the poisoned ids"""
    from collections import deque
    done = []
    for d in TABLE.sites:
        if d["status"] not in ("SKillFirst", "SUnread") and not (d["ext"] and d["status"] == "SDirty"):
            continue
        if d["kind"] not in ("KModGlobal", "KClassAttr", "KInstAttr"):
            continue
        if only_ids is not None and d["id"] not in only_ids:
            continue
        locs = _resolve(d)
        if not locs:
            continue
        for loc in locs:
            if loc[0] not in ("mod", "attr"):
                continue
            if loc[0] == "mod":
                holder, attr = loc[1], loc[2]
                cur = getattr(holder, attr, ABSENT)
            else:
                holder, attr = loc[1], loc[2]
                cur = holder.__dict__.get(attr, ABSENT) if not isinstance(holder, type) else getattr(holder, attr, ABSENT)
            if cur is ABSENT:
                continue      # never created yet in this process: nothing to overwrite
            if isinstance(cur, bool):
                new = not cur
            elif isinstance(cur, int):
                new = cur + 7
            elif isinstance(cur, deque):
                from montepy.input_parser.block_type import BlockType
                new = deque([(BlockType.DATA, "c17_no_such_file.i", "/nonexistent/c17.i")])
            elif isinstance(cur, list):
                if attr == "_parse_fail_queue":
                    new = [{"message": "C17 junk", "token": None, "line": 0, "index": 0}]
                else:
                    new = [Junk(), Junk()]
            elif isinstance(cur, dict):
                new = {Junk(): Junk()}
            elif isinstance(cur, set):
                new = {Junk()}
            else:
                new = Junk()
            try:
                setattr(holder, attr, new)
                done.append(d["id"])
            except Exception:
                pass
    return sorted(set(done))


class EntrySpy:
    """records the MontePy functions called directly from outside MontePy during one operation"""

    def __init__(self):
        import montepy
        self.root = os.path.dirname(os.path.realpath(montepy.__file__)) + os.sep
        self.sly = os.sep + "sly" + os.sep
        self.seen = []

    def __call__(self, frame, event, arg):
        if event != "call":
            return
        code = frame.f_code
        fn = code.co_filename
        if not fn.startswith(self.root):
            return
        back = frame.f_back
        if back is not None:
            bf = back.f_code.co_filename
            if bf.startswith(self.root) or self.sly in bf:
                return
        rel = fn[len(self.root):]
        key = (rel, code.co_firstlineno)
        extra = None
        if code.co_name in ("setter", "getter", "deleter") and rel == "utilities.py":
            func = frame.f_locals.get("func")
            slf = frame.f_locals.get("self")
            if func is not None and slf is not None:
                for k in type(slf).__mro__:
                    p = k.__dict__.get(func.__name__)
                    if isinstance(p, property):
                        extra = k.__name__ + "." + func.__name__
                        break
        self.seen.append((key, extra))

    def start(self):
        self.seen = []
        sys.setprofile(self)

    def stop(self):
        sys.setprofile(None)
        return self.seen


def allowed_writes(seen):
    ids = set()
    names = []
    for key, extra in seen:
        f = TABLE.by_first_line.get(key)
        if f is None:
            names.append("?%s:%d" % key)
            continue
        names.append(f.qual if extra is None else "set:" + extra)
        ids |= TABLE.may_write_ids(f)
        if extra is not None:
            s = TABLE.closure_site.get(extra)
            if s is not None and s.extra.get("live_write"):
                ids.add(s.id)
    return ids, names


# ----------------------------------------------------------------------------------------------
# API calls that take containers: the SAME argument object is given to A and to another problem
# ----------------------------------------------------------------------------------------------
def _particles(names):
    from montepy.particle import Particle
    return {Particle(n.upper()) for n in names}


def arg_make(api, spec):
    """the caller's container, built from a JSON-able spec"""
    import numpy as np
    if api == "mode":
        return _particles(spec)
    if api in ("displacement", "rotation"):
        return np.array([float(x) for x in spec])
    if api == "cell_parameters":
        return dict(spec)
    return list(spec)


def _first(it, pred=lambda x: True):
    for x in it:
        if pred(x):
            return x
    return None


def arg_apply(api, pr, obj):
    """hand the caller's container to the problem through its public API; 'skipped' when the problem has no target"""
    import montepy
    if api == "mode":
        pr.set_mode(obj)
        return "ok"
    if api == "surface_constants":
        s = _first(pr.surfaces, lambda x: len(x.surface_constants) == len(obj))
        if s is None:
            return "skipped"
        s.surface_constants = obj
        return "ok"
    if api == "coordinates":
        s = _first(pr.surfaces, lambda x: type(x).__name__ == "CylinderParAxis")
        if s is None:
            return "skipped"
        s.coordinates = obj
        return "ok"
    if api in ("displacement", "rotation"):
        t = _first(pr.transforms)
        if t is None:
            return "skipped"
        if api == "displacement":
            t.displacement_vector = obj
        else:
            t.rotation_matrix = obj
        return "ok"
    if api == "tsl":
        m = _first(pr.materials, lambda x: x.thermal_scattering is not None)
        if m is None:
            return "skipped"
        m.thermal_scattering.thermal_scattering_laws = obj
        return "ok"
    if api == "cell_parameters":
        c = _first(pr.cells)
        c.parameters = obj
        return "ok"
    raise ValueError(api)


def arg_inplace(api, pr):
    """the other problem edits what it was given, in place, through its own API"""
    from montepy.particle import Particle
    if api == "mode":
        for part in (Particle.PHOTON, Particle.ELECTRON, Particle.NEUTRON, Particle.PROTON):
            if part not in pr.mode.particles:
                pr.mode.add(part)
                return "ok"
        return "skipped"
    if api == "surface_constants":
        s = _first(pr.surfaces, lambda x: len(x.surface_constants) > 0)
        if s is None:
            return "skipped"
        s.surface_constants[0] = 77.25
        return "ok"
    if api == "coordinates":
        s = _first(pr.surfaces, lambda x: type(x).__name__ == "CylinderParAxis")
        if s is None:
            return "skipped"
        s.coordinates[0] = 3.125
        return "ok"
    if api in ("displacement", "rotation"):
        t = _first(pr.transforms)
        if t is None:
            return "skipped"
        if api == "displacement":
            t.displacement_vector[0] = 41.5
        else:
            t.rotation_matrix[0] = 0.25
        return "ok"
    if api == "tsl":
        m = _first(pr.materials, lambda x: x.thermal_scattering is not None)
        if m is None:
            return "skipped"
        m.thermal_scattering.add_scattering_law("poly.01t")
        return "ok"
    if api == "cell_parameters":
        c = _first(pr.cells)
        c.parameters["C17"] = 1
        return "ok"
    raise ValueError(api)


def arg_caller_mutates(api, obj):
    """the caller changes its own container after the call"""
    from montepy.particle import Particle
    if api == "mode":
        obj.add(Particle.ELECTRON if Particle.ELECTRON not in obj else Particle.PROTON)
    elif api in ("displacement", "rotation"):
        obj[0] = obj[0] + 0.5
    elif api == "cell_parameters":
        obj["C17x"] = 2
    elif api == "tsl":
        obj.append("grph.20t")
    else:
        obj[0] = obj[0] + 1.5
    return "ok"


ARG_SPECS = {
    "mode": lambda rng, meta: sorted(rng.sample(meta["particles"], rng.randint(1, len(meta["particles"])))),
    "surface_constants": lambda rng, meta: [rng.choice([2.5, 4.0, 7.75])] * rng.choice([1, 1, 3, 4]),
    "coordinates": lambda rng, meta: [rng.choice([1.5, 2.0]), rng.choice([0.5, 3.0])],
    "displacement": lambda rng, meta: [rng.choice([1.0, 2.5]), 0.0, rng.choice([-3.0, 4.0])],
    "rotation": lambda rng, meta: [1.0, 0.0, 0.0, 0.0, 1.0, 0.0, 0.0, 0.0, 1.0],
    "tsl": lambda rng, meta: [rng.choice(["lwtr.10t", "grph.20t"])],
    "cell_parameters": lambda rng, meta: {},
}


def value_edit(pr, op):
    """edit a value object reachable from the problem, in place: isotope library, component fraction, transform
    array element, mode particle, universe number"""
    from montepy.particle import Particle
    what = op["what"]
    if what == "isolib":
        mats = list(pr.materials)
        if not mats:
            return "skipped"
        m = mats[op["i"] % len(mats)]
        isos = list(m.material_components)
        if not isos:
            return "skipped"
        isos[op["j"] % len(isos)].library = op["lib"]
        return "ok"
    if what == "fraction":
        mats = list(pr.materials)
        if not mats:
            return "skipped"
        comps = list(mats[op["i"] % len(mats)].material_components.values())
        if not comps:
            return "skipped"
        comps[op["j"] % len(comps)].fraction = op["value"]
        return "ok"
    if what == "trarray":
        trs = list(pr.transforms)
        if not trs:
            return "skipped"
        trs[op["i"] % len(trs)].displacement_vector[op["j"] % 3] = op["value"]
        return "ok"
    if what == "modeadd":
        for part in (Particle.PHOTON, Particle.ELECTRON, Particle.PROTON):
            if part not in pr.mode.particles:
                pr.mode.add(part)
                return "ok"
        return "skipped"
    if what == "universe":
        us = [u for u in pr.universes if u.number != 0]
        if not us:
            return "skipped"
        us[op["i"] % len(us)].number = op["num"]
        return "ok"
    raise ValueError(what)


def gen_value_edit(rng):
    what = rng.choice(["isolib", "isolib", "isolib", "fraction", "trarray", "modeadd", "universe"])
    return {"what": what, "i": rng.randrange(6), "j": rng.randrange(6), "lib": rng.choice(["70c", "00c", "31c", "81c"]),
            "value": rng.choice([0.125, 3.5, 9.25]), "num": rng.randint(300, 900)}


# ----------------------------------------------------------------------------------------------
# scenarios: a program on problem A, interleaved (or not) with operations on other things
# ----------------------------------------------------------------------------------------------
def sha(x):
    import hashlib
    return hashlib.sha1(x.encode() if isinstance(x, str) else x).hexdigest()[:16]


class Scenario:
    def __init__(self, case, arm):
        self.case = case
        self.arm = arm
        self.dir = child_tmp()
        self.slots = {}
        self.A = None
        self.pool = None
        self.monitor = []
        self.entry_names = {}
        self.spy = EntrySpy() if arm == "monitor" else None
        self.poisoned = set()
        self.last_bytes = None
        self.args = {}

    # ---- one guarded operation
    def guarded(self, label, fn):
        if self.arm == "poison":
            self.poisoned |= set(poison_sites())
        if self.arm != "monitor":
            try:
                return fn()
            except Exception as e:
                return "exc:" + exc_name(e)
        before = snapshot()
        self.spy.start()
        try:
            r = fn()
        except Exception as e:
            r = "exc:" + exc_name(e)
        finally:
            seen = self.spy.stop()
        after = snapshot()
        changed = [k for k in after if after[k] != before.get(k)]
        if changed:
            ids, names = allowed_writes(seen)
            bad = [k for k in changed if k not in ids]
            if bad:
                self.monitor.append({"op": label, "entries": sorted(set(names))[:8],
                                     "sites": [TABLE.sites[k]["name"] for k in bad],
                                     "before": [before.get(k, "")[:120] for k in bad],
                                     "after": [after[k][:120] for k in bad]})
        for key, extra in seen:
            f = TABLE.by_first_line.get(key)
            n = (f.qual if f is not None else "?%s:%d" % key) if extra is None else "set:" + extra
            self.entry_names[n] = self.entry_names.get(n, 0) + 1
        return r

    # ---- A's steps
    def a_step(self, st):
        import copy
        k = st["s"]
        A = self.A
        if k == "read":
            def f():
                pr = read_text(self.dir, "A.i", self.case["A"]["text"])
                self.A = Slot(pr)
                return "ok"
            return self.guarded("A.read", f)
        if k == "construct":
            def f():
                import montepy
                p = os.path.join(self.dir, "A.i")
                with open(p, "w", newline="") as fh:
                    fh.write(self.case["A"]["text"])
                self.pending = montepy.MCNP_Problem(p)
                return "ok"
            return self.guarded("A.construct", f)
        if k == "parse":
            def f():
                self.pending.parse_input()
                self.A = Slot(self.pending)
                return "ok"
            return self.guarded("A.parse", f)
        if A is None:
            return "noproblem"
        pr, h = A.pr, A.h
        if k == "edit":
            def f():
                ok, _ = ED.apply(h, st["e"])
                return "applied" if ok else "skipped"
            return self.guarded("A.edit:" + st["e"]["kind"], f)
        if k == "periodic":
            def f():
                return genset(h.surfaces[st["a"]], "periodic_surface", h.surfaces[st["b"]])
            return self.guarded("A.periodic", f)
        if k == "geom":
            def f():
                c = h.cells[st["cell"]]
                s = h.surfaces[st["surf"]]
                hs = +s if st["side"] else -s
                if st["op"] == "and":
                    c.geometry &= hs
                else:
                    c.geometry |= hs
                return str(c.geometry)
            return self.guarded("A.geom", f)
        if k == "settr":
            def f():
                return genset(h.surfaces[st["surf"]], "transform", h.transforms[st["tr"]])
            return self.guarded("A.settr", f)
        if k == "newcell":
            def f():
                import montepy
                c = montepy.Cell()
                c.number = st["num"]
                c.geometry = -h.surfaces[st["surf"]]
                pr.cells.append(c)
                for part in pr.mode.particles:
                    c.importance[part] = 1.0
                return "ok"
            return self.guarded("A.newcell", f)
        if k == "copyedit":
            def f():
                C = copy.deepcopy(pr)
                hc = handles_like(h, pr, C)
                ED.apply(hc, st["e"])
                return sha(write_bytes(C, self.dir, "Acopy.i", st.get("version", (6, 2, 0))))
            return self.guarded("A.copyedit", f)
        if k == "argset":
            def f():
                obj = self.args.setdefault(st["key"], arg_make(st["api"], st["spec"]))
                return arg_apply(st["api"], pr, obj)
            return self.guarded("A.argset:" + st["api"], f)
        if k == "valedit":
            return self.guarded("A.valedit:" + st["op"]["what"], lambda: value_edit(pr, st["op"]))
        if k == "copykeep":
            def f():
                self.kept = (pickle.loads(pickle.dumps(pr)) if st.get("how") == "pickle" else copy.deepcopy(pr))
                self.kept_bytes = write_bytes(self.kept, self.dir, "Akept.i", st.get("version", (6, 2, 0)))
                self.kept_obs = "\n".join(observe_problem(self.kept))
                return sha(self.kept_bytes)
            return self.guarded("A.copykeep", f)
        if k == "copycheck":
            def f():
                if getattr(self, "kept", None) is None:
                    return "nocopy"
                b = write_bytes(self.kept, self.dir, "Akept.i", st.get("version", (6, 2, 0)))
                o = "\n".join(observe_problem(self.kept))
                return "stable" if (b == self.kept_bytes and o == self.kept_obs) else "COPY-CHANGED"
            return self.guarded("A.copycheck", f)
        if k == "pickle":
            def f():
                C = pickle.loads(pickle.dumps(pr))
                hc = handles_like(h, pr, C)
                ED.apply(hc, st["e"])
                return sha(write_bytes(C, self.dir, "Apickle.i", st.get("version", (6, 2, 0))))
            return self.guarded("A.pickle", f)
        if k == "observe":
            return self.guarded("A.observe", lambda: sha("\n".join(observe_problem(pr))))
        if k == "write":
            def f():
                b = write_bytes(pr, self.dir, "Aout.i", st["version"])
                self.last_bytes = b
                return sha(b)
            return self.guarded("A.write", f)
        raise ValueError(k)

    # ---- operations on other things
    def noise(self, op):
        import copy
        import montepy
        k = op["n"]
        if k == "read":
            def f():
                self.slots[op["slot"]] = Slot(read_text(self.dir, "N%d.i" % op["slot"], op["text"]))
                return "ok"
            return self.guarded("N.read", f)
        if k == "badread":
            def f():
                read_text(self.dir, "Nbad.i", op["text"])
                return "ok"
            return self.guarded("N.badread", f)
        if k == "genset":
            if self.pool is None:
                self.pool = make_pool()
            cn = op["prop"].split(".")[1]
            obj = self.pool[op["self"]][0]
            val = self.pool[op["val"]][1]
            return self.guarded("N.genset:" + op["prop"], lambda: genset(obj, cn, val))
        if k == "badobj":
            def f():
                from montepy.input_parser.mcnp_input import Input
                from montepy.input_parser.block_type import BlockType
                if op["block"] == "cell":
                    montepy.Cell(Input([op["line"]], BlockType.CELL))
                elif op["block"] == "surface":
                    from montepy.surfaces.surface_builder import surface_builder
                    surface_builder(Input([op["line"]], BlockType.SURFACE))
                else:
                    from montepy.data_inputs.data_parser import parse_data
                    parse_data(Input([op["line"]], BlockType.DATA))
                return "ok"
            return self.guarded("N.badobj", f)
        if k == "new":
            def f():
                self.pool = make_pool()
                return "ok"
            return self.guarded("N.new", f)
        if k == "copyA":
            if self.A is None:
                return "noA"

            def f():
                self.slots[op["slot"]] = Slot(copy.deepcopy(self.A.pr))
                return "ok"
            return self.guarded("N.copyA", f)
        if k == "arg_caller":
            obj = self.args.get(op["key"])
            if obj is None:
                return "noarg"
            return self.guarded("N.arg_caller:" + op["api"], lambda: arg_caller_mutates(op["api"], obj))
        sl = self.slots.get(op.get("slot"))
        if sl is None:
            return "noslot"
        if k == "argset":
            def f():
                obj = self.args.setdefault(op["key"], arg_make(op["api"], op["spec"]))
                return arg_apply(op["api"], sl.pr, obj)
            return self.guarded("N.argset:" + op["api"], f)
        if k == "arg_inplace":
            return self.guarded("N.arg_inplace:" + op["api"], lambda: arg_inplace(op["api"], sl.pr))
        if k == "valedit":
            return self.guarded("N.valedit:" + op["op"]["what"], lambda: value_edit(sl.pr, op["op"]))
        if k == "edit":
            def f():
                ok, _ = ED.apply(sl.h, op["e"])
                return "applied" if ok else "skipped"
            return self.guarded("N.edit:" + op["e"]["kind"], f)
        if k == "write":
            return self.guarded("N.write", lambda: sha(write_bytes(sl.pr, self.dir, "Nout%d.i" % op["slot"], op["version"])))
        if k == "observe":
            return self.guarded("N.observe", lambda: sha("\n".join(observe_problem(sl.pr))))
        if k == "copy":
            def f():
                self.slots[op["to"]] = Slot(copy.deepcopy(sl.pr))
                return "ok"
            return self.guarded("N.copy", f)
        if k == "geom":
            def f():
                cells = list(sl.pr.cells)
                surfs = list(sl.pr.surfaces)
                if not cells or not surfs:
                    return "skipped"
                c = cells[op["ci"] % len(cells)]
                s = surfs[op["si"] % len(surfs)]
                if op["op"] == "and":
                    c.geometry &= +s
                else:
                    c.geometry |= -s
                return "ok"
            return self.guarded("N.geom", f)
        if k == "periodic":
            def f():
                surfs = list(sl.pr.surfaces)
                if len(surfs) < 1:
                    return "skipped"
                return genset(surfs[op["a"] % len(surfs)], "periodic_surface", surfs[op["b"] % len(surfs)])
            return self.guarded("N.periodic", f)
        raise ValueError(k)

    def run(self):
        out = []
        nout = []
        steps = self.case["A"]["steps"]
        gaps = self.case.get("noise", [])
        with_noise = self.arm in ("noisy", "monitor")
        try:
            for i, st in enumerate(steps):
                if with_noise and i < len(gaps):
                    for op in gaps[i]:
                        nout.append(self.noise(op))
                out.append(self.a_step(st))
            if with_noise and len(gaps) > len(steps):
                for op in gaps[len(steps)]:
                    nout.append(self.noise(op))
        finally:
            _cleanup(self.dir)
        return {"outcomes": out, "noise_outcomes": nout, "monitor": self.monitor[:5],
                "n_monitor": len(self.monitor), "entries": self.entry_names,
                "poisoned": sorted(self.poisoned), "bytes": self.last_bytes}


def run_scenario(case, arm):
    return Scenario(case, arm).run()


# ---- generation
BAD_OBJS = [("cell", ") 1.5 0 -1"), ("cell", "1 0 -1 ) ) ("), ("surface", "1 px 0 )"), ("data", "m5 1001.80c 1.0 )"),
            ("cell", "1.5 0 -1 )"), ("data", "tr1 0 0 x y"), ("surface", "1 zz 0")]


def corrupt(rng, text):
    """a file that fails to read: garbage in a card, an unbalanced parenthesis, a missing read target"""
    lines = text.split("\n")
    r = rng.random()
    body = [i for i, l in enumerate(lines) if i > 0 and l.strip() and not l.lower().startswith("c ")]
    if not body:
        return text + "\n) (\n"
    i = rng.choice(body)
    if r < 0.4:
        lines[i] = lines[i] + " ) ) ("
    elif r < 0.6:
        lines.insert(i, "read file=c17_missing_%d.i" % rng.randint(1, 99))
        lines[-2:-2] = [") 1.5 0 zz"]
    elif r < 0.8:
        lines[i] = "= " + lines[i]
    else:
        lines.insert(i, "read file=c17_missing_%d.i" % rng.randint(1, 99))
    return "\n".join(lines)


def add_long_comments(rng, text):
    """over-long comments: `c` comment lines and `$` comments that fit in 128 columns (the file is read as MCNP 6.2)
    but have to be wrapped when the problem is written for an 80-column version"""
    lines = text.split("\n")
    out = []
    blanks = 0
    started = False
    for i, l in enumerate(lines):
        if i == 0 or l.upper().startswith("MESSAGE") or (not started and not l.strip()):
            out.append(l)
            if l.strip() and not l.upper().startswith("MESSAGE") and (i == 0 or not lines[i - 1].strip()):
                started = True
            continue
        if not l.strip():
            blanks += 1
            out.append(l)
            continue
        is_c = l.lstrip().lower().startswith("c ") or l.strip().lower() == "c"
        first_col = l[:5].strip() != ""
        if first_col and not is_c and rng.random() < 0.12 and blanks < 3:
            words = " ".join("%s%02d" % (rng.choice(["word", "note", "tag"]), k) for k in range(rng.randint(11, 15)))
            out.append(("c " + words)[:rng.randint(90, 124)])
        if not is_c and "$" not in l and "&" not in l and rng.random() < 0.12 and len(l) < 70:
            words = " ".join("%s%02d" % (rng.choice(["text", "rem", "x"]), k) for k in range(14))
            l = (l + " $ " + words)[:rng.randint(95, 126)].rstrip()
        out.append(l)
    return "\n".join(out)


def gen_problem_text(rng, wide=False, extras=True, long_comments=None):
    P = gen.gen_problem(rng, dict(max_cells=rng.choice([4, 6, 6, 12]), depth=rng.choice([1, 2, 3]), extras=extras,
                                  message=False))
    L = gen.layout_opts(rng, wild=False, width=rng.choice([78, 78, 120]) if wide else 78)
    text = gen.render(rng, P, L)
    if long_comments is None:
        long_comments = wide and rng.random() < 0.5
    if long_comments:
        text = add_long_comments(rng, text)
    return text, P["meta"]


def gen_case(rng, latch_props, latch_rate=0.15):
    # (before fix 977aa06 problems with tally / sdef cards could not be deep-copied or pickled at all)
    text, meta = gen_problem_text(rng, wide=True, extras=rng.random() < 0.6)
    prog = ED.gen_program(rng, meta, n=rng.choice([1, 2, 3, 5]))
    steps = [{"s": "edit", "e": e} for e in prog]
    surfs = meta["surfaces"]
    cells = meta["cells"]
    extras = []
    for _ in range(rng.choice([0, 1, 2, 3])):
        r = rng.random()
        if r < 0.25 and len(surfs) >= 2:
            a, b = rng.sample(surfs, 2)
            extras.append({"s": "periodic", "a": a, "b": b})
        elif r < 0.5:
            extras.append({"s": "geom", "cell": rng.choice(cells), "op": rng.choice(["and", "or"]),
                           "surf": rng.choice(surfs), "side": rng.random() < 0.5})
        elif r < 0.6 and meta["transforms"]:
            extras.append({"s": "settr", "surf": rng.choice(surfs), "tr": rng.choice(meta["transforms"])})
        elif r < 0.7:
            extras.append({"s": "newcell", "num": rng.randint(200, 900), "surf": rng.choice(surfs)})
        elif r < 0.76:
            extras.append({"s": "valedit", "op": gen_value_edit(rng)})
        elif r < 0.82 and prog:
            extras.append({"s": "copyedit", "e": rng.choice(ED.gen_program(rng, meta, n=2) or prog),
                           "version": list(rng.choice(VERSIONS))})
        elif r < 0.9 and prog:
            extras.append({"s": "pickle", "e": rng.choice(prog), "version": list(rng.choice(VERSIONS))})
        else:
            extras.append({"s": "observe"})
    for x in extras:
        steps.insert(rng.randint(0, len(steps)), x)
    if rng.random() < 0.3:
        # a copy taken early must not change when the original is edited afterwards
        v = list(rng.choice(VERSIONS))
        steps.insert(0, {"s": "copykeep", "how": rng.choice(["deepcopy", "deepcopy", "pickle"]), "version": v})
        steps.append({"s": "copycheck", "version": v})
    # reading = constructing the problem, then parsing it: sometimes with unrelated operations in between
    steps = ([{"s": "read"}] if rng.random() < 0.7 else [{"s": "construct"}, {"s": "parse"}]) + steps
    # a container argument that the caller also hands to another problem / keeps using
    shared = None
    if rng.random() < 0.3:
        apis = [a for a in sorted(ARG_SPECS) if a not in ("displacement", "rotation") or meta["transforms"]]
        if meta["transforms"] and rng.random() < 0.4:
            apis = ["displacement", "rotation"]
        api = rng.choice(apis)
        shared = {"api": api, "key": "k0", "spec": ARG_SPECS[api](rng, meta)}
        pos = rng.randint(len(steps) - len([x for x in steps if x["s"] not in ("read", "construct", "parse")]), len(steps))
        steps.insert(pos, dict(shared, s="argset"))
        shared["after_step"] = pos
    if rng.random() < 0.8 or shared is not None:
        steps.append({"s": "observe"})
    steps.append({"s": "write", "version": list(rng.choice(VERSIONS))})
    if rng.random() < 0.3:
        steps.append({"s": "write", "version": list(rng.choice(VERSIONS))})
    # ---- the unrelated history
    ntexts = []
    for k in range(rng.choice([1, 1, 2])):
        ntexts.append(gen_problem_text(rng, wide=True))
    gaps = []
    latch_noise = rng.random() < latch_rate
    unread = set(range(len(ntexts))) if rng.random() < 0.85 else set()
    for g in range(len(steps) + 1):
        ops = []
        for _ in range(rng.choice([0, 0, 1, 1, 2, 3]) if g else rng.choice([0, 1, 2, 4])):
            r = rng.random()
            slot = rng.randrange(len(ntexts))
            if r < 0.16:
                ops.append({"n": "read", "slot": slot, "text": ntexts[slot][0]})
            elif r < 0.28:
                ops.append({"n": "badread", "text": corrupt(rng, ntexts[slot][0])})
            elif r < 0.44:
                p2 = ED.gen_program(rng, ntexts[slot][1], n=1)
                if p2:
                    ops.append({"n": "edit", "slot": slot, "e": p2[0]})
            elif r < 0.58:
                ops.append({"n": "write", "slot": slot, "version": list(rng.choice(VERSIONS))})
            elif r < 0.61:
                ops.append({"n": "observe", "slot": slot})
            elif r < 0.64:
                ops.append({"n": "valedit", "slot": slot, "op": gen_value_edit(rng)})
            elif r < 0.70:
                b = rng.choice(BAD_OBJS)
                ops.append({"n": "badobj", "block": b[0], "line": b[1]})
            elif r < 0.75:
                ops.append({"n": "new"})
            elif r < 0.80:
                ops.append({"n": "copy", "slot": slot, "to": slot + 10})
            elif r < 0.86:
                ops.append({"n": "copyA", "slot": 20 + rng.randrange(2)})
                p2 = ED.gen_program(rng, meta, n=1)
                if p2:
                    ops.append({"n": "edit", "slot": ops[-1]["slot"], "e": p2[0]})
                for _ in range(rng.choice([1, 2, 3])):
                    ops.append({"n": "valedit", "slot": ops[-1]["slot"], "op": gen_value_edit(rng)})
            elif r < 0.92:
                ops.append({"n": "geom", "slot": slot, "ci": rng.randrange(8), "si": rng.randrange(8),
                            "op": rng.choice(["and", "or"])})
            elif r < 0.96:
                # valid-looking setter calls on non-latching declarations of scratch objects
                ops.append({"n": "genset", "prop": "Surface.transform", "self": rng.choice(["AxisPlane", "Surface"]),
                            "val": rng.choice(["Transform", "int"])})
            elif latch_noise and latch_props:
                p = rng.choice(latch_props)
                if p.startswith("Surface."):
                    c = rng.choice(["AxisPlane", "GeneralPlane", "CylinderOnAxis", "Surface"])
                    ops.append({"n": "genset", "prop": p, "self": c, "val": c})
                else:
                    c = rng.choice(["UnitHalfSpace", "HalfSpace"])
                    ops.append({"n": "genset", "prop": p, "self": c, "val": c})
        if shared is not None and g > shared["after_step"] and rng.random() < 0.7:
            slot = rng.randrange(len(ntexts))
            r = rng.random()
            if r < 0.45:
                ops.append({"n": "argset", "slot": slot, "api": shared["api"], "key": shared["key"], "spec": shared["spec"]})
                ops.append({"n": "arg_inplace", "slot": slot, "api": shared["api"]})
            elif r < 0.7:
                ops.append({"n": "argset", "slot": slot, "api": shared["api"], "key": shared["key"], "spec": shared["spec"]})
            else:
                ops.append({"n": "arg_caller", "api": shared["api"], "key": shared["key"]})
        if g > 0 and rng.random() < 0.25:
            ops.append({"n": "valedit", "slot": rng.randrange(len(ntexts)), "op": gen_value_edit(rng)})
        if unread and (g == 0 or rng.random() < 0.5):
            k = unread.pop()
            ops.insert(0, {"n": "read", "slot": k, "text": ntexts[k][0]})
        if latch_noise and g == 0 and latch_props and rng.random() < 0.5:
            ops.append({"n": "periodic", "slot": 0, "a": rng.randrange(6), "b": rng.randrange(6)})
        gaps.append(ops)
    return {"kind": "history", "A": {"text": text, "steps": steps}, "noise": gaps}


def compare_arms(base, other):
    """first difference between what A reports alone and after/among unrelated operations"""
    if "__crash__" in base or "__crash__" in other:
        return {"crash": (base.get("__crash__") or other.get("__crash__"))[-600:]}
    for i, (a, b) in enumerate(zip(base["outcomes"], other["outcomes"])):
        if a != b:
            return {"step": i, "alone": a, "with_history": b}
    if base["bytes"] != other["bytes"]:
        return {"step": "bytes", "alone": (base["bytes"] or "")[:80], "with_history": (other["bytes"] or "")[:80]}
    return None


# ----------------------------------------------------------------------------------------------
# correspondence R: read_input, reading_queue, the shared parser log  vs  Iso.read_file
# ----------------------------------------------------------------------------------------------
def card_line(c):
    if c[0] == "g":
        return "%d 0 -1 imp:n=1" % c[1]
    if c[0] == "s":
        return "1 0 -1 ) ) ("
    if c[0] == "m":
        return ") 1.5 0 -1"
    return "read file=f%d.i" % c[1]


def card_tok(c):
    return {"g": "g%d" % c[1] if c[0] == "g" else "", "s": "s", "m": "m", "r": "r%d" % c[1] if c[0] == "r" else ""}[c[0]]


def gen_readq(rng):
    vals = rng.sample(range(2, 900), 40)

    used = set()

    def cards(n, targets):
        out = []
        for _ in range(n):
            r = rng.random()
            free = [t for t in targets if t not in used]
            if r < 0.55:
                out.append(["g", vals.pop()])
            elif r < 0.63:
                out.append(["s"])
            elif r < 0.70:
                out.append(["m"])
            elif free:
                t = rng.choice(free)
                used.add(t)            # a file is read at most once (twice = duplicate cell numbers)
                out.append(["r", t])
            else:
                out.append(["g", vals.pop()])
        return out
    nfiles = rng.choice([0, 1, 2, 3, 4])
    ids = list(range(1, nfiles + 1))
    files = {}
    for t in ids:
        higher = [u for u in ids if u > t] + ([rng.choice([7, 8])] if rng.random() < 0.15 else [])
        files[str(t)] = cards(rng.choice([0, 1, 2, 3]), higher)
    main = cards(rng.choice([1, 2, 3, 5]), ids + ([9] if rng.random() < 0.2 else []))
    return {"kind": "readq", "main": main, "files": files,
            "residue_q": [rng.choice([1, 2, 3, 9]) for _ in range(rng.choice([0, 0, 1, 2]))],
            "residue_log": rng.choice([0, 0, 1, 3])}


def real_readq(case):
    import montepy
    from collections import deque
    from montepy.input_parser import input_syntax_reader as isr
    from montepy.input_parser.parser_base import MCNP_Parser
    from montepy.input_parser.block_type import BlockType
    d = child_tmp()
    try:
        for t, cs in case["files"].items():
            with open(os.path.join(d, "f%s.i" % t), "w") as fh:
                fh.write("".join(card_line(c) + "\n" for c in cs))
        text = "c17 readq\n" + "".join(card_line(c) + "\n" for c in case["main"]) + "\n1 so 5\n\nmode n\n\n"
        p = os.path.join(d, "main.i")
        with open(p, "w") as fh:
            fh.write(text)
        isr.reading_queue = deque((BlockType.CELL, "f%d.i" % t, p) for t in case["residue_q"])
        MCNP_Parser.log._parse_fail_queue = [{"message": "residue", "token": None, "line": 0, "index": 0}
                                             for _ in range(case["residue_log"])]
        try:
            pr = montepy.read_input(p)
            res = "ok " + (",".join(str(c.number) for c in pr.cells) or "-")
        except Exception as e:
            res = exc_name(e)
        q = [int(item[1][1:-2]) for item in isr.reading_queue]
        return {"result": res, "queue": q, "log": len(MCNP_Parser.log._parse_fail_queue)}
    finally:
        _cleanup(d)


def readq_request(case, flags):
    files = " ".join("%s=%s" % (t, ",".join(card_tok(c) for c in cs) or "-") for t, cs in sorted(case["files"].items()))
    return "readq %d %d %s %s 50 | %s | %s" % (
        flags[0], flags[1], ",".join(map(str, case["residue_q"])) or "-",
        ",".join("1" for _ in range(case["residue_log"])) or "-",
        ",".join(card_tok(c) for c in case["main"]) or "-", files)


def readq_compare(ans, real):
    """model answer 'result loaded / queue / log' vs the real observation"""
    try:
        res, q, lg = [x.strip() for x in ans.split("/")]
    except ValueError:
        return {"model": ans, "real": real}
    cls, loaded = res.split(" ")
    mres = "ok " + loaded if cls == "ok" else cls
    mq = [] if q == "-" else [int(x) for x in q.split(",")]
    ml = 0 if lg == "-" else len(lg.split(","))
    if mres != real["result"] or mq != real["queue"] or ml != real["log"]:
        return {"model": {"result": mres, "queue": mq, "log": ml}, "real": real}
    return None


# ----------------------------------------------------------------------------------------------
# correspondence S: generated setters  vs  Iso.accepts / latch_after
# ----------------------------------------------------------------------------------------------
def real_setter(case):
    # the call under test uses objects no earlier call has touched (its own pool): only UNRELATED history differs
    pool = make_pool()
    pool2 = make_pool()
    pn = case["prop"].split(".")[1]
    outs = []
    for sc, vc in case["hist"]:
        outs.append(genset(pool[sc][0], pn, pool[vc][1]))
    sc, vc = case["call"]
    pool = pool2
    r = genset(pool[sc][1], pn, pool[vc][0])
    cell = closure_cell(pool[sc][1], pn)
    return {"hist": outs, "call": r, "latch": latch_name(cell)}


def gen_setter(rng, props, owners):
    """props: list of (name, owner, latching, types); owners: owner class -> pool classes having the property"""
    name, owner, latching, types, self_typed = rng.choice(props)
    selfs = owners.get(owner) or []
    if not selfs:
        return None
    vals = selfs + BUILTIN_VALS + ["Transform", "Material", "Cell", "Universe", "HalfSpace", "UnitHalfSpace", "AxisPlane", "Surface"]
    hist = [[rng.choice(selfs), rng.choice(vals)] for _ in range(rng.choice([0, 1, 1, 2, 3]))]
    return {"kind": "setter", "prop": name, "hist": hist, "call": [rng.choice(selfs), rng.choice(vals)]}


def setter_request(case, props_by_name, class_anc):
    name = case["prop"]
    _, owner, latching, types, self_typed = props_by_name[name]
    names = set()
    for sc, vc in case["hist"] + [case["call"]]:
        names.add(sc)
        names.add(vc)
    cls = ";".join(">".join([n] + class_anc.get(n, [])) for n in sorted(names))
    hist = ";".join("%s:%s" % (a, b) for a, b in case["hist"])
    return "setter %d %d %s | %s | %s | %s:%s" % (1 if latching else 0, 1 if self_typed else 0, ",".join(types) or "-",
                                                 cls, hist, case["call"][0], case["call"][1])


# ----------------------------------------------------------------------------------------------
# correspondence C: copy.deepcopy  vs  Iso.copy_problem
# ----------------------------------------------------------------------------------------------
def real_copy(text):
    import copy
    d = child_tmp()
    try:
        pr = read_text(d, "c.i", text)

        def structure(p):
            import montepy
            objs = list(p.cells) + list(p.surfaces) + list(p.materials) + list(p.transforms)
            idx = {id(o): i for i, o in enumerate(objs)}
            rows = []
            foreign = 0
            for o in objs:
                ptrs = []
                if isinstance(o, montepy.Cell):
                    for s in o.surfaces:
                        ptrs.append(idx.get(id(s), -1))
                    if o.material is not None:
                        ptrs.append(idx.get(id(o.material), -1))
                elif isinstance(o, montepy.surfaces.surface.Surface):
                    if o.transform is not None:
                        ptrs.append(idx.get(id(o.transform), -1))
                    if o.periodic_surface is not None:
                        ptrs.append(idx.get(id(o.periodic_surface), -1))
                foreign += sum(1 for x in ptrs if x < 0)
                rows.append((o.number, [x for x in ptrs if x >= 0]))
            return objs, rows, foreign
        o1, r1, f1 = structure(pr)
        try:
            cp = copy.deepcopy(pr)
        except Exception as e:
            return {"error": exc_name(e) + ": " + str(e)[:80]}
        o2, r2, f2 = structure(cp)
        shared = len({id(o) for o in o1} & {id(o) for o in o2})
        # syntax-tree level sharing: any ValueNode object reachable from both
        def nodes(p):
            out = set()
            for o in list(p.cells) + list(p.surfaces) + list(p.data_inputs):
                t = getattr(o, "_tree", None)
                stack = [t]
                while stack:
                    n = stack.pop()
                    if n is None or id(n) in out:
                        continue
                    if hasattr(n, "nodes") or hasattr(n, "_nodes"):
                        out.add(id(n))
                        ch = getattr(n, "nodes", None)
                        if isinstance(ch, dict):
                            stack.extend(ch.values())
                        elif isinstance(ch, (list, tuple)):
                            stack.extend(x for x in ch if not isinstance(x, str))
            return out
        shared_nodes = len(nodes(pr) & nodes(cp))

        # value objects reachable from a problem (isotopes, components, arrays, universes, the mode's set)
        def values(p):
            out = {}
            for m in p.materials:
                for iso, comp in m.material_components.items():
                    out[id(iso)] = "Isotope %s of m%d" % (iso.mcnp_str(), m.number)
                    out[id(comp)] = "MaterialComponent of m%d" % m.number
            for t in p.transforms:
                out[id(t.displacement_vector)] = "displacement_vector of tr%d" % t.number
                out[id(t.rotation_matrix)] = "rotation_matrix of tr%d" % t.number
            for u in p.universes:
                out[id(u)] = "Universe %d" % u.number
            return out
        v1, v2 = values(pr), values(cp)
        shared_values = sorted(v1[k] for k in set(v1) & set(v2))
        # edit every value object of the COPY in place: the original must report and write the same
        before = (write_bytes(pr, d, "o0.i", (6, 2, 0)), "\n".join(observe_problem(pr)))
        edits_done = 0
        for i in range(8):
            for j in range(6):
                for what in ("isolib", "fraction", "trarray"):
                    try:
                        if value_edit(cp, {"what": what, "i": i, "j": j, "lib": "7%dc" % j, "value": 0.03125 * (i + j + 1)}) == "ok":
                            edits_done += 1
                    except Exception:
                        pass
        for what in ("modeadd", "universe"):
            try:
                value_edit(cp, {"what": what, "i": 0, "j": 0, "num": 951})
            except Exception:
                pass
        after = (write_bytes(pr, d, "o1.i", (6, 2, 0)), "\n".join(observe_problem(pr)))
        changed = None
        if before != after:
            a, b = before[1].split("\n"), after[1].split("\n")
            diff = [(x, y) for x, y in zip(a, b) if x != y][:2]
            changed = {"bytes_differ": before[0] != after[0], "reports": diff}
        return {"src": r1, "copy": r2, "foreign_src": f1, "foreign_copy": f2, "shared_objects": shared,
                "shared_nodes": shared_nodes, "shared_values": shared_values[:6], "copy_edits": edits_done,
                "original_changed": changed}
    finally:
        _cleanup(d)


def copy_request(rows):
    return "copy 1 0 1 | " + ";".join("%d:%s" % (v, "+".join("0.%d" % j for j in ptrs) or "-") for v, ptrs in rows)


def copy_expected(rows):
    return ";".join("%d:%s" % (v, "+".join("1.%d" % j for j in ptrs) or "-") for v, ptrs in rows) + " closed=1"


# ----------------------------------------------------------------------------------------------
# really fresh interpreters
# ----------------------------------------------------------------------------------------------
FRESH_SCRIPT = r"""
import json, sys, warnings
warnings.simplefilter("ignore")
import props.C17 as C
case = json.load(sys.stdin)
if case.get("kind") == "latch":
    print(json.dumps(C.latch_probe(case)))
else:
    print(json.dumps(C.run_scenario(case, "base")))
"""


def fresh_interpreter(case, timeout=120):
    env = dict(os.environ)
    env["PYTHONPATH"] = vlib.REPO + ":" + os.path.join(vlib.VERIF, "harness")
    env["PYTHONHASHSEED"] = "0"
    env["PYTHONDONTWRITEBYTECODE"] = "1"
    p = subprocess.run([vlib.PY, "-c", FRESH_SCRIPT], input=json.dumps(case), stdout=subprocess.PIPE,
                       stderr=subprocess.PIPE, text=True, timeout=timeout, env=env,
                       cwd=os.path.join(vlib.VERIF, "harness"))
    try:
        return json.loads(p.stdout.strip().split("\n")[-1])
    except Exception:
        return {"__crash__": (p.stderr or p.stdout)[-800:]}


def latch_probe(case):
    """one process: optional first call, then the call under test (generated setter of `prop`)"""
    pool = make_pool()
    pool2 = make_pool()
    pn = case["prop"].split(".")[1]
    outs = []
    for sc, vc in case["hist"]:
        outs.append(genset(pool[sc][0], pn, pool[vc][1]))
    sc, vc = case["call"]
    return {"hist": outs, "call": genset(pool2[sc][1], pn, pool2[vc][0])}


LATCH_WITNESS = {
    "Surface.periodic_surface": {"hist": [["AxisPlane", "AxisPlane"]], "call": ["Surface", "Surface"]},
    "HalfSpace.left": {"hist": [["UnitHalfSpace", "UnitHalfSpace"]], "call": ["HalfSpace", "HalfSpace"]},
    "HalfSpace.right": {"hist": [["UnitHalfSpace", "UnitHalfSpace"]], "call": ["HalfSpace", "HalfSpace"]},
}


def latch_reproduces(prop, fresh=True):
    """the finding's witness on the real code: the same call accepted in a fresh process, rejected after one
    earlier call on an instance of another class (two fresh interpreters)"""
    w = LATCH_WITNESS.get(prop)
    if w is None:
        return False, None
    alone = {"kind": "latch", "prop": prop, "hist": [], "call": w["call"]}
    after = {"kind": "latch", "prop": prop, "hist": w["hist"], "call": w["call"]}
    if fresh:
        a, b = fresh_interpreter(alone), fresh_interpreter(after)
    else:
        a, b = fork_map(latch_probe, [(alone,), (after,)])
    ok = ("call" in a and "call" in b and a["call"] != b["call"])
    return ok, {"alone": a, "after_history": b}


# ----------------------------------------------------------------------------------------------
# aliasing of caller-supplied containers: the witnesses of the open findings, on the real code
# ----------------------------------------------------------------------------------------------
ALIAS_TEXT = """c17 alias probe
1 1 -1.0 -1 2 imp:n=1 u=1
2 0 1 -3 imp:n=1 fill=1
3 0 3 imp:n=0

1 1 px 0
2 px 1
3 so 5

mode n
m1 1001.80c 1.0 8016.80c 0.5
tr1 0 0 1
nps 10

"""


def alias_probe(name):
    """two independently read problems A, B are given the SAME container; A edits it in place through its own API;
    returns what B reports/writes before and after (differ = the defect reproduces)"""
    import numpy as np
    import montepy
    d = child_tmp()
    try:
        A = read_text(d, "a.i", ALIAS_TEXT)
        B = read_text(d, "b.i", ALIAS_TEXT)

        def rep(pr):
            return sha(write_bytes(pr, d, "o.i", (6, 2, 0)) + "\n".join(observe_problem(pr)))
        if name == "transform":
            v = np.array([1.0, 2.0, 3.0])
            m = np.array([1.0, 0.0, 0.0, 0.0, 1.0, 0.0, 0.0, 0.0, 1.0])
            A.transforms[1].displacement_vector = v
            B.transforms[1].displacement_vector = v
            A.transforms[1].rotation_matrix = m
            B.transforms[1].rotation_matrix = m
            b0 = rep(B)
            A.transforms[1].displacement_vector[0] = 9.5
            b1 = rep(B)
            A.transforms[1].rotation_matrix[0] = 0.5
            return {"before": b0, "after": b1, "after2": rep(B)}
        if name == "cell_parameters":
            dd = {}
            A.cells[1].parameters = dd
            B.cells[1].parameters = dd
            b0 = rep(B)
            A.cells[1].parameters["C17"] = 1
            return {"before": b0, "after": rep(B)}
        if name == "fill_universes":
            fa, fb = A.cells[2].fill, B.cells[2].fill
            arr = np.empty((1, 1, 1), dtype=object)
            arr[0, 0, 0] = B.universes[1]
            fa.multiple_universes = True
            fb.multiple_universes = True
            fa.universes = arr
            fb.universes = arr
            b0 = canon([u.number if u is not None else None for u in fb.universes.flatten()])
            fa.universes[0, 0, 0] = None
            return {"before": b0, "after": canon([u.number if u is not None else None for u in fb.universes.flatten()])}
        if name == "collection_list":
            from montepy.cells import Cells
            objs = list(B.cells)
            c1, c2 = Cells(objs), Cells(objs)
            b0 = canon([c.number for c in c2])
            c = montepy.Cell()
            c.number = 99
            c1.append(c)
            return {"before": b0, "after": canon([x.number for x in c2])}
        raise ValueError(name)
    finally:
        _cleanup(d)


def alias_reproduces(name):
    r = fork_map(alias_probe, [(name,)])[0]
    if "__crash__" in r:
        return False, r
    return any(r[k] != r["before"] for k in r if k != "before"), r


# ----------------------------------------------------------------------------------------------
# the check
# ----------------------------------------------------------------------------------------------
def table_facts(res):
    rows = res.rows
    own_dirty = [r for r in rows if r.status == "SDirty" and not r.site.extra.get("ext")]
    ext_dirty = [r for r in rows if r.status == "SDirty" and r.site.extra.get("ext")]
    latch = [r.site.extra["app"] for r in own_dirty if r.site.kind == "KClosure" and "make_prop" in r.site.owner.name]
    alias = [r for r in own_dirty if r.site.kind == "KStoresArg"]
    own_dirty = [r for r in own_dirty if r.site.kind != "KStoresArg"]
    other = [r for r in own_dirty if not (r.site.kind == "KClosure" and "make_prop" in r.site.owner.name)]
    props = [(g["name"], g["owner"], g["latching"], g["types"], g["self_typed"]) for g in res.props]
    class_anc = {"bool": ["int"]}
    for n, c in res.db.classes.items():
        class_anc[n] = res.db.ancestors_names(c)
    kinds = {}
    stat = {}
    for r in rows:
        kinds[r.site.kind] = kinds.get(r.site.kind, 0) + 1
        stat[r.status] = stat.get(r.status, 0) + 1
    return {"alias": alias, "latch": latch, "other_dirty": other, "ext_dirty": ext_dirty, "props": props, "class_anc": class_anc,
            "kinds": kinds, "status": stat}


def why_dirty(res, row):
    """human readable evidence for a site that is not history free"""
    s = row.site
    ents = [(e.qual, sm) for e, sm, w in row.entries if sm in ("dirty", "swap")][:6]
    return {"site": s.name, "kind": s.kind, "line": s.lineno, "writers": row.live_w[:6], "readers": row.readers[:6],
            "entries_reading_residue": ents}


def shrink_history(case, failing):
    """drop noise operations, then A's steps, while the difference persists"""
    cur = json.loads(json.dumps(case))
    changed = True
    budget = 40
    while changed and budget > 0:
        changed = False
        for g in range(len(cur["noise"])):
            for j in range(len(cur["noise"][g]) - 1, -1, -1):
                cand = json.loads(json.dumps(cur))
                del cand["noise"][g][j]
                budget -= 1
                if budget <= 0:
                    break
                if failing(cand):
                    cur = cand
                    changed = True
        steps = cur["A"]["steps"]
        for j in range(len(steps) - 1, 0, -1):
            if budget <= 0:
                break
            if steps[j]["s"] in ("parse", "read", "construct"):
                continue
            cand = json.loads(json.dumps(cur))
            del cand["A"]["steps"][j]
            if j + 1 < len(cand["noise"]):
                cand["noise"][j] = cand["noise"][j] + cand["noise"].pop(j + 1)
            budget -= 1
            if failing(cand):
                cur = cand
                changed = True
    return cur


def history_fails(case, arm="noisy"):
    b, n = fork_map(run_scenario, [(case, "base"), (case, arm)])
    return compare_arms(b, n)


def set_table():
    """(re)build the table from the source tree under test; returns the translator result"""
    global TABLE
    import translate_globals as TG
    res = TG.regenerate()
    TABLE = LiveTable(res)
    return res


def check_montepy_path():
    import montepy
    src = os.path.realpath(os.path.dirname(montepy.__file__))
    want = os.path.realpath(os.path.join(vlib.REPO, "montepy"))
    if src != want:
        raise RuntimeError(f"montepy imported from {src}, expected {want}")


def replay(ctx, path):
    with open(path) as fh:
        case = json.load(fh)
    c = case.get("case", case)
    check_montepy_path()
    set_table()
    kind = case.get("kind") or c.get("kind")
    if kind in ("setter-history", "latch", "alias", "copy-affects-original"):
        c = case
    bad = None
    if kind == "history":
        bad = history_fails(c, case.get("arm", "noisy"))
    elif kind == "copy-affected":
        r = fork_map(run_scenario, [(c, "base")])[0]
        bad = {"outcomes": r.get("outcomes")} if "COPY-CHANGED" in (r.get("outcomes") or []) or "__crash__" in r else None
    elif kind == "copy-affects-original":
        r = fork_map(real_copy, [(case["text"],)])[0]
        bad = r.get("original_changed") or r.get("__crash__")
    elif kind == "alias":
        ok_, d = alias_reproduces(case["probe"])
        bad = d if ok_ else None
    elif kind == "read-residue":
        a, b = fork_map(real_readq, [(dict(c, residue_q=[], residue_log=0),), (c,)])
        bad = None if a.get("result") == b.get("result") else {"fresh": a, "with_residue": b}
    elif kind == "setter-history":
        a, b = fork_map(real_setter, [(dict(c, hist=[]),), (c,)])
        bad = None if a.get("call") == b.get("call") else {"alone": a, "after_history": b}
    elif kind == "latch":
        ok, d = latch_reproduces(c["prop"])
        bad = d if ok else None
    elif kind == "broken-obligation":
        print("REPLAY property=C17: a broken obligation has no input to replay; run ./check C17")
        return 1
    if bad:
        print("REPLAY property=C17 still fails: " + json.dumps(bad)[:600])
        print(f"VIOLATION property=C17 replay={path}")
        return 1
    print("REPLAY property=C17 passes")
    return 0


def run(ctx):
    quick = ctx.tier == "quick"
    n_hist = 70 if quick else 1500
    n_readq = 120 if quick else 3000
    n_setter = 150 if quick else 3000
    n_copy = 12 if quick else 200
    n_fresh = 3 if quick else 12
    timing = {}
    t0 = time.time()
    # ---- 0. translator (fails closed)
    try:
        check_montepy_path()
        res = set_table()
    except Exception as e:
        ctx.broken_obligations.append({"obligation": "translate_globals (Gen/Globals.v from the source tree)",
                                       "detail": f"{type(e).__name__}: {e}"[:800]})
        return ctx.finish(vlib.KERNEL_TB, [], "translator failed")
    facts = table_facts(res)
    try:
        import translate_globals as TG
        st_bad = TG.selftest()
    except Exception as e:
        st_bad = [{"error": f"{type(e).__name__}: {e}"[:300]}]
    if st_bad:
        ctx.broken_obligations.append({"obligation": "translator self-test (synthetic package with one instance of every "
                                       "leak shape and every harmless shape)", "detail": st_bad[:4]})
    timing["translate"] = round(time.time() - t0, 1)
    # ---- 1. proofs
    t1 = time.time()
    proved = ctx.prove()
    timing["prove"] = round(time.time() - t1, 1)
    # every site that is not history free is a computed witness candidate
    for row in facts["other_dirty"]:
        ctx.broken_obligations.append({"obligation": "history_free(Gen/Globals.v): site is read before it is reset",
                                       "detail": why_dirty(res, row)})
    if res.copy_hooks:
        ctx.broken_obligations.append({"obligation": "no copy hooks (deepcopy model assumes default copying)",
                                       "detail": res.copy_hooks})
    ok, log = vlib.coq_make(["Model/Iso.vo"])
    if not ok:
        ctx.broken_obligations.append({"obligation": "Model/Iso.vo builds", "detail": log[-800:]})
        return ctx.finish(vlib.KERNEL_TB, [], "model did not build")
    flags = (1, 1)
    fl = {(f, s): v for f, s, v in []}
    # flags as the translator computed them (Properties/C17.v proves the same value from Gen/Globals.v)
    su = res.su
    def first_of(fq, sname):
        f = [x for x in res.db.funcs if x.qual == fq]
        s = [r.site for r in res.rows if r.site.name == sname]
        if not f or not s:
            return "missing"
        E = [e for e in res.entries if s[0] in su.may_r[e]]
        return su.summarize_fix([f[0]], s[0], E)[f[0]]
    flags = (1 if first_of("input_parser/input_syntax_reader.py:read_input_syntax",
                           "input_parser/input_syntax_reader.py:reading_queue") == "kill" else 0,
             1 if first_of("input_parser/parser_base.py:MCNP_Parser.parse", "<SLY_Supressor>._parse_fail_queue") == "kill" else 0)

    dist = {"site_kinds": facts["kinds"], "site_status": facts["status"], "latching_props": facts["latch"],
            "ext_unproven": [r.site.name for r in facts["ext_dirty"]], "flags": list(flags)}
    reqs, expect_cmp = [], []
    # ---- 2. correspondence R
    t2 = time.time()
    rq_cases = [gen_readq(random.Random(f"{ctx.seed}:C17:r:{i}")) for i in range(n_readq)]
    rq_real = fork_map(real_readq, [(c,) for c in rq_cases])
    rq_reqs = [readq_request(c, flags) for c in rq_cases]
    # ---- correspondence S
    owners = {}
    pool_names = None
    probe = fork_map(lambda: {k: [t.__name__ for t in type(v[0]).__mro__] for k, v in make_pool().items()}, [()])[0]
    for name, owner, latching, tys, self_typed in facts["props"]:
        owners[owner] = [cn for cn, mro in probe.items() if owner in mro and cn not in BUILTIN_VALS]
    props_by_name = {p[0]: p for p in facts["props"]}
    st_cases = []
    i = 0
    while len(st_cases) < n_setter and i < n_setter * 4:
        c = gen_setter(random.Random(f"{ctx.seed}:C17:s:{i}"), facts["props"], owners)
        i += 1
        if c is not None:
            st_cases.append(c)
    # the class table of Gen/Globals.v must agree with the real MROs of the pool classes
    anc_bad = []
    for cn, mro in probe.items():
        if cn in BUILTIN_VALS:
            continue
        real_anc = [x for x in mro[1:] if x != "object"]
        if sorted(real_anc) != sorted(facts["class_anc"].get(cn, [])):
            anc_bad.append({"class": cn, "real": real_anc, "table": facts["class_anc"].get(cn)})
    if anc_bad:
        ctx.broken_obligations.append({"obligation": "class table of Gen/Globals.v = real MROs", "detail": anc_bad[:3]})
    st_real = fork_map(real_setter, [(c,) for c in st_cases])
    st_alone = fork_map(real_setter, [(dict(c, hist=[]),) for c in st_cases])
    st_reqs = [setter_request(c, props_by_name, facts["class_anc"]) for c in st_cases]
    # ---- correspondence C
    cp_texts = [gen_problem_text(random.Random(f"{ctx.seed}:C17:c:{i}"), extras=(i % 2 == 0))[0] for i in range(n_copy)]
    cp_real = fork_map(real_copy, [(t,) for t in cp_texts])
    cp_ok = [(t, r) for t, r in zip(cp_texts, cp_real) if "__crash__" not in r and "error" not in r]
    cp_err = {}
    for r in cp_real:
        if "error" in r or "__crash__" in r:
            k = r.get("error") or "crash: " + r["__crash__"].strip().split("\n")[-1][:100]
            cp_err[k] = cp_err.get(k, 0) + 1
    cp_reqs = [copy_request(r["src"]) for _, r in cp_ok]
    all_reqs = rq_reqs + st_reqs + cp_reqs
    answers = vlib.model_ask("Iso", all_reqs)
    nx, badx = vlib.vm_crosscheck("Iso", all_reqs, answers, sample=40 if quick else 200, seed=ctx.seed)
    if badx:
        ctx.broken_obligations.append({"obligation": "extraction cross-check Iso (binary vs vm_compute)", "detail": badx[:2]})
    rq_ans = answers[:len(rq_reqs)]
    st_ans = answers[len(rq_reqs):len(rq_reqs) + len(st_reqs)]
    cp_ans = answers[len(rq_reqs) + len(st_reqs):]
    # R compare
    rd = {"cases": 0, "results": {}, "with_queue_residue_after": 0, "with_log_residue_after": 0,
          "with_residue_before": 0, "card_kinds": {}}
    rq_bad = []
    for c, real, ans, rq in zip(rq_cases, rq_real, rq_ans, rq_reqs):
        ctx.cov["programs"] += 1
        ctx.cov["disagreements_checked"] += 1
        ctx.count_case(("r", rq), nontrivial=len(c["main"]) > 1 or bool(c["files"]))
        rd["cases"] += 1
        if "__crash__" in real:
            rq_bad.append({"case": c, "crash": real["__crash__"][-300:]})
            continue
        k = real["result"].split(" ")[0]
        rd["results"][k] = rd["results"].get(k, 0) + 1
        rd["with_queue_residue_after"] += bool(real["queue"])
        rd["with_log_residue_after"] += bool(real["log"])
        rd["with_residue_before"] += bool(c["residue_q"] or c["residue_log"])
        for cd in c["main"] + [x for v in c["files"].values() for x in v]:
            rd["card_kinds"][cd[0]] = rd["card_kinds"].get(cd[0], 0) + 1
        d = readq_compare(ans, real)
        if d:
            rq_bad.append({"case": c, "request": rq, "diff": d})
        # property level: the same read without residue must give the same result (poisoned vs clean)
    if rq_bad:
        ctx.broken_obligations.append({"obligation": "correspondence R: Iso.read_file vs montepy.read_input "
                                       "(result, queue residue, log residue)",
                                       "detail": {"n": len(rq_bad), "first": rq_bad[0]}})
    ctx.sample({"readq_request": rq_reqs[0], "model": rq_ans[0], "real": rq_real[0]})
    # residue oracle on the real code: same files, with and without residue
    clean = fork_map(real_readq, [(dict(c, residue_q=[], residue_log=0),) for c in rq_cases[: n_readq // 2]])
    for c, a, b in zip(rq_cases, clean, rq_real):
        ctx.count_case(("r-clean", json.dumps(c, sort_keys=True)), nontrivial=bool(c["residue_q"] or c["residue_log"]))
        if "__crash__" in a or "__crash__" in b:
            continue
        if a["result"] != b["result"]:
            ctx.fail({"kind": "read-residue", "case": c, "fresh": a, "with_residue": b})
    timing["corr_R"] = round(time.time() - t2, 1)
    # S compare
    sd = {"cases": 0, "accept": 0, "reject": 0, "latching_cases": 0, "history_changed_outcome": 0, "props": {}}
    st_bad = []
    for c, real, alone, ans, rq in zip(st_cases, st_real, st_alone, st_ans, st_reqs):
        ctx.cov["programs"] += 1
        ctx.cov["disagreements_checked"] += 1
        ctx.count_case(("s", rq), nontrivial=bool(c["hist"]))
        sd["cases"] += 1
        sd["props"][c["prop"]] = sd["props"].get(c["prop"], 0) + 1
        if "__crash__" in real or "__crash__" in alone:
            st_bad.append({"case": c, "crash": (real.get("__crash__") or alone.get("__crash__"))[-300:]})
            continue
        acc = real["call"] != "reject"
        sd["accept" if acc else "reject"] += 1
        sd["latching_cases"] += bool(props_by_name[c["prop"]][2])
        model = ans.split(" ")
        latching = bool(props_by_name[c["prop"]][2])
        if len(model) != 2 or (model[0] == "1") != acc or (latching and model[1] != real["latch"]):
            st_bad.append({"case": c, "request": rq, "model": ans, "real": real})
        if (alone["call"] != "reject") != acc:
            sd["history_changed_outcome"] += 1
            ctx.fail({"kind": "setter-history", "prop": c["prop"], "hist": c["hist"], "call": c["call"],
                      "alone": alone["call"], "after_history": real["call"]})
    if st_bad:
        ctx.broken_obligations.append({"obligation": "correspondence S: Iso.accepts / latch_after vs generated setters",
                                       "detail": {"n": len(st_bad), "first": st_bad[0]}})
    if st_cases:
        ctx.sample({"setter_request": st_reqs[0], "model": st_ans[0], "real": st_real[0]})
    # C compare
    cd = {"cases": 0, "objects": 0, "pointers": 0, "shared_objects": 0, "shared_nodes": 0, "not_copyable": cp_err}
    cp_bad = []
    for (t, r), ans in zip(cp_ok, cp_ans):
        ctx.cov["programs"] += 1
        ctx.cov["disagreements_checked"] += 1
        ctx.count_case(("c", t), nontrivial=len(r["src"]) > 2)
        cd["cases"] += 1
        cd["objects"] += len(r["src"])
        cd["pointers"] += sum(len(p) for _, p in r["src"])
        cd["shared_objects"] += r["shared_objects"]
        cd["shared_nodes"] += r["shared_nodes"]
        cd["copy_value_edits"] = cd.get("copy_value_edits", 0) + r.get("copy_edits", 0)
        if r.get("original_changed"):
            ctx.fail({"kind": "copy-affects-original", "text": t, "shared_values": r.get("shared_values"),
                      "original_changed": r["original_changed"]})
        if ans != copy_expected(r["src"]) or r["copy"] != r["src"] or r["foreign_copy"] or r["shared_objects"] \
                or r["shared_nodes"] or r.get("shared_values"):
            cp_bad.append({"model": ans[:200], "real": {k: r.get(k) for k in ("foreign_copy", "shared_objects", "shared_nodes", "shared_values")},
                           "src": r["src"][:6], "copy": r["copy"][:6]})
    if cp_bad:
        ctx.broken_obligations.append({"obligation": "correspondence C: Iso.copy_problem vs copy.deepcopy (fresh identities, "
                                       "isomorphic, no shared syntax nodes)", "detail": {"n": len(cp_bad), "first": cp_bad[0]}})
    # ---- 3. history oracle with monitor and poison
    t3 = time.time()
    hd = {"cases": 0, "a_steps": {}, "noise_ops": {}, "a_outcomes": {}, "noise_outcomes": {}, "read_failed_noise": 0,
          "write_versions": {}, "max_line_len_hist": {"<=80": 0, ">80": 0}, "poisoned_sites": set(),
          "monitored_ops_entries": 0, "entries_seen": {}}
    corpus = []
    cdir = os.path.join(vlib.VERIF, "corpus", "C17")
    if os.path.isdir(cdir):
        for f in sorted(os.listdir(cdir)):
            if f.endswith(".json"):
                with open(os.path.join(cdir, f)) as fh:
                    c = json.load(fh)
                c = c.get("case", c)
                if c.get("kind") == "history":
                    corpus.append(c)
                elif c.get("kind") in ("latch", "setter-history"):
                    # fixed findings: the same call must be judged the same with and without the history
                    a, b2 = fork_map(latch_probe, [(dict(c, hist=[]),), (c,)])
                    ctx.count_case(("corpus", f), nontrivial=True)
                    if a.get("call") != b2.get("call") or "__crash__" in a or "__crash__" in b2:
                        ctx.fail(dict(c, kind="setter-history", alone=a.get("call"), after_history=b2.get("call")))
    cases = corpus + [gen_case(random.Random(f"{ctx.seed}:C17:h:{i}"), facts["latch"]) for i in range(n_hist)]
    args = []
    for c in cases:
        args += [(c, "base"), (c, "monitor"), (c, "poison")]
    rs = fork_map(run_scenario, args, timeout=180)
    mon_bad = []
    for i, c in enumerate(cases):
        b, m, p = rs[3 * i: 3 * i + 3]
        ctx.cov["programs"] += 1
        ctx.count_case(("h", json.dumps(c, sort_keys=True)), nontrivial=sum(len(g) for g in c["noise"]) > 0)
        hd["cases"] += 1
        for st in c["A"]["steps"]:
            hd["a_steps"][st["s"]] = hd["a_steps"].get(st["s"], 0) + 1
            if st["s"] == "write":
                hd["write_versions"][str(tuple(st["version"]))] = hd["write_versions"].get(str(tuple(st["version"])), 0) + 1
        for g in c["noise"]:
            for op in g:
                hd["noise_ops"][op["n"]] = hd["noise_ops"].get(op["n"], 0) + 1
                if op["n"] == "write":
                    hd["write_versions"]["noise" + str(tuple(op["version"]))] = \
                        hd["write_versions"].get("noise" + str(tuple(op["version"])), 0) + 1
        hd["max_line_len_hist"][">80" if max(len(l) for l in c["A"]["text"].split("\n")) > 80 else "<=80"] += 1
        if "__crash__" not in b:
            for o in b["outcomes"]:
                k = o if o.startswith("exc:") or o in ("ok", "applied", "skipped", "accept", "reject") else "value"
                hd["a_outcomes"][k] = hd["a_outcomes"].get(k, 0) + 1
        if "__crash__" not in m:
            for o in m["noise_outcomes"]:
                k = o if o.startswith("exc:") or o in ("ok", "applied", "skipped", "accept", "reject", "noslot", "noA") else "value"
                hd["noise_outcomes"][k] = hd["noise_outcomes"].get(k, 0) + 1
            for k, v in m["entries"].items():
                hd["entries_seen"][k] = hd["entries_seen"].get(k, 0) + v
            if m["n_monitor"]:
                mon_bad.append({"case_index": i, "disagreements": m["monitor"]})
        if "__crash__" not in p:
            hd["poisoned_sites"] |= set(p["poisoned"])
        ctx.cov["disagreements_checked"] += 1
        if "__crash__" not in b and "COPY-CHANGED" in b["outcomes"]:
            ctx.fail({"kind": "copy-affected", "case": c, "outcomes": b["outcomes"]})
        for arm, o in (("monitor", m), ("poison", p)):
            d = compare_arms(b, o)
            if d is None:
                continue
            if arm == "poison":
                ctx.broken_obligations.append({
                    "obligation": "poison: a site the table says is reset before it is read influenced an outcome",
                    "detail": {"diff": d, "poisoned": [TABLE.sites[k]["name"] for k in p.get("poisoned", [])][:12]}})
                ctx.fail({"kind": "history", "arm": "poison", "case": c, "diff": d})
            else:
                raw = {"kind": "history", "arm": "noisy", "case": c, "diff": d}
                if ctx.attribute(raw):
                    ctx.fail(raw)         # an open known finding explains it (confirmed by removal): no need to shrink
                else:
                    small = shrink_history(c, lambda cc: history_fails(cc) is not None) if len(ctx.violations) < 2 else c
                    ctx.fail({"kind": "history", "arm": "noisy", "case": small, "diff": history_fails(small) or d})
            if len(ctx.violations) >= 4:
                break
        if len(ctx.violations) >= 4:
            break
        if i < 2:
            ctx.sample({"A_steps": [s["s"] for s in c["A"]["steps"]], "noise": [[o["n"] for o in g] for g in c["noise"]],
                        "outcomes_alone": b.get("outcomes"), "outcomes_with_history": m.get("outcomes")})
    if mon_bad:
        ctx.broken_obligations.append({"obligation": "monitor: a site of Gen/Globals.v changed although the table says the "
                                       "operation's entry points do not write it", "detail": {"n": len(mon_bad), "first": mon_bad[0]}})
    hd["poisoned_sites"] = sorted(TABLE.sites[k]["name"] for k in hd["poisoned_sites"])
    hd["entries_seen"] = dict(sorted(hd["entries_seen"].items(), key=lambda kv: -kv[1])[:25])
    timing["history"] = round(time.time() - t3, 1)
    # ---- 4. forked child == fresh interpreter (sample)
    t4 = time.time()
    fresh_bad = []
    for i in range(min(n_fresh, len(cases))):
        c = cases[len(corpus) + i] if len(cases) > len(corpus) + i else cases[i]
        fr = fresh_interpreter(c)
        fk = rs[3 * (len(corpus) + i)] if len(cases) > len(corpus) + i else rs[3 * i]
        ctx.count_case(("fresh", i), nontrivial=True)
        if compare_arms(fk, fr) is not None:
            fresh_bad.append({"diff": compare_arms(fk, fr)})
    if fresh_bad:
        ctx.broken_obligations.append({"obligation": "a forked pristine child behaves as a fresh interpreter", "detail": fresh_bad[0]})
    timing["fresh"] = round(time.time() - t4, 1)
    # ---- 5. known findings: the latch witness in two fresh interpreters
    latch_now = {}
    for prop in facts["latch"]:
        ok_, d = latch_reproduces(prop, fresh=(prop == "Surface.periodic_surface" or not quick))
        latch_now[prop] = ok_
    alias_now = {}
    for fd in ctx.findings:
        if fd.get("status") != "open":
            continue
        props = fd.get("params", {}).get("props", [])
        probe_name = fd.get("params", {}).get("probe")
        if probe_name:
            ok_, d = alias_reproduces(probe_name)
            alias_now[probe_name] = ok_
            fd["_reproduced"] = ok_
        else:
            fd["_reproduced"] = any(latch_now.get(p) for p in props)
    # every API function the table reports as storing the caller's container needs an open finding
    known_sites = set()
    for fd in ctx.findings:
        if fd.get("status") == "open":
            known_sites |= set(fd.get("params", {}).get("sites", []))
    for row in facts["alias"]:
        ctx.count_case(("alias-site", row.site.name), nontrivial=True)
        if row.site.name not in known_sites:
            ctx.broken_obligations.append({"obligation": "no API function stores the caller's mutable container without a copy",
                                           "detail": {"site": row.site.name, "how": row.site.extra.get("how"),
                                                      "types": row.site.extra.get("types"), "line": row.site.lineno}})
    # a latch the table reports but that has no open finding is a violation of its own
    open_props = set()
    for fd in ctx.findings:
        if fd.get("status") == "open":
            open_props |= set(fd.get("params", {}).get("props", []))
    for prop in facts["latch"]:
        if prop not in open_props:
            ok_, d = latch_reproduces(prop, fresh=False)
            ctx.fail({"kind": "latch", "prop": prop, "hist": LATCH_WITNESS.get(prop, {}).get("hist"),
                      "call": LATCH_WITNESS.get(prop, {}).get("call"), "observed": d}, no_failing_input=not ok_)
    dist.update({"readq": rd, "setter": sd, "copy": cd, "history": hd, "timing_s": timing,
                 "latch_witness_reproduced": latch_now, "alias_witness_reproduced": alias_now,
                 "arg_alias_sites": [r.site.name for r in facts["alias"]]})
    tb = vlib.KERNEL_TB + [
        "harness/translate_globals.py (static analysis over `ast`, trusted, monitored): enumeration of the sites, access "
        "kinds from syntactic context, call graph by name with a taint pass for singleton receivers, first-access "
        "summaries; dynamic calls are assumed to reach API entry points only; builtins calling dunder methods are "
        "followed for singleton receivers only",
        "modelled, not verified: montepy/input_parser/input_syntax_reader.py (reading_queue), parser_base.py "
        "(SLY_Supressor, restart/parse), mcnp_object.py (constructor raise paths), utilities.py (make_prop_*) as "
        "coq/Model/Iso.v; tie = correspondences R, S, C of this run",
        "third-party sly.yacc.Parser instance attributes are in the table (ext); the one the analysis cannot discharge "
        "(%s) is covered by the poison arm only" % ", ".join(dist["ext_unproven"] or ["none"]),
        f"vm_compute cross-check of {nx} requests of this run against the extracted binary",
    ]
    assumptions = [
        "process state outside MontePy's own modules is out of scope: the warnings registry (a warning shown once per "
        "location), numpy print options, os.environ, the file system",
        "API entry points = all functions of montepy/ outside the parser machinery files listed as internal_files in "
        "Gen/Globals.v; calling parser internals (read_data, SLY_Supressor.parse_error, ...) directly is not an API call",
        "C17_disjoint: operations on A use A's objects only (no cross-problem links made by the caller)",
        "a forked child of the pristine check process stands for a fresh interpreter (validated on %d scenarios per run)" % n_fresh,
    ]
    return ctx.finish(
        tb, assumptions,
        "cases = readq files (cards good/syntax error/malformed/read card, residue in queue and log) + generated-setter "
        "call histories + deepcopy structures + A-programs (gen.py problems, edits.py programs, setters, geometry "
        "operators, deepcopy, pickle, writes for 3 MCNP versions) interleaved with unrelated operations; distinct = "
        "distinct request / case json; non-trivial = more than one card / non-empty history / at least one unrelated operation",
        extra={"input_distribution": dist})
