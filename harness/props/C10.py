"""C10 — written lines obey MCNP's physical line rules without changing content.

Obligations: coq/Properties/C10.v over coq/Model/Wrap.v (textwrap._munge_whitespace/_wrap_chunks/_handle_long_word,
utilities.is_comment, MCNP_Object._wrap_line, MCNP_Object.wrap_string_for_mcnp).
Correspondence: MCNP_Object.wrap_string_for_mcnp on generated strings vs the extracted Wrap model, byte for byte
(the model also refuses chunk lists that do not concatenate to its own munged text); is_comment vs the model's;
for hyphen-free text the real chunker equals the model's split_ws.
Oracle on strings (independent S5-S7 rules of spec.py applied to the real output): line length, continuation rule,
data tokens and comment text of the wrapped lines = those of the unwrapped line, no blank-only line.
Oracle on files (search): whole problems whose cards and comments approach the limit, edited so numbers grow, written
for the 128- and 80-column regimes: line length, and the two files must denote the same inputs and the same comment
text under the independent reader (spec.py).
"""
import json
import os
import random
import re
import textwrap
import warnings

import vlib
import spec
import gen
import mp

VERSIONS = {128: (6, 2, 0), 80: (5, 1, 60)}
_TW = textwrap.TextWrapper(width=80, drop_whitespace=False, break_on_hyphens=False)


def hx(s):
    return s.encode("latin-1", "replace").hex()


def unhx(s):
    return bytes.fromhex(s).decode("latin-1")


def real_chunks(line):
    """what the real wrapper's chunker (break_on_hyphens=False) makes of a line"""
    m = _TW._munge_whitespace(line)
    return _TW._split(m), m


def request_of(case):
    lines = case["string"].splitlines()
    return "%d %d 5 %s" % (case["W"], 1 if case["first"] else 0, "/".join(hx(l) or "x" for l in lines) or "-")


class Hang(BaseException):
    """the real code did not return within the time limit (textwrap loops forever when an indent exceeds the width)"""


def time_limit(seconds, fn, *a):
    import signal

    def on_alarm(sig, frm):
        raise Hang()
    old = signal.signal(signal.SIGALRM, on_alarm)
    signal.setitimer(signal.ITIMER_REAL, seconds)
    try:
        return fn(*a)
    finally:
        signal.setitimer(signal.ITIMER_REAL, 0)
        signal.signal(signal.SIGALRM, old)


HANGS = {"n": 0}
_MEMO = {}


def real_wrap(case):
    """the real wrapper under a time limit, memoised per (W, first, before, string); "Hang" when it does not
    return.  After the first hang the limit is short, after a few hangs nothing more is tried: the run reports
    the hanging inputs as violations instead of waiting for every one of them."""
    key = (case["W"], case["first"], case.get("before"), case["string"])
    if key in _MEMO:
        r = _MEMO[key]
        return list(r) if isinstance(r, list) else r
    if HANGS["n"] >= 6:
        return "Skipped"
    try:
        r = time_limit(4.0 if HANGS["n"] == 0 else 0.7, _real_wrap, case)
    except Hang:
        HANGS["n"] += 1
        r = "Hang"
    if len(_MEMO) > 200000:
        _MEMO.clear()
    _MEMO[key] = r
    return list(r) if isinstance(r, list) else r


def _real_wrap(case):
    """the real wrapper; [before] = a width for which something else is wrapped first in the same process: the
    result must not depend on it"""
    from montepy.mcnp_object import MCNP_Object
    with warnings.catch_warnings():
        warnings.simplefilter("ignore")
        if case.get("before"):
            try:
                MCNP_Object.wrap_string_for_mcnp("1 0 -1 imp:n=1 $ " + "x " * 70, VERSIONS[case["before"]], True)
            except Exception:
                pass
        try:
            return MCNP_Object.wrap_string_for_mcnp(case["string"], VERSIONS[case["W"]], case["first"])
        except Exception as e:            # compared as the exception class
            return type(e).__name__


def show_lines(real):
    """the model's rendering of a list of lines in which the empty line can occur"""
    if isinstance(real, str):
        return real
    return ",".join(hx(l) or "x" for l in real) or "-"


def show_real(real):
    if isinstance(real, str):
        return real
    return ",".join(hx(l) for l in real) or "-"


# ---------------------------------------------------------------------------- string generator
WORDS = ["a", "comment", "with", "several", "words", "in", "it", "x=1", "2", "3", "density", "of", "the", "fuel",
         "c", "$", "1.5e-3", "(not", "data)", "u=4", "water-moderated", "be-met.40t", "c-c"]


def comment_text(rng, n):
    out = []
    cur = 0
    while cur < n:
        w = rng.choice(WORDS) if rng.random() < 0.93 else "z" * rng.choice([30, 75, 90, 130, 200])
        sep = " " * rng.choice([1, 1, 1, 1, 2, 4])
        out.append(w + sep)
        cur += len(w) + len(sep)
    return "".join(out)


def data_text(rng, W, target):
    toks = []
    cur = 0
    while cur < target:
        r = rng.random()
        if r < 0.5:
            t = gen.fmt_real(rng)
        elif r < 0.6:
            t = rng.choice(["imp:n=1", "vol=2.5", "u=3", "fill=4", "(", ")", ":", "#5", "-12", "+7"])
        elif r < 0.68:
            t = rng.choice(["be-met.40t", "h-h2o.40t", "lwtr.10t", "one-two-three", "a--b", "x-y", "1e-5", "---", "-", "--x"])
        elif r < 0.72:
            t = "w" * rng.choice([1, 20, W - 6, W - 5, W - 4, W, W + 9, 2 * W + 1])
        elif r < 0.725:
            t = "\t" + gen.fmt_real(rng)
        elif r < 0.78:
            t = rng.choice(["92235.80c", "1001.710nc", "c", "C"])
        else:
            t = str(rng.randint(-99999, 99999))
        sep = " " * rng.choice([1, 1, 1, 2, 5])
        toks.append(t)
        cur += len(t) + len(sep)
        toks.append(sep)
    return "".join(toks)


def gen_line(rng, W):
    kind = rng.choice(["data", "data", "dollar", "dollar", "dollar", "cline", "cline", "blankdollar", "odd"])
    near = [W - 8, W - 2, W - 1, W, W + 1, W + 3, W + 30, 2 * W + 5, 3 * W]
    start = rng.choice(["", "", "", "     ", "      ", "  "])
    if kind == "data":
        line = start + data_text(rng, W, rng.choice([10] + near))
        if rng.random() < 0.15:
            line += "$ " + rng.choice(["a comment with several words in it", "c", "x=1 2 3"])
    elif kind == "dollar":
        # data of every length (short / about half the width / near the limit) then a comment that reaches the limit
        dlen = rng.choice([0, 3, 12, W // 2 - 3, W // 2 - 1, W // 2, W // 2 + 1, W - 12, W - 3, W - 1, W, W + 4, 2 * W])
        data = start + (data_text(rng, W, dlen) if dlen else rng.choice(["1 ", "2 0", ""]))
        if rng.random() < 0.3:
            data = data.rstrip() + " " * rng.choice([0, 1, 2, 7])
        total = rng.choice(near)
        line = data + "$" + rng.choice(["", " ", " "]) + comment_text(rng, max(0, total - len(data)))
    elif kind == "cline":
        ind = rng.choice(["", "", "", "", "", "", " ", "  ", "    ", "    "] + (["     ", "          ", "\t"] if rng.random() < 0.2 else []))
        mark = rng.choice(["c ", "c ", "c ", "c ", "C ", "C ", "c", "c  ", "c\t"])
        line = ind + mark + comment_text(rng, rng.choice([3] + near))
    elif kind == "blankdollar":
        line = " " * rng.choice([0, 1, 4, 5, 6, 20, W // 2, W - 6, W - 1, W, W + 5]) + "$ " + \
            comment_text(rng, rng.choice([5, W // 2, W, W + 20]))
    else:
        line = rng.choice(["c", "C", " c", "c$", "$", "     $", "$ x", "c " + "$" * (W + 3), "1 2 $" + "$ " * W,
                           "\xa0 1 2", "1\x1f2 " * (W // 3), "\t\t1 $ " + "t " * W, "1" + "\t" * 8 + "2 $ " + "word " * 6,
                           "a-b-c-" * (W // 4), " " * (W + 3) + "7", " " * (W + 5) + "$", " " * W + "$",
                           " " * (W // 2) + "$ " + "x " * W, " " * (W // 2 - 1) + "$ " + "x " * W,
                           "1 2 3" + " " * W + "$ c", "c" + " " * (W + 2) + "x", "    c " + "-" * (W + 10)])
    if rng.random() < 0.5:
        line = line.rstrip(" ")
    return line


def gen_string(rng):
    W = rng.choice([80, 128])
    nlines = rng.choice([1, 1, 1, 2, 3])
    out = [gen_line(rng, W) for _ in range(nlines)]
    if rng.random() < 0.1:
        out.insert(rng.randrange(len(out) + 1), rng.choice(["", "   ", "          "]))
    return {"W": W, "first": rng.random() < 0.93, "string": "\n".join(out), "before": rng.choice([None, None, 80, 128])}


# ---------------------------------------------------------------------------- message block and title
MSG_WORDS = ["outp=pin_cell.o", "runtpe=pin_cell.r", "xsdir=xsdir_mcnp6.2_endf80", "datapath=/opt/mcnp/data/MCNP_DATA",
             "mctal=a.m", "wwinp=windows.ww", "c", "$", "ixr", "name=run_0001", "tasks 8", "notek"]


def msg_text(rng, n):
    out = ""
    while len(out) < n:
        out += rng.choice(MSG_WORDS) + " " * rng.choice([1, 1, 2])
    return out[:n] if rng.random() < 0.5 else out


def gen_message_case(rng):
    W = rng.choice([80, 128])
    version = rng.choice([(5, 1, 60), (6, 1, 0)]) if W == 80 else (6, 2, 0)
    near = [0, 3, W - 12, W - 11, W - 10, W - 9, W - 8, W - 2, W - 1, W, W + 1, W + 9, W + 40, 2 * W]
    lines = [msg_text(rng, rng.choice(near)) + rng.choice(["", "", " ", "   ", "\t"])
             for _ in range(rng.choice([0, 1, 1, 2, 3, 6]))]
    return {"kind": "message", "W": W, "version": list(version), "lines": lines, "init": rng.random() < 0.5,
            "title": msg_text(rng, rng.choice(near))}


def real_message(case):
    """Message.format_for_mcnp_input of a block constructed from the lines (init) or of an existing block whose
    lines were replaced through the API (edited)"""
    from montepy.input_parser.mcnp_input import Message
    try:
        if case["init"]:
            m = Message([], list(case["lines"]))
        else:
            m = Message([], ["x"] * len(case["lines"]))
            for i, l in enumerate(case["lines"]):
                m.lines[i] = l
        return m.format_for_mcnp_input(tuple(case["version"]))
    except Exception as e:
        return type(e).__name__


def real_title(case):
    from montepy.input_parser.mcnp_input import Title
    try:
        return Title([case["title"]], case["title"]).format_for_mcnp_input(tuple(case["version"]))
    except Exception as e:
        return type(e).__name__


def message_request(case):
    return "message %d %d %s" % (case["W"], 1 if case["init"] else 0, "/".join(hx(l) or "x" for l in case["lines"]) or "-")


def message_oracle(case):
    """the written block and title, judged without the model -> None or (kind, detail)"""
    W = case["W"]
    out = real_message(case)
    if isinstance(out, str):
        return ("message-exception", out)
    lines = [l.rstrip() for l in case["lines"]] if case["init"] else case["lines"]
    for l in out:
        if len(l.expandtabs(8)) > W:
            return ("message-line-too-long", [len(l.expandtabs(8)), l])
    if len(out) != len(lines) + 1 or out[-1] != "":
        return ("message-block-shape", [len(out), len(lines)])
    for i, (o, l) in enumerate(zip(out, lines)):
        if i == 0:
            if not o.startswith("MESSAGE: ") or not l.startswith(o[9:]):
                return ("message-first-line", [o, l[:60]])
            if o[9:] != l and len(o) < W - 1:
                return ("message-cut-too-early", [o, l[:W]])
        elif not l.startswith(o) or (o != l and len(o) < W - 1):
            return ("message-line-not-a-prefix", [i, o, l[:60]])
    t = real_title(case)
    if isinstance(t, str) or len(t) != 1:
        return ("title-exception", t)
    title = case["title"].rstrip()           # Title.__init__ strips trailing whitespace
    if len(t[0]) > W or not title.startswith(t[0]) or (t[0] != title and len(t[0]) < W - 1):
        return ("title-line", [len(t[0]), t[0][:60]])
    return None


# ---------------------------------------------------------------------------- string oracle (independent rules)
def _comment_of(l):
    """(is comment line, data text, comment text) of one physical line, by spec.py's S5/S6"""
    if spec.is_comment_line(l):
        return True, "", re.sub(r"^ {0,4}[cC] ?", "", l)
    data, dollar = spec.split_dollar(l)
    return False, data, dollar or ""


def string_oracle_line(line, W, first, before=None):
    """One source line wrapped on its own by the real code, judged by the independent rules.
    -> None or (kind, detail)"""
    real = real_wrap({"W": W, "first": first, "string": line, "before": before})
    if real == "Skipped":
        return None
    if isinstance(real, str):
        return ("string-hang" if real == "Hang" else "string-exception", real)
    if not line.strip():
        return None if real == [] else ("string-blank-source-written", real)
    ii = "" if first else " " * 5
    ref = (ii + line).expandtabs(8)
    out = [l.expandtabs(8) for l in real]
    for l in out:
        if len(l) > W:
            return ("string-line-too-long", [len(l), l])
        if not l.strip():
            return ("string-blank-line", out)
    ref_c, ref_data, ref_comment = _comment_of(ref)
    if not out:
        return ("string-line-lost", ref)
    ref_toks = ref_data.split()
    # a token longer than a continuation line cannot be written at all: it is cut, and only the characters count
    unwritable = any(len(t) > W - 5 for t in ref_toks)
    for k, l in enumerate(out):
        if unwritable:
            break
        isc = spec.is_comment_line(l)
        if k == 0:
            # the first physical line starts the way the unwrapped line does
            if isc != ref_c or (l[:5].strip() == "") != (ref[:5].strip() == ""):
                return ("string-first-line-kind", [ref[:40], l[:40]])
        elif not (l[:5] == "     " or (isc and ref_c)):
            return ("string-continuation", [k, l[:40]])
    toks = [t for l in out for t in ([] if spec.is_comment_line(l) else spec.split_dollar(l)[0].split())]
    if toks != ref_toks and not unwritable:
        i = next((i for i, (a, b) in enumerate(zip(toks, ref_toks)) if a != b), min(len(toks), len(ref_toks)))
        return ("string-data-tokens", {"expected": ref_toks[max(0, i - 1):i + 2], "written": toks[max(0, i - 1):i + 3]})
    if unwritable and "".join(toks) != "".join(ref_toks):
        return ("string-data-characters", [ref[:60]])
    com = "".join(_comment_of(l)[2] for l in out).replace(" ", "")
    if com != ref_comment.replace(" ", ""):
        return ("string-comment-text", {"expected": ref_comment.replace(" ", "")[:80], "written": com[:80]})
    return None


def string_oracle(case):
    """-> None or failure dict (first failing source line)"""
    for line in case["string"].splitlines():
        r = string_oracle_line(line, case["W"], case["first"], case.get("before"))
        if r is not None:
            return {"kind": r[0], "detail": r[1], "line": line}
    return None


def shrink_line(line, W, first, kind, before=None):
    """greedy: drop whole words (with the blanks after them) and shorten long runs while the same kind of failure
    stays; two words are never joined"""
    def bad(x):
        r = string_oracle_line(x, W, first, before)
        return r is not None and r[0] == kind
    cur = line
    progress = True
    while progress:
        progress = False
        parts = re.findall(r"[^ ]+ *| +", cur)
        for i in range(len(parts) - 1, -1, -1):
            cands = ["".join(parts[:i] + parts[i + 1:])]
            m = re.match(r"^(.)\1{8,}( *)$", parts[i])
            if m:                                  # a long run of one character: try it shorter
                cands.append("".join(parts[:i] + [parts[i][:len(parts[i]) // 2] + m.group(2)] + parts[i + 1:]))
            for cand in cands:
                if cand != cur and bad(cand):
                    cur = cand
                    progress = True
                    break
            if progress:
                break
    return cur


# ---------------------------------------------------------------------------- whole-file oracle
def line_rule_violations(text, W):
    """physical rules on a written file"""
    bad = []
    for i, l in enumerate(text.split("\n")):
        if len(l.expandtabs(8)) > W:
            bad.append(("too long", i + 1, len(l), l[:60]))
    return bad


def lengthen_comments(rng, text, width):
    """make '$' comments and 'c' comment lines of a rendered problem reach the neighbourhood of [width]
    (the problem is read in the 128-column regime, so nothing is lost on reading)"""
    lines = text.split("\n")
    out = []
    for i, l in enumerate(lines):
        if i == 0 or not l.strip() or rng.random() < 0.5:
            out.append(l)
            continue
        if re.match(r"^ {0,4}[cC] ", l) or "$" in l:
            room = width - len(l) - 1
            if room > 8:
                extra = comment_text(rng, rng.choice([room // 2, room - 6, room - 2]))[:room].rstrip()
                extra = extra.replace("$", "S")
                l = l.rstrip() + " " + extra
        out.append(l)
    return "\n".join(out)


def problem_case(rng, idx):
    """a problem whose cards and comments are laid out close to the limit + edits that make numbers longer"""
    P = gen.gen_problem(rng, dict(max_cells=6))
    width = rng.choice([80, 80, 128, 128])
    L = gen.layout_opts(rng, wild=False, width=width)
    L["width"] = width - rng.choice([0, 0, 1, 2, 10])
    L["dollar"] = rng.choice([0, 0, 0.1, 0.3, 0.5])
    text = gen.render(rng, P, L)
    if rng.random() < 0.6 and not P.get("message"):
        text = lengthen_comments(rng, text, 128)
    if rng.random() < 0.4 and not P.get("message"):
        text = indent_card_starts(rng, text, width)
    has_message = bool(P.get("message"))
    if not has_message and rng.random() < 0.25:
        # a message block whose lines approach or pass the limits (message lines are not cut when they are read)
        first = "MESSAGE: " + msg_text(rng, rng.choice([20, 60, 69, 70, 71, 75, 90, 110, 117, 118, 119])).rstrip()
        more = [" " + msg_text(rng, rng.choice([10, 78, 79, 80, 100, 127])).rstrip() for _ in range(rng.choice([0, 0, 1, 3]))]
        text = "\n".join([first] + more) + "\n\n" + text
        has_message = True
    edits = []
    if has_message and rng.random() < 0.5:
        edits.append(("message_append", " " + msg_text(rng, rng.choice([5, 30, 60, 120])).rstrip()))
    for _ in range(rng.choice([0, 1, 2, 4])):
        s = rng.choice(P["meta"]["surfaces"])
        edits.append(("surf_const", s, rng.choice([1.23456789012, 123456.789012345, 1e-7 / 3, 7.0])))
    if rng.random() < 0.3:
        edits.append(("title", "T" * rng.choice([10, 79, 80, 127, 128, 200])))
    # both regimes are written in one process, in either order: what was written before must not matter
    return {"text": text, "edits": edits, "layout_width": L["width"], "order": rng.choice([[128, 80], [80, 128]])}


def indent_card_starts(rng, text, width):
    """start some inputs in columns 2-5 (MCNP allows it): what spills over when they are wrapped must still be a
    continuation line"""
    lines = text.split("\n")
    out = [lines[0]]
    for l in lines[1:]:
        if l and not l[0].isspace() and not spec.is_comment_line(l) and rng.random() < 0.35:
            k = rng.randint(1, 4)
            if len(l) + k <= width:
                l = " " * k + l
        out.append(l)
    return "\n".join(out)


def apply_edits(pr, edits):
    for e in edits:
        if e[0] == "surf_const":
            s = pr.surfaces[e[1]]
            c = list(s.surface_constants)
            if c:
                c[0] = e[2]
                s.surface_constants = c
        elif e[0] == "title":
            pr.title = e[1]
        elif e[0] == "message_append" and pr.message is not None and pr.message.lines:
            pr.message.lines[0] = pr.message.lines[0] + e[1]


def block_comment_text(sp):
    """comment text of every block with the blanks removed: where a long comment is broken is not content"""
    return ["".join(t for c in b for t in c.comments).replace(" ", "") for b in sp["blocks"]]


def check_problem(case, stats=None):
    """-> None or failure dict"""
    try:
        pr = mp.read_problem(case["text"])
    except Exception as e:   # reading is C12/C13's business
        if stats is not None:
            stats["read_failed"] += 1
        return None
    try:
        apply_edits(pr, case["edits"])
        outs = {}
        for W in case.get("order") or [128, 80]:
            outs[W] = time_limit(20.0, mp.write_problem, pr, "o%d.i" % W, VERSIONS[W])
        out128, out80 = outs[128], outs[80]
    except Hang:
        return {"kind": "write-hangs", "detail": "write_to_file did not return within 20 s"}
    except Exception as e:
        if stats is not None:
            stats["write_failed"] += 1
        return None
    if stats is not None:
        n80 = out80.count("\n")
        stats["wrapped80"] += n80 > out128.count("\n")
        stats["comment_continuations80"] += len(re.findall(r"^     \$ ", out80, re.M))
        if out128.upper().startswith("MESSAGE:"):
            stats["with_message_block"] += 1
            stats["message_lines_cut80"] += any(len(l) >= 79 for l in out80.split("\n\n")[0].split("\n"))
    for W, out in ((128, out128), (80, out80)):
        bad = line_rule_violations(out, W)
        if bad:
            return {"kind": "line-too-long", "W": W, "detail": bad[:3]}
    # a continuation line must start with >= 5 blanks; a card must not start as comment/continuation; comment text
    # must stay comment and data stay data: all are implied by the re-split of the 80-column file giving the same
    # cards and the same comment text as the 128-column file, checked next
    diffs = spec.compare_files(out128, out80, 128, 80, check_comments=False)
    # a title/message longer than the limit is truncated by design (Title.format_for_mcnp_input)
    diffs = [d for d in diffs if d[0] not in ("title", "message")]
    if diffs:
        return {"kind": "regimes-differ", "detail": [list(map(str, d))[:5] for d in diffs[:2]],
                "has_dollar": "$" in out128}
    ca = block_comment_text(spec.split_file(out128, 128))
    cb = block_comment_text(spec.split_file(out80, 80))
    if ca != cb:
        bi = next(i for i, (x, y) in enumerate(zip(ca + [None], cb + [None])) if x != y)
        x, y = (ca + [""])[bi] or "", (cb + [""])[bi] or ""
        k = next((i for i, (p, q) in enumerate(zip(x, y)) if p != q), min(len(x), len(y)))
        return {"kind": "regimes-differ", "detail": [["comment text", str(bi), x[max(0, k - 20):k + 30], y[max(0, k - 20):k + 30]]],
                "has_dollar": "$" in out128}
    return None


def shrink_problem(case, failing):
    cur = dict(case)
    # drop edits
    for i in range(len(cur["edits"]) - 1, -1, -1):
        cand = dict(cur, edits=cur["edits"][:i] + cur["edits"][i + 1:])
        if failing(cand):
            cur = cand
    return cur


# ---------------------------------------------------------------------------- replay
def load_case(path):
    with open(path) as fh:
        case = json.load(fh)
    c = case.get("case", case)
    if "edits" in c:
        c["edits"] = [tuple(e) for e in c["edits"]]
    return c


def case_fails(c):
    """a committed case (string case or whole problem) -> failure description or None"""
    if c.get("kind") == "message":
        vlib.coq_make(["Model/Wrap.vo"])
        ans = vlib.model_ask("Wrap", [message_request(c), "title %d %s" % (c["W"], hx(c["title"]) or "x")])
        real = show_lines(real_message(c))
        if ans[0] != real:
            return {"kind": "correspondence-message", "model": ans[0], "real": real}
        r = message_oracle(c)
        return None if r is None else {"kind": r[0], "detail": r[1]}
    if "string" in c:
        vlib.coq_make(["Model/Wrap.vo"])
        ans = vlib.model_ask("Wrap", [request_of(c)])[0]
        if ans != show_real(real_wrap(c)):
            return {"kind": "correspondence", "model": ans, "real": show_real(real_wrap(c))}
        return string_oracle(c)
    return check_problem(c)


def replay(ctx, path):
    c = load_case(path)
    r = case_fails(c)
    if r is not None:
        print("REPLAY property=C10 still fails:", json.dumps(r, default=str)[:600])
        print(f"VIOLATION property=C10 replay={path}")
        return 1
    print("REPLAY property=C10 passes")
    return 0


# ---------------------------------------------------------------------------- run
def run(ctx):
    import time
    n_str = 1500 if ctx.tier == "quick" else 40000
    n_prob = 600 if ctx.tier == "quick" else 15000
    timing = {}
    t0 = time.time()

    def lap(name):
        nonlocal t0
        timing[name] = round(time.time() - t0, 1)
        t0 = time.time()
    ctx.prove()
    lap("prove")
    ok, log = vlib.coq_make(["Model/Wrap.vo"])
    if not ok:
        ctx.broken_obligations.append({"obligation": "Model/Wrap.vo builds", "detail": log[-800:]})
        return ctx.finish(vlib.KERNEL_TB, [], "model did not build")
    # ---- corpus of string cases (regressions) + generated strings
    cdir = os.path.join(vlib.VERIF, "corpus", "C10")
    corpus_s, corpus_p = [], []
    if os.path.isdir(cdir):
        for f in sorted(os.listdir(cdir)):
            c = load_case(os.path.join(cdir, f))
            (corpus_s if ("string" in c or c.get("kind") == "message") else corpus_p).append(c)
    cases = [c for c in corpus_s if "string" in c]
    for i in range(n_str):
        cases.append(gen_string(random.Random(f"{ctx.seed}:C10:s:{i}")))
    reqs = [request_of(c) for c in cases]
    answers = vlib.model_ask("Wrap", reqs)
    lap("model_answers")
    nx, bad = vlib.vm_crosscheck("Wrap", reqs, answers, sample=50 if ctx.tier == "quick" else 300, seed=ctx.seed)
    if bad:
        ctx.broken_obligations.append({"obligation": "extraction cross-check Wrap", "detail": bad[:2]})
    lap("vm_crosscheck")
    dist = {"W": {80: 0, 128: 0}, "wrapped": 0, "unwrapped": 0, "long_word_cut": 0, "hyphenated_words": 0,
            "with_dollar": 0, "multi_line_strings": 0, "not_first": 0,
            "overlong_lines": 0, "overlong_c_comment_lines": 0, "overlong_dollar_lines": 0,
            "dollar_comment_appended": 0, "dollar_comment_continued": 0, "dollar_started_on_data_line": 0, "dollar_started_on_own_line": 0,
            "c_continuation_lines": 0, "with_tab": 0, "corpus_strings": len([c for c in corpus_s if "string" in c])}
    corr_bad = []
    split_bad = []
    sw_reqs, sw_expect = [], []
    ic_reqs, ic_expect = [], []
    from montepy.utilities import is_comment as real_is_comment
    for c, ans in zip(cases, answers):
        ctx.cov["programs"] += 1
        real = real_wrap(c)
        realx = show_real(real)
        src = [l for l in c["string"].splitlines() if l.strip()]
        wrapped = not isinstance(real, str) and len(real) > len(src)
        ctx.count_case((c["W"], c["first"], c["string"]), nontrivial=wrapped)
        dist["W"][c["W"]] += 1
        dist["wrapped" if wrapped else "unwrapped"] += 1
        dist["with_dollar"] += "$" in c["string"]
        dist["with_tab"] += "\t" in c["string"]
        dist["multi_line_strings"] += len(src) > 1
        dist["not_first"] += not c["first"]
        ctx.cov["disagreements_checked"] += 1
        if realx != ans and realx != "Skipped":
            corr_bad.append({"case": c, "real": real,
                             "model": [unhx(x) for x in ans.split(",")] if re.fullmatch(r"[0-9a-f,]+", ans) else ans})
        ii = 0 if c["first"] else 5
        for l in src:
            ch, munged = real_chunks(l)
            if "".join(ch) != munged:
                split_bad.append({"line": l, "chunks": ch})
            if any(len(x) > c["W"] - 5 for x in ch):
                dist["long_word_cut"] += 1
            if munged:
                sw_reqs.append("splitws " + hx(munged))
                sw_expect.append(",".join(hx(x) for x in ch) or "-")
                dist["hyphenated_words"] += bool(re.search(r"[^\W\d]-[^\W\d]", munged))
            ic_reqs.append("iscomment " + (hx(l) or "x"))
            ic_expect.append("1" if real_is_comment(l) else "0")
            if ii + len(l) > c["W"]:
                dist["overlong_lines"] += 1
                if real_is_comment(l):
                    dist["overlong_c_comment_lines"] += 1
                elif "$" in l:
                    dist["overlong_dollar_lines"] += 1
        if not isinstance(real, str):
            n_cont = len([l for l in real if l.startswith("     $ ")])
            dist["dollar_comment_continued"] += n_cont > 0
            dist["c_continuation_lines"] += len([l for l in real[1:] if l.startswith("c ")])
        for l in src:
            if ii + len(l.expandtabs(8)) > c["W"] and "$" in l and not real_is_comment((" " * ii + l).expandtabs(8)):
                r1 = real_wrap(dict(c, string=l))
                if isinstance(r1, str) or not r1:
                    continue
                k = next((i for i, x in enumerate(r1) if "$" in x), None)
                if k is None:
                    continue
                if k == len(r1) - 1 and not r1[k].startswith("     $"):
                    dist["dollar_comment_appended"] += 1
                elif r1[k].split("$", 1)[0].strip():
                    dist["dollar_started_on_data_line"] += 1
                else:
                    dist["dollar_started_on_own_line"] += 1
    sw_ans = vlib.model_ask("Wrap", sw_reqs)
    sw_bad = [(unhx(r.split()[1]), a, e) for r, a, e in zip(sw_reqs, sw_ans, sw_expect) if a != e]
    ic_ans = vlib.model_ask("Wrap", ic_reqs)
    ic_bad = [(r, a, e) for r, a, e in zip(ic_reqs, ic_ans, ic_expect) if a != e]
    ctx.sample({"W": cases[-1]["W"], "first": cases[-1]["first"], "string": cases[-1]["string"],
                "wrapped": real_wrap(cases[-1])})
    if corr_bad:
        ctx.broken_obligations.append({"obligation": "correspondence Wrap.wrap_lines vs MCNP_Object.wrap_string_for_mcnp",
                                       "detail": {"n": len(corr_bad), "first": min(corr_bad, key=lambda b: len(b["case"]["string"]))}})
    if split_bad:
        ctx.broken_obligations.append({"obligation": "real chunks concatenate to the munged text", "detail": split_bad[:2]})
    if sw_bad:
        ctx.broken_obligations.append({"obligation": "TextWrapper._split (break_on_hyphens=False) = Wrap.split_ws", "detail": sw_bad[:2]})
    if ic_bad:
        ctx.broken_obligations.append({"obligation": "utilities.is_comment = Wrap.is_comment", "detail": ic_bad[:2]})
    # ---- message block and title: correspondence and oracle
    n_msg = 400 if ctx.tier == "quick" else 8000
    mcases = [c for c in corpus_s if c.get("kind") == "message"]
    mcases += [gen_message_case(random.Random(f"{ctx.seed}:C10:m:{i}")) for i in range(n_msg)]
    mreq = []
    for c in mcases:
        mreq += [message_request(c), "title %d %s" % (c["W"], hx(c["title"]) or "x")]
    mans = vlib.model_ask("Wrap", mreq)
    md = {"cases": len(mcases), "init": 0, "edited": 0, "first_line_cut": 0, "other_line_cut": 0, "title_cut": 0,
          "empty_block": 0, "W": {80: 0, 128: 0}}
    m_bad = []
    for k, c in enumerate(mcases):
        ctx.cov["programs"] += 1
        ctx.cov["disagreements_checked"] += 1
        rm, rt = real_message(c), real_title(c)
        cut = (not isinstance(rm, str)) and any(len(o) >= c["W"] - 1 for o in rm)
        ctx.count_case(("m", c["W"], c["init"], tuple(c["lines"]), c["title"]), nontrivial=cut)
        md["init" if c["init"] else "edited"] += 1
        md["W"][c["W"]] += 1
        md["empty_block"] += not c["lines"]
        if c["lines"]:
            md["first_line_cut"] += len(c["lines"][0].rstrip() if c["init"] else c["lines"][0]) > c["W"] - 10
            md["other_line_cut"] += any(len(l.rstrip() if c["init"] else l) > c["W"] - 1 for l in c["lines"][1:])
        md["title_cut"] += len(c["title"].rstrip()) > c["W"] - 1
        if show_lines(rm) != mans[2 * k]:
            m_bad.append({"case": c, "real": rm, "model": mans[2 * k]})
        elif (rt if isinstance(rt, str) else hx(rt[0]) if len(rt) == 1 else "?") != mans[2 * k + 1]:
            m_bad.append({"case": c, "real_title": rt, "model": mans[2 * k + 1]})
        r = message_oracle(c)
        if r is not None:
            ctx.fail({"kind": r[0], "detail": r[1], "case": c})
    if m_bad:
        ctx.broken_obligations.append({"obligation": "correspondence Wrap.message_lines/title_line vs Message/Title.format_for_mcnp_input",
                                       "detail": {"n": len(m_bad), "first": m_bad[0]}})
    lap("correspondence")
    # ---- the property on the real output of every string case, by the independent rules
    sd = {"lines_judged": 0, "failing_lines": 0, "failing_kinds": {}}
    unexplained = 0
    for c in cases:
        for line in c["string"].splitlines():
            sd["lines_judged"] += 1
            r = string_oracle_line(line, c["W"], c["first"], c.get("before"))
            if r is None:
                continue
            sd["failing_lines"] += 1
            sd["failing_kinds"][r[0]] = sd["failing_kinds"].get(r[0], 0) + 1
            fc = {"kind": r[0], "detail": r[1],
                  "case": {"W": c["W"], "first": c["first"], "string": line, "before": c.get("before")}}
            if ctx.attribute(fc):              # every failing line is examined; only unexplained ones are shrunk
                ctx.fail(fc)
                continue
            unexplained += 1
            if unexplained > 5:
                continue
            small = shrink_line(line, c["W"], c["first"], r[0], c.get("before"))
            r2 = string_oracle_line(small, c["W"], c["first"], c.get("before"))
            fc2 = dict(fc, kind=r2[0], detail=r2[1], case=dict(fc["case"], string=small))
            ctx.fail(fc2 if not ctx.attribute(fc2) else fc)
    sd["unexplained_failing_lines"] = unexplained
    # the multi-line call is the concatenation of the per-line calls
    for c in cases[:300]:
        real = real_wrap(c)
        if isinstance(real, str):
            continue
        parts = []
        for line in c["string"].splitlines():
            r = real_wrap(dict(c, string=line))
            parts += r if not isinstance(r, str) else [r]
        if parts != real:
            ctx.fail({"kind": "string-lines-not-independent", "case": c, "detail": [real, parts]})
            break
    lap("string_oracle")
    # ---- whole-problem oracle
    pd = {"problems": 0, "with_edits": 0, "read_failed": 0, "write_failed": 0, "wrapped80": 0,
          "comment_continuations80": 0, "with_message_block": 0, "message_lines_cut80": 0, "corpus": len(corpus_p)}
    for i in range(-len(corpus_p), n_prob):
        rng = random.Random(f"{ctx.seed}:C10:p:{i}")
        pc = corpus_p[i + len(corpus_p)] if i < 0 else problem_case(rng, i)
        ctx.count_case(("p", pc["text"], str(pc["edits"])), nontrivial=True)
        pd["problems"] += 1
        pd["with_edits"] += bool(pc["edits"])
        r = check_problem(pc, pd)
        if r is not None:
            small = shrink_problem(pc, lambda cc: check_problem(cc) is not None)
            r = check_problem(small)
            ctx.fail({"kind": r["kind"], "case": small, "detail": r})
            if len(ctx.violations) >= 3:
                break
        if 0 <= i < 2:
            ctx.sample({"problem_text": pc["text"][:600], "edits": pc["edits"]})
    lap("problem_oracle")
    # known findings: replay the committed ones
    for fd in ctx.findings:
        if fd.get("status") == "open" and fd.get("replay"):
            try:
                fd["_reproduced"] = case_fails(load_case(os.path.join(vlib.VERIF, fd["replay"]))) is not None
            except Exception:
                fd["_reproduced"] = False
    tb = vlib.KERNEL_TB + [
        "modelled, not verified: textwrap.TextWrapper._munge_whitespace/_wrap_chunks/_handle_long_word (CPython 3.12), "
        "montepy.utilities.is_comment, MCNP_Object._wrap_line and MCNP_Object.wrap_string_for_mcnp as coq/Model/Wrap.v; "
        "NOT modelled: TextWrapper._split's regular expression (the chunks of the line, of its data part and of its "
        "comment part are inputs of the model; the model refuses chunk lists that do not concatenate to its munged text; "
        "hyphen-free text chunks = Wrap.split_ws is checked per case); str.splitlines",
        f"vm_compute cross-check of {nx} requests",
    ]
    assumptions = [
        "the data-token and comment-text theorems assume chunks = split_ws (breaks at blanks only) and every data chunk "
        "<= W - 5; text with letter-hyphen-letter words can be broken inside a token by textwrap (break_on_hyphens): "
        "the string oracle searches exactly that on the real code",
        "whole-file oracle: spec.py (independent reader) compares the 80- and 128-column outputs of the same problem; "
        "comment text is compared with blanks removed (where a long comment is broken is not content)",
    ]
    return ctx.finish(tb, assumptions,
                      "cases = generated strings (data tokens, hyphenated words, long words, tabs, '$' comments after data of "
                      "every length, 'c' comment lines with every indentation, blank data before '$'; lengths around the "
                      "80/128 limits) + generated problems laid out near the limit with comments lengthened to the limit and "
                      "number-growing edits; distinct = distinct (W, first, string) or problem text; non-trivial = the string "
                      "was actually wrapped (or a whole problem)",
                      extra={"input_distribution": dict(dist, real_calls_that_hung=HANGS["n"]), "message_title_stream": md,
                             "string_oracle": sd, "problem_stream": pd, "timing_s": timing})
