"""C10 — written lines obey MCNP's physical line rules without changing content.

Obligations: coq/Properties/C10.v over coq/Model/Wrap.v (textwrap._wrap_chunks + wrap_string_for_mcnp).
Correspondence: MCNP_Object.wrap_string_for_mcnp on generated strings vs the extracted Wrap model,
byte for byte; on every case also: real chunks concatenate to the munged text, and for hyphen-free
text the real chunker equals the model's split_ws.
Oracle (search): whole problems whose cards approach the limit, edited so numbers grow, written for the
128- and 80-column regimes: line length, continuation indent, first-line rule, and the files written for
both regimes must denote the same inputs/comments under the independent reader (spec.py).
"""
import json
import os
import random
import re
import textwrap
import warnings

import vlib
import spec
import gen
import mp

VERSIONS = {128: (6, 2, 0), 80: (5, 1, 60)}


def hx(s):
    return s.encode("latin-1", "replace").hex()


def unhx(s):
    return bytes.fromhex(s).decode("latin-1")


def real_chunks(line):
    w = textwrap.TextWrapper(width=80, drop_whitespace=False)
    return w._split(w._munge_whitespace(line)), w._munge_whitespace(line)


def request_of(case):
    lines = case["string"].splitlines()
    parts = []
    for l in lines:
        ch, _ = real_chunks(l)
        parts.append(",".join(hx(c) for c in ch) or "-")
    return "%d %d 5 %s" % (case["W"], 1 if case["first"] else 0, "/".join(parts) or "-")


def real_wrap(case):
    from montepy.mcnp_object import MCNP_Object
    with warnings.catch_warnings():
        warnings.simplefilter("ignore")
        return MCNP_Object.wrap_string_for_mcnp(case["string"], VERSIONS[case["W"]], case["first"])


def gen_string(rng):
    W = rng.choice([80, 128])
    nlines = rng.choice([1, 1, 1, 2, 3])
    out = []
    for _ in range(nlines):
        target = rng.choice([10, W - 8, W - 2, W - 1, W, W + 1, W + 3, W + 30, 2 * W + 5, 3 * W])
        toks = []
        cur = 0
        start = rng.choice(["", "", "     ", "      "])
        while cur < target:
            r = rng.random()
            if r < 0.5:
                t = gen.fmt_real(rng)
            elif r < 0.6:
                t = rng.choice(["imp:n=1", "vol=2.5", "u=3", "fill=4", "(", ")", ":", "#5", "-12", "+7"])
            elif r < 0.7:
                t = rng.choice(["be-met.40t", "h-h2o.40t", "lwtr.10t", "one-two-three", "a--b", "x-y", "1e-5", "---", "-", "--x"])
            elif r < 0.75:
                t = "$ " + rng.choice(["a comment with several words in it", "c", "x=1 2 3"])
            elif r < 0.8:
                t = "w" * rng.choice([1, 20, W - 6, W - 5, W - 4, W, W + 9, 2 * W + 1])
            elif r < 0.83:
                t = "\t" + gen.fmt_real(rng)
            elif r < 0.86:
                t = rng.choice(["92235.80c", "1001.710nc", "c", "C"])
            else:
                t = str(rng.randint(-99999, 99999))
            sep = " " * rng.choice([1, 1, 1, 2, 5])
            toks.append(t)
            cur += len(t) + len(sep)
            toks.append(sep)
        line = start + "".join(toks)
        if rng.random() < 0.5:
            line = line.rstrip()
        out.append(line)
    if rng.random() < 0.1:
        out.insert(rng.randrange(len(out) + 1), rng.choice(["", "   ", "          "]))
    return {"W": W, "first": rng.random() < 0.8, "string": "\n".join(out)}


# ---------------------------------------------------------------------------- whole-file oracle
def line_rule_violations(text, W):
    """physical rules on a written file"""
    bad = []
    for i, l in enumerate(text.split("\n")):
        if len(l) > W:
            bad.append(("too long", i + 1, len(l), l[:60]))
    return bad


def problem_case(rng, idx):
    """a problem whose cards are laid out close to the limit + edits that make numbers longer"""
    P = gen.gen_problem(rng, dict(max_cells=6))
    width = rng.choice([80, 80, 128])
    L = gen.layout_opts(rng, wild=False, width=width)
    L["width"] = width - rng.choice([0, 0, 1, 2, 10])
    L["dollar"] = rng.choice([0, 0, 0.1, 0.3])
    text = gen.render(rng, P, L)
    edits = []
    for _ in range(rng.choice([0, 1, 2, 4])):
        s = rng.choice(P["meta"]["surfaces"])
        edits.append(("surf_const", s, rng.choice([1.23456789012, 123456.789012345, 1e-7 / 3, 7.0])))
    if rng.random() < 0.3:
        edits.append(("title", "T" * rng.choice([10, 79, 80, 127, 128, 200])))
    return {"text": text, "edits": edits, "layout_width": L["width"]}


def apply_edits(pr, edits):
    for e in edits:
        if e[0] == "surf_const":
            s = pr.surfaces[e[1]]
            c = list(s.surface_constants)
            if c:
                c[0] = e[2]
                s.surface_constants = c
        elif e[0] == "title":
            pr.title = e[1]


def check_problem(case):
    """-> None or failure dict"""
    try:
        pr = mp.read_problem(case["text"])
    except Exception as e:   # reading is C12/C13's business
        return None
    try:
        apply_edits(pr, case["edits"])
        out128 = mp.write_problem(pr, "o128.i", (6, 2, 0))
        out80 = mp.write_problem(pr, "o80.i", (5, 1, 60))
    except Exception as e:
        return None
    for W, out in ((128, out128), (80, out80)):
        bad = line_rule_violations(out, W)
        if bad:
            return {"kind": "line-too-long", "W": W, "detail": bad[:3]}
        sp = spec.split_file(out, W)
        # a continuation line must start with >= 5 blanks; a card must not start as comment/continuation:
        # both are implied by the re-split giving the same cards as the other regime, checked next
    a = case.get("title_edit")
    diffs = spec.compare_files(out128, out80, 128, 80)
    # a title/message longer than the limit is truncated by design (Title.format_for_mcnp_input)
    diffs = [d for d in diffs if d[0] not in ("title", "message")]
    if diffs:
        return {"kind": "regimes-differ", "detail": [list(map(str, d))[:5] for d in diffs[:2]],
                "has_dollar": "$" in out128}
    return None


def shrink_problem(case, failing):
    cur = dict(case)
    lines = cur["text"].split("\n")
    # drop edits
    for i in range(len(cur["edits"]) - 1, -1, -1):
        cand = dict(cur, edits=cur["edits"][:i] + cur["edits"][i + 1:])
        if failing(cand):
            cur = cand
    return cur


def replay(ctx, path):
    case = json.load(open(path))
    c = case.get("case", case)
    if "string" in c:
        ok, _ = vlib.coq_make(["Model/Wrap.vo"])
        ans = vlib.model_ask("Wrap", [request_of(c)])[0]
        real = ",".join(hx(l) for l in real_wrap(c)) or "-"
        bad = ans != real
    else:
        c["edits"] = [tuple(e) for e in c["edits"]]
        bad = check_problem(c) is not None
    if bad:
        print("REPLAY property=C10 still fails")
        print(f"VIOLATION property=C10 replay={path}")
        return 1
    print("REPLAY property=C10 passes")
    return 0


def run(ctx):
    n_str = 1500 if ctx.tier == "quick" else 60000
    n_prob = 150 if ctx.tier == "quick" else 6000
    ctx.prove()
    ok, log = vlib.coq_make(["Model/Wrap.vo"])
    if not ok:
        ctx.broken_obligations.append({"obligation": "Model/Wrap.vo builds", "detail": log[-800:]})
        return ctx.finish(vlib.KERNEL_TB, [], "model did not build")
    # ---- correspondence on strings
    cases = []
    for i in range(n_str):
        cases.append(gen_string(random.Random(f"{ctx.seed}:C10:s:{i}")))
    reqs = [request_of(c) for c in cases]
    answers = vlib.model_ask("Wrap", reqs)
    nx, bad = vlib.vm_crosscheck("Wrap", reqs, answers, sample=60 if ctx.tier == "quick" else 300, seed=ctx.seed)
    if bad:
        ctx.broken_obligations.append({"obligation": "extraction cross-check Wrap", "detail": bad[:2]})
    dist = {"W": {80: 0, 128: 0}, "wrapped": 0, "unwrapped": 0, "long_word_cut": 0, "hyphen_chunks": 0,
            "with_dollar": 0, "multi_line_strings": 0}
    corr_bad = []
    split_bad = []
    sw_reqs = []
    sw_expect = []
    for c, ans in zip(cases, answers):
        ctx.cov["programs"] += 1
        real = real_wrap(c)
        realx = ",".join(hx(l) for l in real) or "-"
        nlines = len([l for l in c["string"].splitlines() if l.strip()])
        wrapped = len(real) > nlines
        ctx.count_case(reqs[len(corr_bad) + ctx.cov["programs"] - 1] if False else (c["W"], c["first"], c["string"]), nontrivial=wrapped)
        dist["W"][c["W"]] += 1
        dist["wrapped" if wrapped else "unwrapped"] += 1
        dist["with_dollar"] += "$" in c["string"]
        dist["multi_line_strings"] += nlines > 1
        ctx.cov["disagreements_checked"] += 1
        if realx != ans:
            corr_bad.append({"case": c, "real": real, "model": [unhx(x) for x in ans.split(",")] if ans not in ("-", "outoffuel") else ans})
        for l in c["string"].splitlines():
            ch, munged = real_chunks(l)
            if "".join(ch) != munged:
                split_bad.append({"line": l, "chunks": ch})
            if any(len(x) > c["W"] - 5 for x in ch):
                dist["long_word_cut"] += 1
            if "-" not in munged and munged:
                sw_reqs.append("splitws " + hx(munged))
                sw_expect.append(",".join(hx(x) for x in ch) or "-")
            elif munged:
                dist["hyphen_chunks"] += 1
    sw_ans = vlib.model_ask("Wrap", sw_reqs)
    sw_bad = [(unhx(r.split()[1]), a, e) for r, a, e in zip(sw_reqs, sw_ans, sw_expect) if a != e]
    ctx.sample({"W": cases[0]["W"], "first": cases[0]["first"], "string": cases[0]["string"],
                "wrapped": real_wrap(cases[0])})
    if corr_bad:
        ctx.broken_obligations.append({"obligation": "correspondence Wrap.wrap_lines vs MCNP_Object.wrap_string_for_mcnp",
                                       "detail": {"n": len(corr_bad), "first": corr_bad[0]}})
    if split_bad:
        ctx.broken_obligations.append({"obligation": "real chunks concatenate to the munged text", "detail": split_bad[:2]})
    if sw_bad:
        ctx.broken_obligations.append({"obligation": "TextWrapper._split = Wrap.split_ws on hyphen-free text", "detail": sw_bad[:2]})
    # the model-level line rules, checked on the real output as well (the theorems are about the model)
    for c in cases:
        for l in real_wrap(c):
            if len(l) > c["W"]:
                ctx.fail({"kind": "string-line-too-long", "case": c, "line": l})
                break
    # ---- whole-problem oracle
    pd = {"problems": 0, "with_edits": 0, "read_failed": 0, "wrapped80": 0}
    corpus = []
    cdir = os.path.join(vlib.VERIF, "corpus", "C10")
    if os.path.isdir(cdir):
        for f in sorted(os.listdir(cdir)):
            with open(os.path.join(cdir, f)) as fh:
                c = json.load(fh)
            c = c.get("case", c)
            c["edits"] = [tuple(e) for e in c.get("edits", [])]
            corpus.append(c)
    pd["corpus"] = len(corpus)
    for i in range(-len(corpus), n_prob):
        rng = random.Random(f"{ctx.seed}:C10:p:{i}")
        pc = corpus[i + len(corpus)] if i < 0 else problem_case(rng, i)
        ctx.count_case(("p", pc["text"], str(pc["edits"])), nontrivial=True)
        pd["problems"] += 1
        pd["with_edits"] += bool(pc["edits"])
        r = check_problem(pc)
        if r is not None:
            small = shrink_problem(pc, lambda cc: check_problem(cc) is not None)
            r = check_problem(small)
            ctx.fail({"kind": r["kind"], "case": small, "detail": r})
            if len(ctx.violations) >= 3:
                break
        if i < 2:
            ctx.sample({"problem_text": pc["text"][:600], "edits": pc["edits"]})
    # known findings: replay the committed ones
    for fd in ctx.findings:
        if fd.get("status") == "open" and fd.get("replay"):
            try:
                with open(os.path.join(vlib.VERIF, fd["replay"])) as fh:
                    c = json.load(fh)
                c = c.get("case", c)
                c["edits"] = [tuple(e) for e in c.get("edits", [])]
                fd["_reproduced"] = check_problem(c) is not None
            except Exception:
                fd["_reproduced"] = False
    tb = vlib.KERNEL_TB + [
        "modelled, not verified: textwrap.TextWrapper._wrap_chunks/_handle_long_word (CPython 3.12) and "
        "MCNP_Object.wrap_string_for_mcnp as coq/Model/Wrap.v; NOT modelled: TextWrapper._split's regular expression "
        "(chunks are an input of the model; checked per case: chunks concatenate to the munged text; "
        "hyphen-free text chunks = Wrap.split_ws)",
        f"vm_compute cross-check of {nx} requests",
    ]
    assumptions = [
        "C10_resplit assumes chunks = split_ws text (hyphen-free text) and every chunk <= W - 5; "
        "text with letter-hyphen-letter words can be broken inside a token by textwrap (break_on_hyphens)",
        "whole-file oracle: spec.py (independent reader) compares the 80- and 128-column outputs of the same problem",
    ]
    return ctx.finish(tb, assumptions,
                      "cases = generated strings (tokens, hyphenated words, $ comments, long words, tabs; targets around "
                      "the 80/128 limits) + generated problems laid out near the limit with number-growing edits; "
                      "distinct = distinct (W, first, string) or problem text; non-trivial = the string was actually wrapped "
                      "(or a whole problem)",
                      extra={"input_distribution": dist, "problem_stream": pd})
