"""C20 — files pulled in by read cards are merged exactly once, in the right block.

Obligations: coq/Properties/C20.v over coq/Model/ReadQ.v (reading_queue, flush_input's read-card test, the drain
loop, path resolution) on top of coq/Model/Lines.v (the line loop).

Correspondence: generated trees of files (depth <= 4, several read cards per file, any block, comments around them,
sub-directories, trailing blank lines, missing targets, malformed read cards, read cycles, text behind the data
block) are written to a scratch directory under /tmp/C20-*, read by the REAL montepy.input_parser.input_syntax_reader
in a subprocess whose working directory is a different directory (twice in one process: the module-global queue),
and the stream of (file, block type, first line number, lines) / the exception class is compared with the extracted
model's read_all on the same bytes.  Further pairs: ReadInput (is_read_input, file_name) vs classify_lines on card
texts inside and around the modelled class; os.path.dirname / join vs the model's; Coq's flatten on the tree
given by its cards vs the flattening done here.

Oracle (independent of the model): the tree read by montepy.read_input == the single flattened file read by
montepy.read_input (same exception class; same inputs block by block up to the attribution of comment lines; same
written file), that reading == what spec.py says the flattened text denotes (cell / surface numbers, number of data
inputs), the written file holds every input and no read card, a missing target gives FileNotFoundError, and the
result does not depend on the working directory.  A read cycle must end in an exception, not hang (finding).

A possibly cyclic tree is never read in this process: every real read happens in a worker subprocess under a
per-case deadline.
"""
import json
import os
import posixpath
import random
import re
import select
import shutil
import subprocess
import sys
import threading
import time

HERE = os.path.dirname(os.path.abspath(__file__))
if __name__ != "__main__":
    import vlib
    import spec
    import gen

VERSIONS = {128: (6, 2, 0), 80: (5, 1, 60)}
FUEL = 60
CASE_TIMEOUT = 25.0        # a non-cyclic case that takes longer counts as a hang
CYCLE_TIMEOUT = 10.0       # a tree with a read cycle must raise well within this
LANES = 4


def hx(s):
    return s.encode("latin-1", "replace").hex()


def unhx(s):
    return bytes.fromhex(s).decode("latin-1")


# ============================================================================ worker (runs the real MontePy)
def worker_main():
    import warnings
    repo = os.environ.get("VERIF_REPO", "/repo")
    sys.path.insert(0, repo)
    warnings.simplefilter("ignore")
    import montepy
    from montepy.input_parser import input_syntax_reader as isr
    from montepy.input_parser.input_file import MCNP_InputFile
    from montepy.input_parser.mcnp_input import Input, Message, Title

    def syn(path, version):
        out = {"message": None, "title": None, "ys": [], "err": "ok"}
        try:
            for x in isr.read_input_syntax(MCNP_InputFile(path), version):
                if x is None:
                    out["ys"].append(None)
                elif isinstance(x, Message):
                    out["message"] = list(x.lines)
                elif isinstance(x, Title):
                    out["title"] = x.title
                elif isinstance(x, Input):
                    out["ys"].append([x.input_file.path, x.block_type.value, x.line_number, list(x.input_lines)])
                else:
                    out["ys"].append(["?", type(x).__name__])
        except Exception as e:
            out["err"] = type(e).__name__
        return out

    def first_word(obj, version):
        try:
            lines = obj.format_for_mcnp_input(version)
            for l in lines:
                if l.strip() and not re.match(r"^ {0,4}[cC]( |$)", l):
                    return l.split()[0].lower()
        except Exception as e:
            return "exc:" + type(e).__name__
        return ""

    def full(path, version, outpath):
        res = {"err": "ok"}
        try:
            pr = montepy.read_input(path, mcnp_version=version)
        except Exception as e:
            res["err"] = type(e).__name__
            return res
        try:
            res["cells"] = [c.number for c in pr.cells]
            res["surfaces"] = [s.number for s in pr.surfaces]
            res["ndata"] = len(pr.data_inputs)
            res["data_words"] = [first_word(d, version) for d in pr.data_inputs]
            res["none_count"] = sum(1 for x in pr._original_inputs if x is None) if hasattr(pr, "_original_inputs") else -1
        except Exception as e:
            res["err"] = "summary:" + type(e).__name__
            return res
        try:
            pr.write_to_file(outpath, overwrite=True)
            with open(outpath, newline="") as f:
                res["written"] = f.read()
        except Exception as e:
            res["write_err"] = type(e).__name__
        return res

    for line in sys.stdin:
        line = line.strip()
        if not line:
            continue
        job = json.loads(line)
        version = tuple(job["version"])
        res = {"id": job["id"]}
        try:
            os.chdir(job["cwd"])
            res["syn"] = syn(job["top"], version)
            if job.get("twice", True):
                res["syn_again_same"] = (syn(job["top"], version) == res["syn"])
            if job.get("full", True):
                res["full"] = full(job["top"], version, job["out"] + ".tree")
            if job.get("flat"):
                res["flat_syn"] = syn(job["flat"], version)
                res["flat_full"] = full(job["flat"], version, job["out"] + ".flat")
            if job.get("cwd2"):
                os.chdir(job["cwd2"])
                res["syn_cwd2"] = syn(job["top2"], version)
        except Exception as e:       # the worker itself
            res["worker_err"] = type(e).__name__ + ": " + str(e)[:200]
        sys.stdout.write(json.dumps(res) + "\n")
        sys.stdout.flush()


def names_worker_main():
    """ReadInput on card texts: one JSON list of [lines, bt] on stdin -> list of results"""
    import warnings
    repo = os.environ.get("VERIF_REPO", "/repo")
    sys.path.insert(0, repo)
    warnings.simplefilter("ignore")
    from montepy.input_parser.mcnp_input import ReadInput
    from montepy.input_parser.block_type import BlockType
    from montepy.errors import ParsingError
    jobs = json.load(sys.stdin)
    out = []
    for lines, bt in jobs:
        isr = ReadInput.is_read_input(lines)
        try:
            r = ReadInput(lines, BlockType(bt))
            out.append([isr, "n", r.file_name])
        except ParsingError:
            out.append([isr, "err", "ParsingError"])
        except ValueError as e:
            out.append([isr, "not" if not isr else "other", type(e).__name__])
        except Exception as e:
            out.append([isr, "other", type(e).__name__])
    json.dump(out, sys.stdout)


class Lane:
    """a persistent worker process; a case that exceeds its deadline kills it"""

    def __init__(self):
        self.p = None

    def start(self):
        env = dict(os.environ)
        env["PYTHONHASHSEED"] = "0"
        self.p = subprocess.Popen([vlib.PY, "-W", "ignore", os.path.abspath(__file__), "--worker"],
                                  stdin=subprocess.PIPE, stdout=subprocess.PIPE, stderr=subprocess.DEVNULL,
                                  text=True, env=env, cwd="/tmp")

    def stop(self):
        if self.p is not None:
            try:
                self.p.kill()
                self.p.wait(timeout=5)
            except Exception:
                pass
            self.p = None

    def run(self, job, timeout):
        if self.p is None or self.p.poll() is not None:
            self.start()
        try:
            self.p.stdin.write(json.dumps(job) + "\n")
            self.p.stdin.flush()
        except Exception:
            self.stop()
            return {"id": job["id"], "timeout": False, "worker_err": "worker died"}
        deadline = time.time() + timeout
        while True:
            left = deadline - time.time()
            if left <= 0:
                self.stop()
                return {"id": job["id"], "timeout": True}
            r, _, _ = select.select([self.p.stdout], [], [], left)
            if r:
                line = self.p.stdout.readline()
                if not line:
                    self.stop()
                    return {"id": job["id"], "timeout": False, "worker_err": "worker died"}
                try:
                    return json.loads(line)
                except ValueError:
                    continue


def run_jobs(jobs, timeouts):
    """jobs: list of dicts with 'id'; -> {id: result}; at most LANES worker processes"""
    results = {}
    lock = threading.Lock()
    it = iter(list(zip(jobs, timeouts)))

    def work():
        lane = Lane()
        try:
            while True:
                with lock:
                    nxt = next(it, None)
                if nxt is None:
                    return
                job, to = nxt
                res = lane.run(job, to)
                with lock:
                    results[job["id"]] = res
        finally:
            lane.stop()

    ths = [threading.Thread(target=work) for _ in range(min(LANES, max(1, len(jobs))))]
    for t in ths:
        t.start()
    for t in ths:
        t.join()
    return results


# ============================================================================ generator
STEMS = ["cells", "surf", "data", "mat", "geom", "part", "inc", "x", "aa", "blk", "src", "tal", "file", "read", "n", "c"]
EXTS = [".i", ".txt", ".imcnp", ".inp", "", ".mcnp", ".dat"]
DIRS = ["", "", "", "sub/", "inc/", "a/b/", "sub/deep/", "./", "sub/../"]


def name_in_class(s):
    return (s != "" and re.fullmatch(r"[A-Za-z0-9_./-]+", s) is not None
            and re.search(r"[0-9][A-Za-z\-]|\.[eE\-]", s) is None and s.lower() != "c")


def fresh_name(rng, used):
    for _ in range(200):
        d = rng.choice(DIRS)
        stem = rng.choice(STEMS)
        if rng.random() < 0.6:
            stem += rng.choice(["_", "", "."]) + str(rng.randint(0, 99))
            if rng.random() < 0.3:
                stem += "_" + rng.choice(STEMS)
        if rng.random() < 0.15:
            stem = stem.upper()
        n = d + stem + rng.choice(EXTS)
        key = posixpath.normpath(n)
        if name_in_class(n) and key not in used and not key.startswith(".."):
            # a file and a directory of the same name cannot coexist
            if any(u.startswith(key + "/") or key.startswith(u + "/") for u in used):
                continue
            used.add(key)
            return n
    raise RuntimeError("no fresh name")


def read_card_lines(rng, name):
    kw = rng.choice(["read", "read", "READ", "Read", "rEAd"])
    fk = rng.choice(["file", "file", "FILE", "File"])
    sepk = rng.choice(["=", "=", "=", " ", " = ", "= ", " =", "   "])
    form = rng.random()
    if form < 0.70:
        lines = [f"{kw} {fk}{sepk}{name}"]
    elif form < 0.80:
        lines = [f"{kw} &", " " * rng.choice([0, 2, 5, 7]) + f"{fk}{sepk}{name}"]
    elif form < 0.90:
        lines = [f"{kw}", " " * rng.choice([5, 6, 9]) + f"{fk}{sepk}{name}"]
    else:
        lines = [f"{kw}   {fk}{sepk}{name}" + " " * rng.choice([0, 1, 3])]
    if rng.random() < 0.2:
        lines[-1] += " $ " + rng.choice(["the cells", "more data", "read file=other.i", "x"])
    while rng.random() < 0.2:
        lines.append(rng.choice(["c comment behind the read card", "C", "  c   indented", "c read file=no.i"]))
    if rng.random() < 0.1:
        lines[0] = " " * rng.choice([1, 2, 4]) + lines[0]
    return lines


def bad_read_card(rng, name):
    return rng.choice([
        [f"read echo file={name}"], [f"read noecho file={name}"], ["read"], ["read file"], ["read file="],
        [f"read file={name} noecho"], [f"read file={name} extra"], [f"read {name}"],
        [f"read fle={name}"], [f"read decode={name}"],
    ])


def build_file(rng, cards, depth, used, files, path, bt_of_card, opts):
    """distribute `cards` (list of (bt, lines)) over this file and sub-files; returns the item list of this file.
    items: {'bt': block index in this file's text (0 for sub-files), 'lines': [...], 'read': name|None}"""
    n = len(cards)
    maxr = 0 if depth >= 4 else (3 if depth == 0 else 2)
    r = 0
    if maxr and (n >= 1 or depth == 0 or rng.random() < 0.1):
        r = rng.choice([0, 1, 1, 2, 3][: maxr + 2]) if depth else rng.choice([1, 1, 2, 2, 3])
        if depth and n <= 1 and rng.random() < 0.6:
            r = 0
        if opts.get("no_reads"):
            r = 0
    groups = [[] for _ in range(r + 1)]
    for c in cards:
        g = 0 if rng.random() < (0.5 if r else 1.0) else rng.randint(1, r)
        groups[g].append(c)
    items = [{"lines": list(c), "read": None} for c in groups[0]]
    for j in range(1, r + 1):
        name = fresh_name(rng, used)
        sub_items = build_file(rng, groups[j], depth + 1, used, files, name, bt_of_card, opts)
        files[name] = {"items": sub_items, "tail": rng.choice([[], [], [""], ["", ""], ["   "], ["", "  ", ""]]),
                       "final_newline": rng.random() < 0.85, "eol": "\r\n" if rng.random() < 0.08 else "\n"}
        pos = rng.randint(0, len(items))
        items.insert(pos, {"lines": read_card_lines(rng, name), "read": name})
        if rng.random() < 0.25:
            # a comment line in front of the read card: it belongs to the card before it, or leads the block
            cm = rng.choice(["c the next card reads a file", "C", "c ---- include ----"])
            if pos > 0:
                items[pos - 1]["lines"].append(cm)
            else:
                items[pos]["lines"].insert(0, cm)
    if depth > 0 and items and rng.random() < 0.1:
        items[0]["lines"].insert(0, rng.choice(["c this file holds part of a block", "c"]))
    return items


def gen_case(rng, idx):
    kind = rng.choices(["plain", "missing", "badcard", "cycle", "innerblank", "afterterm", "tiny"],
                       weights=[66, 7, 5, 4, 5, 7, 6])[0]
    W = rng.choice([128, 128, 80])
    if kind == "tiny":
        blocks = [[["1 0 -1 imp:n=1"], ["2 0 1 imp:n=1"]], [["1 so 5"]], [["mode n"], ["nps 10"], ["sdef"]]]
        title = "tiny problem"
        message = None
    else:
        P = gen.gen_problem(rng, dict(max_cells=5, message=rng.random() < 0.2))
        L = gen.layout_opts(rng, wild=rng.random() < 0.3, width=78)
        L["eol"] = "\n"
        blocks = [[gen.render_card(rng, c, L) for c in P[k]] for k in ("cells", "surfaces", "data")]
        title = P["title"]
        message = P.get("message")
    used = {"top.i"}
    files = {}
    top_blocks = []
    for b in range(3):
        items = build_file(rng, blocks[b], 0, used, files, "top.i", b, {"no_reads": rng.random() < 0.25})
        top_blocks.append(items)
    case = {"kind": kind, "W": W, "title": title, "message": message, "top_blocks": top_blocks, "files": files,
            "after": None, "top_eol": "\n", "topdir": rng.choice(["root", "root/in", "r"]),
            "top_mode": rng.choice(["abs", "abs", "rel"]), "idx": idx}
    names = list(files)
    case["decoys"] = {}
    # same-named decoys next to a sub-file that sits in a sub-directory and reads another file: a reader that resolved
    # the name against that file's own directory (or the working directory) would load the decoy
    for n, f in files.items():
        d = posixpath.dirname(posixpath.normpath(n))
        for it in f["items"]:
            t = it.get("read")
            if t and d and rng.random() < 0.6:
                dk = posixpath.normpath(posixpath.join(d, t))
                if dk not in used and not any(u.startswith(dk + "/") or dk.startswith(u + "/") for u in used):
                    case["decoys"][dk] = "c decoy: this file must not be read\n"
    if kind == "plain" and names and rng.random() < 0.3:
        # one file read through two read cards of the data block: it is loaded once per read card
        shared = fresh_name(rng, used)
        files[shared] = {"items": [{"lines": [rng.choice(["ctme 5", "prdmp j 1", "print"])], "read": None}],
                         "tail": [], "final_newline": True, "eol": "\n"}
        holders = [top_blocks[2]] + [files[n]["items"] for n in names if block_of_file(case, n) == 2]
        for _ in range(2):
            h = rng.choice(holders)
            h.insert(rng.randint(0, len(h)), {"lines": [f"read file={shared}"], "read": shared})
        names = list(files)
    if kind == "missing" and names:
        case["missing"] = rng.choice(names)
        # a file of that name in the working directory must not be taken instead
        case["cwd_decoy"] = posixpath.normpath(case["missing"])
    elif kind == "badcard":
        tgt = rng.choice([top_blocks[rng.randrange(3)]] + [files[n]["items"] for n in names])
        tgt.insert(rng.randint(0, len(tgt)), {"lines": bad_read_card(rng, rng.choice(names) if names else "x.i"),
                                               "read": None, "bad": True})
    elif kind == "cycle" and names:
        n = rng.choice(names)
        # the file reads itself, or one of the files that lead to it
        anc = [n] + ancestors(case, n)
        tgt = rng.choice(anc)
        files[n]["items"].insert(rng.randint(0, len(files[n]["items"])),
                                 {"lines": [f"read file={tgt}"], "read": tgt})
    elif kind == "innerblank" and names:
        cand = [n for n in names if len(files[n]["items"]) >= 2]
        if cand:
            n = rng.choice(cand)
            files[n]["inner_blank"] = rng.randint(1, len(files[n]["items"]) - 1)
    elif kind == "afterterm":
        extra = [rng.choice(["notes for the next user", "nps 20", "read file=nowhere.i", "c done", "1 0 -1"])
                 for _ in range(rng.randint(1, 3))]
        if names and rng.random() < 0.5:
            extra.append("read file=" + rng.choice(names))
        case["after"] = extra
    if kind not in ("missing", "badcard", "cycle", "innerblank") and rng.random() < 0.05:
        case["top_eol"] = "\r\n"
    return case


def block_of_file(case, name):
    """block type with which the file is (first) read"""
    for b, n in bfs_items(case):
        if n == name:
            return b
    return None


def ancestors(case, name):
    """names of the files (not the top) through which `name` is reached"""
    out = []
    parent = {}
    for n, f in case["files"].items():
        for it in f["items"]:
            if it.get("read"):
                parent.setdefault(it["read"], n)
    cur = name
    seen = set()
    while cur in parent and cur not in seen:
        seen.add(cur)
        cur = parent[cur]
        out.append(cur)
    return out


def has_cycle(case):
    graph = {n: [it["read"] for it in f["items"] if it.get("read")] for n, f in case["files"].items()}
    roots = [it["read"] for b in case["top_blocks"] for it in b if it.get("read")]
    state = {}

    def dfs(n):
        if state.get(n) == 1:
            return True
        if state.get(n) == 2:
            return False
        state[n] = 1
        for m in graph.get(n, []):
            if dfs(m):
                return True
        state[n] = 2
        return False
    return any(dfs(r) for r in roots)


# ---------------------------------------------------------------------------- rendering / flattening (spec side)
def file_text(f):
    eol = f.get("eol", "\n")
    lines = []
    for k, it in enumerate(f["items"]):
        if f.get("inner_blank") == k:
            lines.append("")
        lines += it["lines"]
    lines += f["tail"]
    text = eol.join(lines)
    if lines and f.get("final_newline", True):
        text += eol
    return text


def top_text(case):
    eol = case["top_eol"]
    lines = []
    if case["message"]:
        lines += list(case["message"]) + [""]
    lines.append(case["title"])
    for b in range(3):
        for it in case["top_blocks"][b]:
            lines += it["lines"]
        lines.append("")
    if case["after"]:
        lines += case["after"]
    return eol.join(lines) + eol


def bfs_items(case):
    """the read cards met, breadth first: (block, name); stops at 200 (cycles)"""
    queue = [(b, it["read"]) for b in range(3) for it in case["top_blocks"][b] if it.get("read")]
    out = []
    i = 0
    while i < len(queue) and len(out) < 200:
        b, n = queue[i]
        i += 1
        out.append((b, n))
        f = case["files"].get(n)
        if f is None or case.get("missing") == n:
            break
        for it in f["items"]:
            if it.get("read"):
                queue.append((b, it["read"]))
    return out


def flatten(case):
    """textual substitution, independent of MontePy: block b = the block's own cards without the read cards, then
    the cards of the targets (without their read cards) of the read cards met in block b, breadth first"""
    blocks = [[], [], []]
    for b in range(3):
        for it in case["top_blocks"][b]:
            if not it.get("read"):
                blocks[b].append(it["lines"])
    for b, n in bfs_items(case):
        for it in case["files"][n]["items"]:
            if not it.get("read"):
                blocks[b].append(it["lines"])
    lines = []
    if case["message"]:
        lines += list(case["message"]) + [""]
    lines.append(case["title"])
    for b in range(3):
        for c in blocks[b]:
            lines += c
        lines.append("")
    return "\n".join(lines) + "\n", blocks


def materialise(case, base):
    """-> dict(root, cwd, cwd2, top_abs, top_arg, flat, out)"""
    root = os.path.join(base, case["topdir"])
    cwd = os.path.join(base, "elsewhere", "wd")
    cwd2 = os.path.join(base, "other")
    for d in (root, cwd, cwd2):
        os.makedirs(d, exist_ok=True)
    top_abs = os.path.join(root, "top.i")
    with open(top_abs, "w", newline="") as f:
        f.write(top_text(case))
    for n, fl in case["files"].items():
        if case.get("missing") == n:
            continue
        p = os.path.normpath(os.path.join(root, n))
        os.makedirs(os.path.dirname(p), exist_ok=True)
        parts = os.path.dirname(os.path.join(root, n)).split("/")
        for k in range(2, len(parts) + 1):       # "sub/../x.i" needs "sub" to exist
            os.makedirs(os.path.normpath("/".join(parts[:k])), exist_ok=True) if ".." not in parts[k - 1:k] else None
        with open(p, "w", newline="") as f:
            f.write(file_text(fl))
    for dk, text in (case.get("decoys") or {}).items():
        p = os.path.join(root, dk)
        if not os.path.exists(p):
            os.makedirs(os.path.dirname(p), exist_ok=True)
            with open(p, "w", newline="") as f:
                f.write(text)
    if case.get("cwd_decoy"):
        for wd in (cwd, cwd2):
            p = os.path.join(wd, case["cwd_decoy"])
            os.makedirs(os.path.dirname(p), exist_ok=True)
            with open(p, "w", newline="") as f:
                f.write("c decoy in the working directory\n")
    top_arg = top_abs if case["top_mode"] == "abs" else os.path.relpath(top_abs, cwd)
    top2 = top_abs if case["top_mode"] == "abs" else os.path.relpath(top_abs, cwd2)
    flat_path = None
    if case["kind"] in ("plain", "tiny", "afterterm") and not has_cycle(case):
        flat_dir = os.path.join(base, "flatdir")
        os.makedirs(flat_dir, exist_ok=True)
        flat_path = os.path.join(flat_dir, "flat.i")
        with open(flat_path, "w", newline="") as f:
            f.write(flatten(case)[0])
    return dict(root=root, cwd=cwd, cwd2=cwd2, top_abs=top_abs, top_arg=top_arg, top2=top2, flat=flat_path,
                out=os.path.join(base, "written"))


# ---------------------------------------------------------------------------- model side
def model_request(case, m):
    """readall <w> <fuel> <cwdhex> <tophex> <pathhex>=<byteshex>,..."""
    cwd = m["cwd"]
    top_arg = m["top_arg"]

    def key(p):
        return p if p.startswith("/") else cwd + "/" + p
    entries = [(key(top_arg), top_text(case))]
    d = posixpath.dirname(top_arg)
    for n, fl in case["files"].items():
        if case.get("missing") == n:
            continue
        entries.append((key(posixpath.join(d, n)), file_text(fl)))
    have = {k for k, _ in entries}
    for dk, text in (case.get("decoys") or {}).items():
        k = key(posixpath.join(d, dk))
        if k not in have:
            entries.append((k, text))
    if case.get("cwd_decoy"):
        entries.append((key(case["cwd_decoy"]), "c decoy in the working directory\n"))
    fs = ",".join(hx(k) + "=" + (hx(v) or "-") for k, v in entries)
    return "readall %d %d %s %s %s" % (case["W"], FUEL, hx(cwd), hx(top_arg), fs)


def parse_model(ans):
    parts = ans.split(" ")
    if len(parts) != 4:
        return {"raw": ans}
    msg, title, ys, err = parts
    out = {"message": None if msg == "none" else ([] if msg == "m-" else [unhx(x) for x in msg[1:].split(",")]),
           "title": None if title == "none" else unhx(title[1:]), "ys": [], "err": err}
    if ys != "-":
        for y in ys.split(";"):
            if y == "N":
                out["ys"].append(None)
            else:
                p, bt, start, ls = y.split(":")
                out["ys"].append([unhx(p), int(bt), int(start), [] if ls == "-" else [unhx(x) for x in ls.split(",")]])
    return out


def canon_real(syn, timeout):
    if timeout:
        return {"message": "?", "title": "?", "ys": "?", "err": "outoffuel"}
    return syn


def corr_equal(model, real, timeout):
    """the model's answer against the real stream.  With an error the yields before it are compared too; a hang
    (timeout) corresponds to fuel exhaustion and only the error is compared."""
    if "raw" in model:
        return False
    if timeout:
        return False          # the model always terminates (C20_terminates): a hang is never matched
    if model["err"] != real["err"]:
        return False

    def canon(ys):
        # which spelling of a path is recorded with an input is not part of the property: compare normalised paths
        return [None if y is None else [posixpath.normpath(y[0])] + y[1:] for y in ys]
    return (model["message"] == real["message"] and model["title"] == real["title"]
            and canon(model["ys"]) == canon(real["ys"]))


def sfile_wire(blocks):
    def card(c):
        return ",".join(hx(l + "\n") for l in c)
    return "/".join(("+".join(card(c) for c in b) if b else "-") for b in blocks)


def flatten_request(case, m):
    top_arg = m["top_abs"]
    d = posixpath.dirname(top_arg)
    tf = sfile_wire([[it["lines"] for it in case["top_blocks"][b]] for b in range(3)])
    tree = ";".join(hx(posixpath.join(d, n)) + "=" + sfile_wire([[it["lines"] for it in f["items"]]])
                    for n, f in case["files"].items()) or "-"
    return "flatten %d %d %s %s %s" % (case["W"], 8, hx(top_arg), tf, tree)


def in_flatten_domain(case):
    """the tree as the cards of a problem: no error kind, plain line ends"""
    if case["kind"] not in ("plain", "tiny") or has_cycle(case):
        return False
    if case["top_eol"] != "\n":
        return False
    return True


# ---------------------------------------------------------------------------- oracle
def strip_comment_lines(lines):
    return [l for l in lines if not spec.is_comment_line(l.expandtabs(8))]


def by_block(ys):
    out = {0: [], 1: [], 2: []}
    for y in ys:
        if y is None:
            continue
        out.setdefault(y[1], []).append(strip_comment_lines(y[3]))
    return out


def comment_texts(ys):
    out = []
    for y in ys:
        if y is None:
            continue
        out += [l.strip() for l in y[3] if spec.is_comment_line(l.expandtabs(8))]
    return sorted(out)


def oracle(case, res, m):
    """-> list of failures (dicts with 'kind')"""
    fails = []
    if res.get("worker_err"):
        return [{"kind": "worker-error", "detail": res["worker_err"]}]
    cyc = has_cycle(case)
    if res.get("timeout"):
        return [{"kind": "read-hangs", "cycle": cyc}]
    syn = res["syn"]
    full = res.get("full", {})
    if not res.get("syn_again_same", True):
        fails.append({"kind": "second-read-differs"})
    if "syn_cwd2" in res and abs_paths(res["syn_cwd2"], m["cwd2"]) != abs_paths(syn, m["cwd"]):
        fails.append({"kind": "depends-on-working-directory"})
    if cyc:
        if syn["err"] == "ok":
            fails.append({"kind": "cycle-read-without-error"})
        elif syn["err"] not in ("MalformedInputError", "FileNotFoundError", "ParsingError"):
            fails.append({"kind": "cycle-reported-as", "got": syn["err"]})
        if full.get("err") in (None, "ok"):
            fails.append({"kind": "cycle-read-without-error-by-read_input", "got": full.get("err")})
        return fails
    if case.get("missing"):
        reached = any(n == case["missing"] for _, n in bfs_items(case))
        if reached and syn["err"] != "FileNotFoundError":
            fails.append({"kind": "missing-target-not-reported", "got": syn["err"]})
        if reached and full.get("err") != "FileNotFoundError":
            fails.append({"kind": "missing-target-not-reported-by-read_input", "got": full.get("err")})
        return fails
    if case["kind"] in ("badcard", "innerblank"):
        return fails          # an error or outside the property's domain: correspondence only
    if "flat_syn" not in res:
        return fails
    fsyn, ffull = res["flat_syn"], res["flat_full"]
    # (a) the stream: no error, the same inputs block by block (comment lines apart), same title / message
    if syn["err"] != "ok" or fsyn["err"] != "ok":
        if syn["err"] != fsyn["err"]:
            fails.append({"kind": "syntax-error-differs", "tree": syn["err"], "flat": fsyn["err"]})
        return fails
    exp_blocks = flatten(case)[1]
    if by_block(syn["ys"]) != by_block(fsyn["ys"]):
        fails.append({"kind": "inputs-differ-from-flattened-file",
                      "tree": by_block(syn["ys"]), "flat": by_block(fsyn["ys"])})
    else:
        # ... and exactly the cards of the problem: once each, in the block of their read card, in BFS order
        got = by_block(syn["ys"])
        W = case["W"]
        want = {b: [strip_comment_lines([l.expandtabs(8)[:W].rstrip() for l in c]) for c in exp_blocks[b]]
                for b in range(3)}
        want = {b: [c for c in want[b]] for b in range(3)}
        if {b: got[b] for b in range(3)} != want:
            fails.append({"kind": "inputs-differ-from-the-distributed-cards", "got": got, "want": want})
    if syn["title"] != fsyn["title"] or syn["message"] != fsyn["message"]:
        fails.append({"kind": "title-or-message-differs"})
    nreads = sum(1 for y in syn["ys"] if y is None)
    if nreads != len(bfs_items(case)):
        fails.append({"kind": "read-cards-followed", "none_yields": nreads, "cards": len(bfs_items(case))})
    # (b) the problem
    if full.get("err") != ffull.get("err"):
        fails.append({"kind": "read_input-differs", "tree": full.get("err"), "flat": ffull.get("err")})
        return fails
    if full.get("err") != "ok":
        return fails
    for k in ("cells", "surfaces", "ndata", "data_words"):
        if full.get(k) != ffull.get(k):
            fails.append({"kind": "problem-differs", "what": k, "tree": full.get(k), "flat": ffull.get(k)})
    # (c) the flattened file as the independent reader sees it
    flat_text = flatten(case)[0]
    sp = spec.split_file(flat_text, case["W"])
    sb = sp["blocks"] + [[]] * (3 - len(sp["blocks"]))
    try:
        want_cells = [int(c.text.split()[0]) for c in sb[0]]
        want_surfs = [int(re.sub(r"^[*+]", "", c.text.split()[0])) for c in sb[1]]
    except (ValueError, IndexError):
        want_cells = want_surfs = None
    if want_cells is not None:
        # data inputs: MT cards are merged into their material and repeated cell-modifier cards into one input, so
        # the collection may be shorter than the block; what it holds must be cards of the block
        spec_words = [c.text.split()[0].lower().lstrip("*") for c in sb[2] if c.text.split()]
        left = list(spec_words)
        extra = []
        for wd in ffull.get("data_words", []):
            wd = wd.lstrip("*")
            if wd in left:
                left.remove(wd)
            elif not wd.startswith("exc:"):
                extra.append(wd)
        absorbed = ("mt", "imp", "vol", "u", "fill", "lat", "pwt", "ext", "fcl", "wwn", "dxc", "nonu", "pd", "tmp",
                    "trcl", "elpt", "cosy", "bflcl", "unc")
        lost = [x for x in left if not x.startswith(absorbed)]
        if ffull["cells"] != want_cells or ffull["surfaces"] != want_surfs or lost or \
                (extra and not any(w_.startswith("exc:") for w_ in ffull.get("data_words", []))
                 and len(extra) > len([x for x in left if x.startswith(absorbed)])):
            fails.append({"kind": "flat-read-differs-from-spec", "cells": [ffull["cells"], want_cells],
                          "surfaces": [ffull["surfaces"], want_surfs], "data_lost": lost, "data_extra": extra,
                          "data_spec": spec_words, "data_real": ffull.get("data_words")})
    # (d) the written file: the same as the flattened problem's, every input, no read card
    if "written" in full and "written" in ffull:
        if full["written"] != ffull["written"]:
            d = spec.compare_files(full["written"], ffull["written"], case["W"], case["W"], check_comments=False)
            if d:
                fails.append({"kind": "written-file-differs-from-flattened-problem", "detail": [list(map(str, x))[:4] for x in d[:2]]})
        wsp = spec.split_file(full["written"], case["W"])
        wb = wsp["blocks"] + [[]] * (3 - len(wsp["blocks"]))
        for b in range(3):
            for c in wb[b]:
                if c.text.split() and c.text.split()[0].lower() == "read":
                    fails.append({"kind": "read-card-written", "card": c.text})
        counts = [len(wb[b]) for b in range(3)]
        if counts[0] != len(sb[0]) or counts[1] != len(sb[1]):
            fails.append({"kind": "written-input-count", "written": counts, "flattened": [len(x) for x in sb]})
    elif full.get("write_err") != ffull.get("write_err"):
        fails.append({"kind": "write-error-differs", "tree": full.get("write_err"), "flat": ffull.get("write_err")})
    return fails


def abs_paths(syn, cwd):
    """the stream with every file path made absolute and normalised (a relative top-level path makes all of them
    relative to the working directory)"""
    if not isinstance(syn, dict) or not isinstance(syn.get("ys"), list):
        return syn
    out = dict(syn)
    out["ys"] = [None if y is None else [os.path.normpath(os.path.join(cwd, y[0]))] + y[1:] for y in syn["ys"]]
    return out


CYCLE_CASE = {      # the minimal cycle (corpus/C20/fixed-read-cycle.json)
    "kind": "cycle", "W": 128, "title": "a file that reads itself", "message": None,
    "top_blocks": [[{"lines": ["1 0 -1 imp:n=1"], "read": None}], [{"lines": ["1 so 5"], "read": None}],
                   [{"lines": ["read file=cy2.i"], "read": "cy2.i"}]],
    "files": {"cy2.i": {"items": [{"lines": ["nps 10"], "read": None}, {"lines": ["read file=cy2.i"], "read": "cy2.i"}],
                        "tail": [], "final_newline": True, "eol": "\n"}},
    "after": None, "top_eol": "\n", "topdir": "root", "top_mode": "abs", "idx": -1,
}


def without_cycles(case):
    """the same tree with the read cards that close a cycle taken out"""
    c = json.loads(json.dumps(case))
    state = {}

    def dfs(n):
        state[n] = 1
        f = c["files"].get(n)
        if f:
            keep = []
            for it in f["items"]:
                t = it.get("read")
                if t and state.get(t) == 1:
                    continue            # back edge
                if t and t not in state:
                    dfs(t)
                keep.append(it)
            f["items"] = keep
        state[n] = 2
    for b in range(3):
        for it in c["top_blocks"][b]:
            if it.get("read") and it["read"] not in state:
                dfs(it["read"])
    if c.get("kind") == "cycle":
        c["kind"] = "plain"
    return c


# ---------------------------------------------------------------------------- one case, end to end
def job_of(case, m, cid):
    cyc = has_cycle(case)
    hang = False
    job = {"id": cid, "cwd": m["cwd"], "top": m["top_arg"], "version": list(VERSIONS[case["W"]]),
           "out": m["out"], "twice": not hang, "full": not hang, "flat": m["flat"]}
    if not hang:
        job["cwd2"] = m["cwd2"]
        job["top2"] = m["top2"]
    return job


def check_cases(cases, scratch, tag):
    """materialise, run the real code (workers) and the model; -> list of (case, m, res, model_answer)"""
    ms, jobs, tos = [], [], []
    for k, case in enumerate(cases):
        base = os.path.join(scratch, f"{tag}{k}")
        m = materialise(case, base)
        ms.append(m)
        jobs.append(job_of(case, m, k))
        tos.append(CYCLE_TIMEOUT if has_cycle(case) else CASE_TIMEOUT)
    reqs = [model_request(c, m) for c, m in zip(cases, ms)]
    th_res = {}

    def model_thread():
        th_res["answers"] = vlib.model_ask("ReadQ", reqs)
    mt = threading.Thread(target=model_thread)
    mt.start()
    results = run_jobs(jobs, tos)
    mt.join()
    out = []
    for k, case in enumerate(cases):
        out.append((case, ms[k], results.get(k, {"worker_err": "no result"}), th_res["answers"][k], reqs[k]))
    return out


def case_fails(case, scratch, tag="s"):
    """(correspondence ok?, oracle failures) of one case — used by shrinking and replay"""
    (c, m, res, ans, req), = check_cases([case], scratch, tag)
    model = parse_model(ans)
    real = res.get("syn")
    corr = corr_equal(model, real, res.get("timeout", False)) if (real or res.get("timeout")) else False
    return corr, oracle(case, res, m), res, model


def shrink(case, scratch, still_fails, budget=24):
    """drop cards that are not read cards, then trailing decorations, while the failure persists"""
    cur = json.loads(json.dumps(case))
    n = 0
    changed = True
    while changed and n < budget:
        changed = False
        holders = [("top", b) for b in range(3)] + [("file", k) for k in cur["files"]]
        for h in holders:
            items = cur["top_blocks"][h[1]] if h[0] == "top" else cur["files"][h[1]]["items"]
            for i in range(len(items) - 1, -1, -1):
                if items[i].get("read") or n >= budget:
                    continue
                cand = json.loads(json.dumps(cur))
                citems = cand["top_blocks"][h[1]] if h[0] == "top" else cand["files"][h[1]]["items"]
                del citems[i]
                if cand["files"].get(h[1], {}).get("inner_blank") is not None:
                    continue
                n += 1
                if still_fails(cand):
                    cur = cand
                    items = citems
                    changed = True
    return cur


# ---------------------------------------------------------------------------- small correspondences
def gen_card_text(rng):
    r = rng.random()
    if r < 0.45:
        used = set()
        return read_card_lines(rng, fresh_name(rng, used)), True
    if r < 0.6:
        n = "".join(rng.choice("abcxyzABC019_./-") for _ in range(rng.randint(1, 9)))
        return [f"read file={n}"], name_in_class(n)
    if r < 0.75:
        return bad_read_card(rng, "x.i"), True
    if r < 0.85:
        return [rng.choice(["reads file=x", "ready 1 2", "1 0 -1", "c read file=x", "mode n", "  read", "readfile=x"])], True
    return ["c leading comment", "C"][: rng.randint(1, 2)] + read_card_lines(rng, "inc/part_7.i"), True


def small_correspondences(ctx, n):
    bad = []
    rng = random.Random(f"{ctx.seed}:C20:names")
    cards = [gen_card_text(rng) + (rng.randrange(3),) for _ in range(n)]
    p = subprocess.run([vlib.PY, "-W", "ignore", os.path.abspath(__file__), "--names"],
                       input=json.dumps([[c[0], c[2]] for c in cards]), stdout=subprocess.PIPE,
                       stderr=subprocess.PIPE, text=True, timeout=300, cwd="/tmp",
                       env=dict(os.environ, PYTHONHASHSEED="0"))
    real = json.loads(p.stdout)
    reqs = ["name " + ",".join(hx(l) for l in c[0]) for c in cards]
    reqs_isr = ["isread " + ",".join(hx(l) for l in c[0]) for c in cards]
    ans = vlib.model_ask("ReadQ", reqs + reqs_isr)
    a_name, a_isr = ans[:len(cards)], ans[len(cards):]
    stats = {"cards": len(cards), "read_cards": 0, "parsing_errors": 0, "not_read": 0, "outside_class": 0,
             "outside_class_accepted_by_real": 0}
    for c, r, an, ai in zip(cards, real, a_name, a_isr):
        ctx.count_case(("name", tuple(c[0]), c[2]), nontrivial=r[1] == "n")
        ctx.cov["disagreements_checked"] += 1
        if (ai == "1") != bool(r[0]):
            bad.append({"card": c[0], "real_is_read": r[0], "model": ai})
            continue
        if not c[1]:
            stats["outside_class"] += 1
            stats["outside_class_accepted_by_real"] += r[1] == "n"
            continue
        want = {"n": "n" + hx(r[2]) if r[1] == "n" else None, "err": "err", "not": "not"}.get(r[1])
        stats["read_cards"] += r[1] == "n"
        stats["parsing_errors"] += r[1] == "err"
        stats["not_read"] += r[1] == "not"
        if an != want:
            bad.append({"card": c[0], "bt": c[2], "real": r, "model": an})
    # os.path
    paths = []
    for _ in range(n // 2):
        segs = [rng.choice(["", "a", "b.c", "..", ".", "dir", "x.i"]) for _ in range(rng.randint(0, 4))]
        paths.append(rng.choice(["", "/", "//", ""]) + "/".join(segs))
    reqs2 = ["dirname " + (hx(p) or "") for p in paths]
    pairs = [(rng.choice(paths), rng.choice(paths)) for _ in range(n // 2)]
    # an empty hex field would vanish from the request line: the model is asked with a placeholder-free form only
    paths_ne = [p for p in paths if p]
    pairs_ne = [(a, b) for a, b in pairs if a and b]
    ans2 = vlib.model_ask("ReadQ", ["dirname " + hx(p) for p in paths_ne] + ["join " + hx(a) + " " + hx(b) for a, b in pairs_ne])
    for p_, a in zip(paths_ne, ans2[:len(paths_ne)]):
        ctx.cov["disagreements_checked"] += 1
        if a != "d" + hx(posixpath.dirname(p_)):
            bad.append({"dirname": p_, "real": posixpath.dirname(p_), "model": a})
    for (x, y), a in zip(pairs_ne, ans2[len(paths_ne):]):
        ctx.cov["disagreements_checked"] += 1
        if a != "j" + hx(posixpath.join(x, y)):
            bad.append({"join": [x, y], "real": posixpath.join(x, y), "model": a})
    rp = [(rng.choice(["/w", "/w/d", "/"]), p_) for p_ in paths_ne]
    ans3 = vlib.model_ask("ReadQ", ["realpath " + hx(c_) + " " + hx(p_) for c_, p_ in rp])
    for (c_, p_), a in zip(rp, ans3):
        ctx.cov["disagreements_checked"] += 1
        want = os.path.normpath(os.path.join(c_, p_))
        if want.startswith("//"):
            want = want[1:]          # realpath collapses the leading double slash that normpath keeps
        if a != "r" + hx(want):
            bad.append({"realpath": [c_, p_], "real": want, "model": unhx(a[1:])})
    stats["paths"] = len(paths_ne) + len(pairs_ne) + len(rp)
    return bad, stats, reqs[:40] + ["dirname " + hx(p) for p in paths_ne[:20]], a_name[:40] + ans2[:20]


# ---------------------------------------------------------------------------- corpus / findings
def load_corpus():
    out = []
    cdir = os.path.join(vlib.VERIF, "corpus", "C20")
    if os.path.isdir(cdir):
        for f in sorted(os.listdir(cdir)):
            if f.endswith(".json"):
                with open(os.path.join(cdir, f)) as fh:
                    c = json.load(fh)
                out.append(c.get("case", c))
    return out


def replay(ctx, path):
    with open(path) as fh:
        c = json.load(fh)
    case = c.get("case", c)
    scratch = f"/tmp/C20-replay-{os.getpid()}"
    try:
        ok, _ = vlib.coq_make(["Model/ReadQ.vo"])
        os.makedirs(scratch, exist_ok=True)
        corr, fails, res, model = case_fails(case, scratch, "r")
    finally:
        shutil.rmtree(scratch, ignore_errors=True)
    if fails or not corr:
        print("REPLAY property=C20 still fails: " + ", ".join(f["kind"] for f in fails) + ("" if corr else " correspondence"))
        print(f"VIOLATION property=C20 replay={path}")
        return 1
    print("REPLAY property=C20 passes")
    return 0


def tlog(t0, what):
    if os.environ.get("C20_TIMING"):
        sys.stderr.write("[C20 %.1fs] %s\n" % (time.time() - t0, what))


def run(ctx):
    t0 = time.time()
    quick = ctx.tier == "quick"
    n_trees = 170 if quick else 4000
    n_small = 400 if quick else 6000
    ctx.prove()
    tlog(t0, "proved")
    ok, log = vlib.coq_make(["Model/ReadQ.vo"])
    if not ok:
        ctx.broken_obligations.append({"obligation": "Model/ReadQ.vo builds", "detail": log[-800:]})
        return ctx.finish(vlib.KERNEL_TB, [], "model did not build")
    scratch = f"/tmp/C20-{os.getpid()}-{ctx.seed}"
    shutil.rmtree(scratch, ignore_errors=True)
    os.makedirs(scratch)
    dist = {"kinds": {}, "files_per_tree": {}, "depth": {}, "read_cards_per_tree": {}, "errors_real": {},
            "top_mode": {"abs": 0, "rel": 0}, "W": {80: 0, 128: 0}, "flat_compared": 0, "cyclic": 0,
            "hangs": 0, "flatten_model_compared": 0, "reads_in_block": {0: 0, 1: 0, 2: 0}}
    try:
        vlib.model_ask("ReadQ", ["dirname 2f"])       # builds the extracted binary
        tlog(t0, "model binary")
        # ---- small correspondences
        bad, sstats, xreqs, xans = small_correspondences(ctx, n_small)
        if bad:
            ctx.broken_obligations.append({"obligation": "correspondence ReadInput / os.path vs ReadQ (classify_lines, "
                                           "is_read_input, dirname, path_join)", "detail": {"n": len(bad), "first": bad[0]}})
        tlog(t0, "small correspondences")
        # ---- trees
        corpus = load_corpus()
        cases = list(corpus)
        for i in range(n_trees):
            cases.append(gen_case(random.Random(f"{ctx.seed}:C20:{i}"), i))
        all_reqs, all_ans = list(xreqs), list(xans)
        corr_bad = []
        batch = 60
        done = 0
        for start in range(0, len(cases), batch):
            chunk = cases[start:start + batch]
            for (case, m, res, ans, req) in check_cases(chunk, scratch, f"b{start}_"):
                done += 1
                ctx.cov["programs"] += 1
                ctx.cov["disagreements_checked"] += 1
                nfiles = len(case["files"]) + 1
                nreads = len(bfs_items(case))
                ctx.count_case(("tree", top_text(case), sorted((n, file_text(f)) for n, f in case["files"].items())),
                               nontrivial=nreads > 0)
                dist["kinds"][case["kind"]] = dist["kinds"].get(case["kind"], 0) + 1
                dist["files_per_tree"][nfiles] = dist["files_per_tree"].get(nfiles, 0) + 1
                dist["read_cards_per_tree"][min(nreads, 12)] = dist["read_cards_per_tree"].get(min(nreads, 12), 0) + 1
                dp = depth_of(case)
                dist["depth"][dp] = dist["depth"].get(dp, 0) + 1
                dist["top_mode"][case["top_mode"]] += 1
                dist["W"][case["W"]] += 1
                for b, _ in bfs_items(case)[:50]:
                    dist["reads_in_block"][b] += 1
                cyc = has_cycle(case)
                dist["cyclic"] += cyc
                dist["hangs"] += bool(res.get("timeout"))
                if res.get("syn"):
                    e = res["syn"]["err"]
                    dist["errors_real"][e] = dist["errors_real"].get(e, 0) + 1
                dist["flat_compared"] += "flat_syn" in res
                if len(all_reqs) < 400 and len(req) < 20000:
                    all_reqs.append(req)
                    all_ans.append(ans)
                model = parse_model(ans)
                real = res.get("syn")
                if res.get("worker_err"):
                    ctx.broken_obligations.append({"obligation": "worker ran", "detail": res["worker_err"]})
                    continue
                if not corr_equal(model, real, res.get("timeout", False)):
                    corr_bad.append((case, model, canon_real(real, res.get("timeout", False))))
                fails = oracle(case, res, m)
                if fails:
                    first = fails[0]

                    def still(cand, kind=first["kind"]):
                        _, fl, _, _ = case_fails(cand, scratch, "sh")
                        return any(f["kind"] == kind for f in fl)
                    small = case if first["kind"] in ("worker-error", "read-hangs") else \
                        shrink(case, scratch, still, budget=12 if quick else 30)
                    _, fl2, res2, _ = case_fails(small, scratch, "sh")
                    fl2 = [f for f in fl2 if f["kind"] == first["kind"]] or fails
                    ctx.fail({"kind": fl2[0]["kind"], "case": small, "detail": fl2[0], "has_cycle": has_cycle(small),
                              "files": {"top.i": top_text(small), **{n: file_text(f) for n, f in small["files"].items()}}})
                if done <= 3:
                    ctx.sample({"kind": case["kind"], "top.i": top_text(case)[:500],
                                "files": {n: file_text(f)[:200] for n, f in list(case["files"].items())[:4]},
                                "real_error": real["err"] if real else "timeout"})
                if len(ctx.violations) >= 3:
                    break
            if len(ctx.violations) >= 3:
                break
        tlog(t0, "trees")
        # ---- Coq's flatten on the cards == the flattening used by the oracle
        fl_cases = [c for c in cases if in_flatten_domain(c)][: (60 if quick else 1500)]
        fl_reqs = []
        for c in fl_cases:
            fl_reqs.append(flatten_request(c, {"top_abs": "/p/" + c["topdir"] + "/top.i"}))
        fl_ans = vlib.model_ask("ReadQ", fl_reqs)
        fl_bad = []
        for c, a in zip(fl_cases, fl_ans):
            ctx.cov["disagreements_checked"] += 1
            dist["flatten_model_compared"] += 1
            okflag, _, lines = a.partition(" ")
            got = [] if lines == "-" else [unhx(x) for x in lines.split(",")]
            text, _ = flatten(c)
            want = text.split("\n")[:-1]
            # the front matter is not part of the structure handed to the model
            nfront = (len(c["message"]) + 1 if c["message"] else 0) + 1
            want = [l + "\n" for l in want[nfront:]]
            # the model renders three blocks behind single line feeds and no terminator line
            if got + ["\n"] != want:
                fl_bad.append({"case_idx": c["idx"], "model": got[:8], "harness": want[:8]})
        if fl_bad:
            ctx.broken_obligations.append({"obligation": "ReadQ.flatten (Coq) = flatten (harness oracle)",
                                           "detail": {"n": len(fl_bad), "first": fl_bad[0]}})
        all_reqs += fl_reqs[:30]
        all_ans += fl_ans[:30]
        if corr_bad:
            case, model, real = corr_bad[0]

            def still_c(cand):
                corr, _, _, _ = case_fails(cand, scratch, "shc")
                return not corr
            small = shrink(case, scratch, still_c, budget=12 if quick else 30)
            corr, fl, res2, model2 = case_fails(small, scratch, "shc")
            detail = {"n": len(corr_bad), "first": {"case": small, "model": model2,
                                                     "real": canon_real(res2.get("syn"), res2.get("timeout", False)),
                                                     "files": {"top.i": top_text(small), **{n: file_text(f) for n, f in small["files"].items()}}}}
            ctx.broken_obligations.append({"obligation": "correspondence read_input_syntax (real, other working directory) "
                                           "vs ReadQ.read_all", "detail": detail})
            # lesson (ii): the property oracle on the shrunk case before giving up
            for f in fl:
                ctx.fail({"kind": f["kind"], "case": small, "detail": f, "has_cycle": has_cycle(small)})
        tlog(t0, "flatten tie")
        nx, xbad = vlib.vm_crosscheck("ReadQ", all_reqs, all_ans, sample=40 if quick else 200, seed=ctx.seed)
        if xbad:
            ctx.broken_obligations.append({"obligation": "extraction cross-check ReadQ", "detail": xbad[:2]})
        tlog(t0, "vm crosscheck")
        # ---- committed findings
        for fd in ctx.findings:
            if fd.get("status") == "open" and fd.get("replay"):
                try:
                    with open(os.path.join(vlib.VERIF, fd["replay"])) as fh:
                        c = json.load(fh)
                    c = c.get("case", c)
                    _, fl, _, _ = case_fails(c, scratch, "fd")
                    fd["_reproduced"] = any(f["kind"] == fd.get("failure_kind") for f in fl)
                except Exception:
                    fd["_reproduced"] = False
    finally:
        shutil.rmtree(scratch, ignore_errors=True)
    tb = vlib.KERNEL_TB + [
        "modelled, not verified: input_syntax_reader.read_input_syntax / read_data (drain loop, reading_queue, "
        "flush_input), ReadInput.is_read_input, posixpath.dirname/join as coq/Model/ReadQ.v over coq/Model/Lines.v; "
        "approximated: the SLY parse of a read card (ReadParser + lexer) by classify_lines on a class of card texts "
        "(the harness generates inside the class and samples its boundary); NOT modelled: the semantic parse of the "
        "inputs (parse_input beyond the routing by block type), the formatting of the written inputs",
        f"vm_compute cross-check of {nx} requests",
        "spec side of the oracle: harness flatten() (textual substitution on the generator's cards) and spec.py",
    ]
    assumptions = [
        "C20_flatten is about files given by their cards (card_ok: first line with data in columns 1-5, then comment / "
        "indented / '&'-continued lines; sub-files: one block, no comment line in front of the first card); "
        "C20_flatten_lead_comment_refuted and C20_block_refuted show what happens outside",
        "C20_cwd_free: top-level file given by an absolute path (a relative one is relative to the working directory by "
        "definition); the harness also reads through relative paths from two directories",
        "a read card's NAME is inside the modelled class (letters, digits, _ . / -; no letter or '-' after a digit, no "
        "e/E/'-' after a '.')",
    ]
    return ctx.finish(tb, assumptions,
                      "cases = generated trees of files (a generated problem's cards distributed over top-level file and "
                      "sub-files, read cards in every block, depth <= 4, comments around read cards, sub-directories, "
                      "missing targets, malformed read cards, cycles, inner blank lines, text behind the data block) read "
                      "from another working directory + generated read-card texts + paths; distinct = distinct file "
                      "contents / card text; non-trivial = at least one read card is followed (trees), a file name is "
                      "extracted (cards)",
                      extra={"input_distribution": dist, "card_stream": sstats})


def depth_of(case):
    depth = {}

    def d(n, seen):
        if n in seen or n not in case["files"]:
            return 0
        return 1 + max([d(it["read"], seen | {n}) for it in case["files"][n]["items"] if it.get("read")] or [0])
    roots = [it["read"] for b in case["top_blocks"] for it in b if it.get("read")]
    return max([d(r, frozenset()) for r in roots] or [0])


if __name__ == "__main__":
    if "--worker" in sys.argv:
        worker_main()
    elif "--names" in sys.argv:
        names_worker_main()
