"""C07 — see DESIGN.md §6 C07 / §14; shared runner in _rtcommon.py, oracles in harness/rt.py."""
import props._rtcommon as R

ASSUMPTIONS = [
    "generated problems stay inside the safe region of the generator (harness/gen.py): no xM shortcut, no three chained "
    "shortcuts, no '#' in columns 1-5, every ZAID with a library — those are C08/C12 findings",
    "spec.py is this framework's reading of the MCNP 6.2 manual (MCNP itself is not available)",
]


def run(ctx):
    ctx, tb, dist = R.run_rt(ctx, "C07", 600, 8000, with_edits=True)
    return ctx.finish(tb, ASSUMPTIONS, "generated problems x programs of valid edits, edited write compared card by card and token by token with the unedited write; distinct = distinct (text, program)", extra={"input_distribution": dist})


def replay(ctx, path):
    return R.replay_rt(ctx, "C07", path)
