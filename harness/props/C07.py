"""C07 — see DESIGN.md §6 C07 / §14; shared runner in _rtcommon.py, oracles in harness/rt.py."""
import props._rtcommon as R

ASSUMPTIONS = [
    "generated problems stay inside the safe region of the generator (harness/gen.py): no xM shortcut, no three chained "
    "shortcuts, no '#' in columns 1-5, every ZAID with a library, no interpolation that ends in 0 — those are C08/C12's",
    "spec.py is this framework's reading of the MCNP 6.2 manual (MCNP itself is not available)",
    "the edit kind 'placement' (problem.print_in_data_block[key] = bool) is only applied to problems inside the region "
    "of edits._placement_plain (data-block cards of that kind are single plain lines without comments; never IMP towards "
    "the data block; no comment between a key and its value): outside it MontePy has defects of property C09 "
    "(notes/_RT_shared.md)",
    "the theorems are about coq/Model/Tree.v; they reach the real code through the per-run correspondence (dumped real "
    "trees, first and second format, cell parameter loop, importance trees) and the per-input validation of the parser "
    "hypothesis (flatten(parsed tree) == text read, up to the comment lines parse_input moves to the next input)",
]


def run(ctx):
    ctx, tb, dist = R.run_rt(ctx, "C07", 600, 8000, with_edits=True)
    return ctx.finish(tb, ASSUMPTIONS, 'generated problems x edit programs; unedited write vs the file read (spelling), edited write vs unedited write (untouched inputs line for line, untouched tokens of edited inputs, comments); distinct = distinct (text, program)', extra={"input_distribution": dist})


def replay(ctx, path):
    return R.replay_rt(ctx, "C07", path)
