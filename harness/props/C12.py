"""C12 — every input of the documented core grammar is accepted.

Obligations: coq/Properties/C12.v over coq/Model/CoreGrammar.v, evaluated on coq/Gen/{Grammar,Tables,LRTables}.v,
which harness/translate_grammar.py regenerates from the source tree under test on every run.
Correspondence (per generated sentence of G_core x layouts, harness/gen_core.py):
  1. rendering: the tokens of the Python rendering of the shape = the tokens of `gen` in the extracted Coq model;
  2. lexer: the tokens of the real lexer (Input.tokenize, the lexer of the card's block) = the model's tokens
     (class and text; SPACE by class only) whenever the shape predicate of the theorems holds;
  3. automaton: the verdict of the real SLY parser (and of ClassifierParser on the classifier) on the real tokens =
     the verdict of the Coq LR driver on the generated action/goto tables for the same token classes;
  4. the conflict lists SLY reports = the committed baseline (corpus/C12/grammar_baseline.json).
Oracle: Cell(Input) / surface_builder(Input) / parse_data(Input) on every sentence and montepy.read_input on every
generated problem file: no exception, no warning.
"""
import json
import os
import random
import re
import time
import warnings
from collections import Counter

import vlib
import gen_core as G
import mp

HERE = os.path.dirname(os.path.abspath(__file__))
MAXV = int(os.environ.get("C12_MAX_VIOLATIONS", "8"))
BASELINE = os.path.join(vlib.VERIF, "corpus", "C12", "grammar_baseline.json")


def unhx(s):
    return bytes.fromhex(s).decode("latin-1")


# ----------------------------------------------------------------------------- the real code
_MP = {}


def _mp():
    if not _MP:
        import montepy
        from montepy.input_parser.mcnp_input import Input
        from montepy.input_parser.block_type import BlockType
        from montepy.cell import Cell
        from montepy.surfaces.surface_builder import surface_builder
        from montepy.data_inputs.data_parser import parse_data
        from montepy.data_inputs import data_input
        from montepy.input_parser import (cell_parser, surface_parser, data_parser, material_parser, thermal_parser,
                                          tally_parser, tally_seg_parser)
        _MP.update(
            Input=Input, BT={"cell": BlockType.CELL, "surface": BlockType.SURFACE, "data": BlockType.DATA},
            build={"cell": Cell, "surface": surface_builder, "data": parse_data},
            ClassifierInput=data_input._ClassifierInput,
            parsers={"cell": cell_parser.CellParser, "surface": surface_parser.SurfaceParser,
                     "data": data_parser.DataParser, "classifier": data_parser.ClassifierParser,
                     "param_only": data_parser.ParamOnlyDataParser, "material": material_parser.MaterialParser,
                     "thermal": thermal_parser.ThermalParser, "tally": tally_parser.TallyParser,
                     "tally_seg": tally_seg_parser.TallySegmentParser},
        )
    return _MP


def make_input(text, block):
    M = _mp()
    return M["Input"](text.split("\n"), M["BT"][block])


def real_tokens(text, block, classifier=False):
    """-> (list of (class, text)) or ('LexError', message)"""
    M = _mp()
    inp = make_input(text, block)
    if classifier:
        inp.__class__ = M["ClassifierInput"]
    try:
        return [(t.type, t.value) for t in inp.tokenize()]
    except Exception as e:
        return ("error", type(e).__name__ + ": " + str(e)[:80])


def real_parse(text, block, parser, classifier=False):
    """verdict of the real SLY parser: 'A' accepted, 'R' rejected (syntax error recorded), 'X:<exc>' an action raised"""
    M = _mp()
    inp = make_input(text, block)
    if classifier:
        inp.__class__ = M["ClassifierInput"]
    p = M["parsers"][parser]()
    try:
        p.restart()
    except AttributeError:
        pass
    try:
        with warnings.catch_warnings():
            warnings.simplefilter("ignore")
            tree = p.parse(inp.tokenize(), inp)
        p.log.clear_queue()
    except Exception as e:
        try:
            p.log.clear_queue()
        except Exception:
            pass
        return "X:" + type(e).__name__
    return "A" if tree is not None else "R"


def oracle(text, block):
    """the code path a user hits for one input: None when accepted, else the failure"""
    M = _mp()
    with warnings.catch_warnings(record=True) as w:
        warnings.simplefilter("always")
        try:
            M["build"][block](make_input(text, block))
        except Exception as e:
            return {"exception": type(e).__name__, "message": str(e)[:300]}
    w = [x for x in w if not issubclass(x.category, DeprecationWarning)]
    if w:
        return {"exception": "warning:" + w[0].category.__name__, "message": str(w[0].message)[:300]}
    return None


def oracle_file(text, version=None):
    """version: None = the default (MCNP 6.2, 128 columns); (5, 1, 60) = the 80-column regime"""
    import montepy
    p = mp.write_text("c12.i", text)
    with warnings.catch_warnings(record=True) as w:
        warnings.simplefilter("always")
        try:
            if version is None:
                montepy.read_input(p)
            else:
                montepy.read_input(p, mcnp_version=tuple(version))
        except Exception as e:
            return {"exception": type(e).__name__, "message": str(e)[:400]}
    w = [x for x in w if not issubclass(x.category, DeprecationWarning)]
    if w:
        return {"exception": "warning:" + w[0].category.__name__, "message": str(w[0].message)[:300]}
    return None


# ----------------------------------------------------------------------------- model answers
def parse_gen_answer(ans):
    f = ans.split(" ")
    if f[0] != "ok":
        return None
    toks = []
    for x in f[5:]:
        a, b = x.split(".")
        toks.append((unhx(a), unhx(b)))
    return {"ok": f[1][0] == "1", "lex_safe": f[1][1] == "1", "parser": f[2], "lr": f[3], "lr_cls": f[4], "toks": toks}


def lr_letter(v):
    return v[0] if v else "-"


def same_tokens(model, real):
    if isinstance(real, tuple):
        return False
    if len(model) != len(real):
        return False
    for (c1, t1), (c2, t2) in zip(model, real):
        if c1 != c2:
            return False
        if c1 != "SPACE" and t1 != t2:
            return False
    return True


def classifier_cut(real):
    return real


# ----------------------------------------------------------------------------- shrinking (validity preserving)
def shrink(case, failing):
    """structural, keeps the sentence inside G_core: simpler layout, lower case, fewer parameters / entries, simpler
    numbers and geometry.  `failing(case)` -> the failure dict or None."""
    cur = case
    base = failing(cur)
    if base is None:
        return cur

    def attempt(shape=None, mask=None):
        nonlocal cur
        cand = dict(cur)
        if shape is not None:
            cand["shape"] = shape
        if mask is not None:
            cand["mask"] = mask
        try:
            cand["text"] = G.render(cand["shape"], cand["mask"])
        except Exception:
            return False
        f = failing(cand)
        if f is not None and f["exception"] == base["exception"]:
            cur = cand
            return True
        return False
    attempt(mask="0")
    if not attempt(shape=G.simplify_pads(cur["shape"])):
        # the failure depends on the layout: simplify one padding at a time
        for path in list(G.paths(cur["shape"], lambda n: G.is_node(n, G.PAD_KINDS))):
            try:
                node = G.get_at(cur["shape"], path)
            except (IndexError, TypeError):
                continue
            if not G.is_node(node, G.PAD_KINDS) or node == ["sp", 0]:
                continue
            if node[0] == "ld":
                attempt(shape=G.replace_at(cur["shape"], path, None))
            else:
                attempt(shape=G.replace_at(cur["shape"], path, ["sp", 0]))
    sh = cur["shape"]
    k = sh[0]
    keep_layout = cur["shape"] != G.simplify_pads(cur["shape"])
    # drop parameters / entries one at a time
    lists = {"cell": [6], "data": [6], "sdef": [4], "mcard": [4, 5], "mtcard": [4], "tally": [5]}.get(k, [])
    for idx in lists:
        i = len(cur["shape"][idx]) - 1
        while i >= 0:
            s = cur["shape"]
            lst = s[idx]
            minlen = 1 if (k, idx) in (("mcard", 4), ("mtcard", 4), ("tally", 5)) else 0
            if len(lst) > minlen:
                new = lst[:i] + lst[i + 1:]
                s2 = s[:idx] + [new] + s[idx + 1:]
                # keep the padding discipline: the new last entry may end the card; re-simplify pads
                attempt(shape=s2 if keep_layout else G.simplify_pads(s2))
            i -= 1
    # simpler geometry
    if k == "cell":
        s = cur["shape"]
        leaf = ["e1", ["t1", ["leaf", ["r", "m", "1", None, None]]], ["sp", 0] if s[6] else None]
        attempt(shape=s[:5] + [leaf] + s[6:])
        s = cur["shape"]
        if s[4][0] == "mat":
            attempt(shape=s[:4] + [["void", ["r", "n", "0", None, None], ["sp", 0]]] + s[5:])
    # simpler numbers: every real that is not an identifier keeps its sign
    def simple_real(n):
        if G.is_node(n, {"r"}) and len(n) == 5 and (n[3] is not None or n[4] is not None or len(n[2]) > 1) and not G.real_zero(n):
            return ["r", n[1], "1", None, None]
        return n
    if k != "mcard":
        attempt(shape=G.map_tree(cur["shape"], simple_real))
    cur["failure"] = failing(cur)
    return cur


# ----------------------------------------------------------------------------- one sentence
def sentence_case(s):
    return {"kind": "sentence", "block": s["block"], "shape": s["shape"], "mask": s["mask"],
            "text": G.render(s["shape"], s["mask"])}


def failing_sentence(case):
    return oracle(case["text"], case["block"])


REFUTED = [
    # (text, block, parser, classifier?, classes) — the literal class lists of Properties/C12.v section 7
    ("mode n u", "data", "data", False, ["TEXT", "SPACE", "PARTICLE", "SPACE", "KEYWORD"]),
]


# the texts of C12_text_rejected_refuted / C12_text_to_verdict (Properties/C12.v section 6b): tied to the real code
TEXT_REJECTED = [("mode n u", "data"), ("mode n /", "data"), ("mode n c", "data"), ("e4 1 2.5m", "data"),
                 ("e4 1 2m r", "data"), ("1 0 -1 imp:|=1", "cell")]
TEXT_ACCEPTED = [("+f6:n (1 2) 3 T", "data"), ("m1 1001.80c 1 8016 1 elib=03e", "data"), ("sdef", "data"),
                 ("1 0 (1:2)#3 fill=1 ( 1 2 3) imp:u,c=1", "cell"), ("1 so 1234.56e1 5.+3", None),
                 ("*5 -9 GQ 1 2r 2i 4 2j -.5E-3", "surface")]


def coq_list(classes):
    return "[" + "; ".join('"%s"' % c for c in classes) + "]"


def check_refuted(ctx):
    """the `_refuted` statements of Properties/C12.v are about class lists: tie them to the real lexer and parser"""
    with open(os.path.join(vlib.COQ, "Properties", "C12.v")) as fh:
        src = re.sub(r"\s+", " ", fh.read())
    reqs = []
    for text, block, parser, cl, classes in REFUTED:
        if coq_list(classes) not in src:
            ctx.broken_obligations.append({"obligation": "refuted sentence is stated in Properties/C12.v", "detail": text})
        rt = real_tokens(text, block, classifier=cl)
        rc = [c for c, _ in rt] if not isinstance(rt, tuple) else rt
        if rc != classes:
            ctx.broken_obligations.append({"obligation": "real lexer classes of a refuted sentence", "detail":
                                           {"text": text, "real": rc, "stated": classes}})
        rv = real_parse(text, block, parser, classifier=cl)
        if rv != "R":
            ctx.broken_obligations.append({"obligation": "real parser still rejects a refuted sentence", "detail":
                                           {"text": text, "parser": parser, "real": rv}})
        reqs.append("lr %s %s" % (parser, ",".join(G.hx(c) for c in classes)))
    for text, block in TEXT_REJECTED:
        if '"%s"' % text not in src:
            ctx.broken_obligations.append({"obligation": "rejected text is stated in Properties/C12.v", "detail": text})
        if oracle(text, block) is None:
            ctx.broken_obligations.append({"obligation": "real code still rejects a text of C12_text_rejected_refuted", "detail": text})
    for text, block in TEXT_ACCEPTED:
        if '"%s"' % text not in src:
            ctx.broken_obligations.append({"obligation": "accepted text is stated in Properties/C12.v", "detail": text})
        if block is None:
            # two numbers for a sphere at the origin: syntactically accepted, the constructor rightly refuses the count
            if real_parse(text, "surface", "surface") != "A":
                ctx.broken_obligations.append({"obligation": "real parser accepts a text of C12_text_to_verdict", "detail": text})
        elif oracle(text, block) is not None:
            ctx.broken_obligations.append({"obligation": "real code accepts a text of C12_text_to_verdict", "detail": [text, oracle(text, block)]})
    ans = vlib.model_ask("CoreGrammar", reqs)
    for (text, *_), a in zip(REFUTED, ans):
        if not a.startswith("R"):
            ctx.broken_obligations.append({"obligation": "model automaton rejects a refuted sentence", "detail": [text, a]})
    return len(REFUTED)


def conflict_summary(d):
    """state-number-free form of SLY's conflict lists"""
    out = {}
    for key, g in d["parsers"].items():
        sr = Counter("%s/%s" % (t, r) for _, t, r in g["sr"])
        rr = Counter("%s|%s" % (a, b) for _, a, b in g["rr"])
        out[key] = {"sr": dict(sorted(sr.items())), "rr": dict(sorted(rr.items())),
                    "precedence": g["precedence"]}
    return out


# ----------------------------------------------------------------------------- sweep: every alternative at least once
def sweep_sentences(rng):
    """directed sentences so that every alternative of section 5.2 is exercised in every run"""
    out = []
    g = G.Gen(rng)

    def add(block, shape, mask="0"):
        out.append({"block": block, "shape": shape, "mask": mask, "tags": []})
    base = {"surfs": [1, 2, 3], "compl": [7, 8], "mat": 0, "univs": [4, 5], "trs": [6], "num": 10}
    for mn, counts in G.SURF_COUNTS.items():
        for c in counts:
            for _ in range(40):
                sh = g.surface({"num": rng.randint(1, 999), "trs": [6], "periodic": [3], "mn": mn})
                n = len(sh[8])
                if g.cov["MN:%s/%d" % (mn.upper(), c)]:
                    break
            add("surface", sh, rng.choice(["0", "1"]))
    for key in G.CELL_KEYS:
        for _ in range(3):
            add("cell", g.cell(dict(base, params=[key], mat=rng.choice([0, 3]))), rng.choice(["0", "1", "01"]))
    for p in G.ALL_PARTICLES:
        sp = p in G.SYMBOL_PARTICLES
        g.hit("pl:" + p)
        add("data", g.data_numbers("imp", 3, "UREAL", parts=[(sp, p)]))
        add("cell", _imp_cell(g, base, p))
        add("data", g.mode([(False, "n"), (sp, p)]))
    for name in sorted(G.GENERIC):
        add("data", g.generic(name, {}))
    for name in G.NUM_CARDS:
        add("data", g.data_numbers(name, 5, "REAL", num=4))
    for name in G.DIST_CARDS:
        add("data", g.dist_card(name, 1))
        for o in G.DIST_OPTIONS:
            add("data", g.dist_card(name, rng.randint(1, 99), option=o))
    for _ in range(12):
        add("data", g.sdef({"dists": [1, 2]}))
        add("data", g.tally({"num": rng.choice([1, 2, 4, 6, 7, 8]) + 10 * rng.randint(0, 9), "cells": [1, 2, 3]}))
        add("data", g.material({"num": rng.randint(1, 99)}))
    for letter in G.ALL_LIB_LETTERS:
        add("data", g.material({"num": rng.randint(1, 99), "lib_letter": letter}), rng.choice(["0", "1"]))
    for _ in range(4):
        add("data", g.fm({"num": 4}))
        add("data", g.fs({"num": 4, "surfs": [1, 2, 3]}))
        add("data", g.thermal({"num": 2}))
        add("data", g.transform({"num": 5}))
        add("data", g.comment_card(rng.random() < 0.5, 4))
    for s in out:
        s["tags"] = sorted(G.features(s["shape"]))
    return out, g.cov


def _imp_cell(g, base, p):
    ctx = dict(base, params=["imp"], imp_parts=[p])
    orig = g.cparam

    def cparam(key, c, last):
        return orig(key, dict(c, imp_parts=[p]), last)
    g.cparam = cparam
    try:
        return g.cell(ctx)
    finally:
        del g.cparam


# ----------------------------------------------------------------------------- run
def load_corpus():
    out = []
    d = os.path.join(vlib.VERIF, "corpus", "C12")
    if os.path.isdir(d):
        for f in sorted(os.listdir(d)):
            if f.endswith(".json") and f != "grammar_baseline.json":
                with open(os.path.join(d, f)) as fh:
                    c = json.load(fh)
                out.append(c.get("case", c))
    return out


def replay(ctx, path):
    with open(path) as fh:
        case = json.load(fh)
    case = case.get("case", case)
    if case.get("kind") == "file":
        bad = oracle_file(case["text"], case.get("version"))
    elif "shape" in case:
        case["text"] = G.render(case["shape"], case.get("mask", "0"))
        bad = oracle(case["text"], case["block"])
    elif "text" in case and "block" in case:
        bad = oracle(case["text"], case["block"])
    else:
        print("REPLAY property=C12: not a sentence replay (broken obligation records have no input)")
        return 1
    if bad:
        print("REPLAY property=C12 still fails: %s" % bad)
        print(f"VIOLATION property=C12 replay={path}")
        return 1
    print("REPLAY property=C12 passes")
    return 0


def run(ctx):
    import translate_grammar
    quick = ctx.tier == "quick"
    n_problems = 140 if quick else 4500
    t0 = time.time()
    # ---- 1. regenerate Gen/ from the tree under test (fail closed)
    try:
        translate_grammar.regenerate()
        dump = translate_grammar.last()["d"]
    except Exception as e:
        ctx.broken_obligations.append({"obligation": "translate_grammar.regenerate()", "detail": str(e)[-1500:]})
        return ctx.finish(vlib.KERNEL_TB, [], "translator failed")
    # ---- 2. proofs and reflective obligations
    ctx.prove()
    ok, log = vlib.coq_make(["Model/CoreGrammar.vo"])
    if not ok:
        ctx.broken_obligations.append({"obligation": "Model/CoreGrammar.vo builds", "detail": log[-800:]})
        return ctx.finish(vlib.KERNEL_TB, [], "model did not build")
    t_coq = time.time() - t0
    # ---- 3. conflict lists against the committed baseline
    summ = conflict_summary(dump)
    try:
        with open(BASELINE) as fh:
            base = json.load(fh)
    except FileNotFoundError:
        base = None
    if base is None:
        ctx.broken_obligations.append({"obligation": "conflict baseline present", "detail": BASELINE})
    else:
        for key in sorted(set(summ) | set(base)):
            if summ.get(key) != base.get(key):
                a, b = summ.get(key, {}), base.get(key, {})
                diff = {f: {"now": a.get(f), "baseline": b.get(f)} for f in ("sr", "rr", "precedence") if a.get(f) != b.get(f)}
                ctx.broken_obligations.append({"obligation": "SLY conflict lists / precedence of parser '%s' = committed baseline" % key,
                                               "detail": json.dumps(diff)[:1500]})
    # ---- 4. sentences
    sentences = []
    cov = Counter()
    problems = []
    for c in load_corpus():
        if "shape" in c:
            sentences.append({"block": c["block"], "shape": c["shape"], "mask": c.get("mask", "0"), "tags": [], "corpus": True})
    sw, c0 = sweep_sentences(random.Random(f"{ctx.seed}:C12:sweep"))
    cov.update(c0)
    sentences += sw
    for i in range(n_problems):
        rng = random.Random(f"{ctx.seed}:C12:{i}")
        width = 80 if i % 4 == 1 else 128
        S, plan, c1 = G.gen_problem(rng, wild=0.0 if i % 3 else 0.5, tame=i % 3 != 0, width=width)
        cov.update(c1)
        plan["width"] = width
        problems.append((i, S, plan))
        sentences += S
    dist = {"sentences": len(sentences), "by_block": Counter(), "by_parser": Counter(), "tokens": Counter(),
            "shape_ok": 0, "outside_shape_predicate": 0, "not_representable": 0, "lexer_compared": 0,
            "automaton_compared": 0, "number_spelling_not_lex_safe": 0, "lexer_model_compared": 0, "lexer_model_errors": 0, "automaton_real_raised": 0, "model_lr": Counter(), "real_parser": Counter(),
            "oracle_failures": Counter(), "feature_tags": Counter(), "masks": Counter()}
    reqs = []
    idx = []
    for k, s in enumerate(sentences):
        s["text"] = G.render(s["shape"], s["mask"])
        s["tags"] = sorted(G.features(s["shape"]))
        for t in s["tags"]:
            dist["feature_tags"][t] += 1
        if G.representable(s["shape"]):
            reqs.append("gen %s %s" % (s["mask"], " ".join(G.prog(s["shape"]))))
            idx.append(k)
        else:
            dist["not_representable"] += 1
    answers = vlib.model_ask("CoreGrammar", reqs)
    for k, a in zip(idx, answers):
        sentences[k]["model"] = parse_gen_answer(a)
        sentences[k]["answer"] = a
    render_bad, lex_bad, lr_bad = [], [], []
    lr_reqs, lr_who = [], []
    for s in sentences:
        ctx.cov["programs"] += 1
        block = s["block"]
        sh = s["shape"]
        parser = G.parser_of(sh)
        dist["by_block"][block] += 1
        dist["by_parser"][parser] += 1
        dist["masks"]["lower" if set(s["mask"]) == {"0"} else "upper" if set(s["mask"]) == {"1"} else "mixed"] += 1
        py_toks = G.apply_mask(s["mask"], G.toks(sh))
        dist["tokens"][min(len(py_toks) // 10 * 10, 100)] += 1
        m = s.get("model")
        ctx.count_case((block, s["text"]), nontrivial=len(py_toks) > 6)
        real = real_tokens(s["text"], block)
        s["real_classes"] = [c for c, _ in real] if not isinstance(real, tuple) else None
        if m is None:
            if G.representable(sh):
                render_bad.append({"text": s["text"], "answer": s.get("answer")})
        else:
            ctx.cov["disagreements_checked"] += 1
            if m["toks"] != py_toks:
                render_bad.append({"text": s["text"], "python": py_toks[:40], "model": m["toks"][:40]})
            if m["parser"] != parser:
                render_bad.append({"text": s["text"], "parser": [m["parser"], parser]})
            if m["ok"]:
                dist["shape_ok"] += 1
            if m["ok"] and m["lex_safe"]:
                dist["lexer_compared"] += 1
                if not same_tokens(m["toks"], real):
                    lex_bad.append({"text": s["text"], "block": block, "model": m["toks"][:60],
                                    "real": real if isinstance(real, tuple) else real[:60]})
            elif not m["ok"]:
                dist["outside_shape_predicate"] += 1
            else:
                dist["number_spelling_not_lex_safe"] += 1
            dist["model_lr"][lr_letter(m["lr"])] += 1
        # automaton correspondence on the tokens the real lexer produced
        if s["real_classes"] is not None:
            rv = real_parse(s["text"], block, parser)
            s["real_parse"] = rv
            dist["real_parser"][rv[0]] += 1
            if m is not None and s["real_classes"] == [c for c, _ in m["toks"]]:
                s["lr_real"] = lr_letter(m["lr"])
            else:
                lr_reqs.append("lr %s %s" % (parser, ",".join(G.hx(c) for c in s["real_classes"]) or "-"))
                lr_who.append((s, "lr_real"))
            if block == "data":
                rt = real_tokens(s["text"], block, classifier=True)
                if not isinstance(rt, tuple):
                    s["real_parse_cls"] = real_parse(s["text"], block, "classifier", classifier=True)
                    lr_reqs.append("lr classifier %s" % (",".join(G.hx(c) for c, _ in rt) or "-"))
                    lr_who.append((s, "lr_real_cls"))
    for (s, field), a in zip(lr_who, vlib.model_ask("CoreGrammar", lr_reqs)):
        s[field] = lr_letter(a)
    # the lexers of the model (regular expressions of Gen/Lexer.v + the actions written out in CoreGrammar.v)
    # against the real lexers, on every sentence, inside and outside the shape predicate
    lex_reqs, lex_who = [], []
    for s in sentences:
        kind = {"cell": "C", "surface": "S", "data": "D"}[s["block"]]
        lex_reqs.append("lex %s %s" % (kind, G.hx(s["text"])))
        lex_who.append((s, False))
        if s["block"] == "data":
            lex_reqs.append("lex K %s" % G.hx(s["text"]))
            lex_who.append((s, True))
    lexm_bad = []
    lex_answers = vlib.model_ask("CoreGrammar", lex_reqs)
    for (s, cl), a in zip(lex_who, lex_answers):
        real = real_tokens(s["text"], s["block"], classifier=cl)
        dist["lexer_model_compared"] += 1
        if a.startswith("ok"):
            mt = [(unhx(x.split(".")[0]), unhx(x.split(".")[1])) for x in a.split(" ")[1:] if x]
            okay = same_tokens(mt, real)
        else:
            mt = a
            okay = isinstance(real, tuple)
            dist["lexer_model_errors"] += 1
        if not okay:
            lexm_bad.append({"text": s["text"], "block": s["block"], "classifier_input": cl,
                             "model": mt[:60] if isinstance(mt, list) else mt,
                             "real": real if isinstance(real, tuple) else real[:60]})
    if lexm_bad:
        ctx.broken_obligations.append({"obligation": "lexer model: CoreGrammar.tokenize (generated regular expressions) = real lexer",
                                       "detail": {"n": len(lexm_bad), "first": lexm_bad[0]}})
    lex_answers_all = None
    for s in sentences:
        for rf, mf, what in (("real_parse", "lr_real", G.parser_of(s["shape"])), ("real_parse_cls", "lr_real_cls", "classifier")):
            if rf in s and mf in s:
                if s[rf].startswith("X"):
                    dist["automaton_real_raised"] += 1
                    continue
                dist["automaton_compared"] += 1
                if s[rf] != s[mf]:
                    lr_bad.append({"text": s["text"], "parser": what, "real": s[rf], "model": s[mf],
                                   "classes": s["real_classes"][:80]})
    if render_bad:
        ctx.broken_obligations.append({"obligation": "rendering: gen_core.toks = CoreGrammar.gen", "detail":
                                       {"n": len(render_bad), "first": render_bad[0]}})
    if lex_bad:
        ctx.broken_obligations.append({"obligation": "lexer: real tokens = model tokens on sentences satisfying the shape predicate",
                                       "detail": {"n": len(lex_bad), "first": lex_bad[0]}})
    if lr_bad:
        ctx.broken_obligations.append({"obligation": "automaton: real SLY parser verdict = Coq LR driver on the generated tables",
                                       "detail": {"n": len(lr_bad), "first": lr_bad[0]}})
    # vm_compute cross-check of a sample of the model answers
    try:
        xr, xa = reqs + lex_reqs[::7], answers + lex_answers[::7]
        nx, bad = vlib.vm_crosscheck("CoreGrammar", xr, xa, sample=40 if quick else 150, seed=ctx.seed)
    except RuntimeError as e:
        if "inconsistent assumptions" not in str(e):
            raise
        # another check rebuilt a shared Gen/*.vo between our build and this compilation: rebuild and retry once
        vlib.coq_make(["Properties/C12.vo", "Model/CoreGrammar.vo"])
        nx, bad = vlib.vm_crosscheck("CoreGrammar", xr, xa, sample=40 if quick else 150, seed=ctx.seed)
    if bad:
        ctx.broken_obligations.append({"obligation": "extraction cross-check CoreGrammar", "detail": bad[:2]})
    n_ref = check_refuted(ctx)
    # ---- 5. oracle on every sentence
    seen_fail = Counter()
    single_fail = set()
    for k, s in enumerate(sentences):
        bad = oracle(s["text"], s["block"])
        if bad is None:
            continue
        single_fail.add(id(s))
        key = (bad["exception"], tuple(s["tags"]))
        seen_fail[key] += 1
        dist["oracle_failures"][bad["exception"]] += 1
        if seen_fail[key] > 3:
            # the same exception with the same features has been shrunk and reported already
            c = sentence_case(s)
            c["failure"] = bad
            ctx.fail(c) if ctx.attribute(c) is None else ctx.filtered.__setitem__(ctx.attribute(c), ctx.filtered.get(ctx.attribute(c), 0) + 1)
            continue
        small = shrink(sentence_case(s), failing_sentence)
        small["original_text"] = s["text"]
        ctx.fail(small)
        if len(ctx.violations) >= MAXV:
            break
    # ---- 6. whole files
    fd = {"files": 0, "crlf": 0, "failed": 0, "failed_with_failing_card": 0, "with_message": 0,
          "regime_80_columns": 0, "longest_line": 0}
    for i, S, plan in problems:
        rng = random.Random(f"{ctx.seed}:C12:file:{i}")
        crlf = rng.random() < 0.3
        msg = "run by the check" if rng.random() < 0.2 else None
        text = G.problem_text(S, rng, title="problem %d of the core grammar" % i, message=msg, crlf=crlf)
        fd["files"] += 1
        fd["crlf"] += crlf
        fd["with_message"] += bool(msg)
        longest = max(len(l.rstrip("\r").expandtabs(8)) for l in text.split("\n"))
        fd["longest_line"] = max(fd["longest_line"], longest)
        version = (5, 1, 60) if plan.get("width") == 80 and longest <= 80 else None
        fd["regime_80_columns"] += version is not None
        ctx.count_case(("file", text), nontrivial=True)
        bad = oracle_file(text, version)
        if bad is None:
            continue
        fd["failed"] += 1
        if any(id(s) in single_fail for s in S):
            fd["failed_with_failing_card"] += 1      # reported through its card already
            continue
        # shrink: drop cards while the file still fails the same way
        cur = list(S)
        j = len(cur) - 1
        while j >= 0:
            cand = cur[:j] + cur[j + 1:]
            # only cards nothing refers to may go: the context conditions of a well-formed problem must survive
            sh = cur[j]["shape"]
            free = sh[0] in ("tally", "sdef", "text") or (
                sh[0] == "data" and sh[2][1] not in ("mode", "imp", "vol", "u", "lat", "fill", "tr"))
            if free:
                b2 = oracle_file(G.problem_text(cand, None, crlf=crlf), version)
                if b2 is not None and b2["exception"] == bad["exception"]:
                    cur = cand
            j -= 1
        text2 = G.problem_text(cur, None, crlf=crlf)
        ctx.fail({"kind": "file", "text": text2, "failure": oracle_file(text2, version), "crlf": crlf, "original_text": text,
                  "version": version,
                  "cards": [{"block": s["block"], "shape": s["shape"], "mask": s["mask"]} for s in cur],
                  "tags": sorted(set(t for s in cur for t in s["tags"]))})
        if len(ctx.violations) >= MAXV:
            break
    # ---- 7. replay of the committed findings
    for f in ctx.findings:
        if f.get("status") == "open" and f.get("replay"):
            try:
                with open(os.path.join(vlib.VERIF, f["replay"])) as fh:
                    c = json.load(fh)
                c = c.get("case", c)
                if c.get("kind") == "file":
                    f["_reproduced"] = oracle_file(c["text"], c.get("version")) is not None
                else:
                    f["_reproduced"] = oracle(G.render(c["shape"], c.get("mask", "0")) if "shape" in c else c["text"], c["block"]) is not None
            except Exception:
                f["_reproduced"] = False
    for s in sentences[:400:80]:
        ctx.sample({"block": s["block"], "text": s["text"], "shape_ok": bool(s.get("model") and s["model"]["ok"]),
                    "real_parser": s.get("real_parse"), "model_lr": s.get("lr_real")})
    not_exercised = [a for a in G.ALTERNATIVES if not cov[a]]
    tb = vlib.KERNEL_TB + [
        "translate_grammar.py: the production tables, start symbols, precedence, conflict lists and LALR action/goto tables are read "
        "from the imported SLY parser classes of the tree under test (Parser._grammar, Parser._lrtable); the lexer tables from "
        "tokens.py; Cell._parse_keyword_modifiers' prefix test by `ast`",
        "modelled, not verified: sly.yacc.Parser.parse as CoreGrammar.lr_loop (no error recovery: the first syntax error is a "
        "rejection, as MCNP_Parser.parse returns None); ParticleLexer.TEXT / SurfaceLexer.TEXT word classes as word_class",
        "NOT modelled: the lexers' regular expressions (token classes are claimed by `gen` and compared with the real lexer on "
        "every sentence), the semantic actions of the productions and the constructors (covered by the oracle only)",
        f"vm_compute cross-check of {nx} model answers; {n_ref} refuted sentences replayed on the real lexer and parser",
    ]
    assumptions = [
        "C12_*_derivable_partial: derivability in the context-free grammar of the generated production table; acceptance by the "
        "LALR(1) automaton, correct lexing and non-raising constructors are NOT implied — they are checked per generated sentence "
        "(lexer / automaton correspondence, oracle)",
        "the shape predicates leave out the G_core sentences listed as known findings (particle designators u x y z and special "
        "symbols, '+' tally modifier, empty SDEF, padding after '(' of FILL/TRCL values, library-less ZAID after a ZAID with a "
        "library, non-integer xM)",
        "G_core's `WORD` (value of an SDEF or generic keyword) is not defined in DESIGN.md 5.2: SDEF values are numbers, Dn or a "
        "particle; generic keyword values are numbers or a few plain words (xyz, all, ...)",
    ]
    extra = {"input_distribution": {k: (dict(v) if isinstance(v, Counter) else v) for k, v in dist.items()},
             "file_stream": fd, "coverage_of_G_core": dict(sorted(cov.items())),
             "alternatives_total": len(G.ALTERNATIVES), "alternatives_not_exercised": not_exercised,
             "coq_seconds": round(t_coq, 1)}
    return ctx.finish(tb, assumptions,
                      "cases = sentences of G_core x layouts (a sweep that exercises every alternative of DESIGN.md 5.2 + the cards "
                      "of generated well-formed problems) and the problem files; distinct = distinct (block, text); non-trivial = "
                      "more than 6 tokens (or a whole file)",
                      extra=extra)
