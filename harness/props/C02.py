"""C02 — a cell's geometry keeps its Boolean meaning through read, edit and write.

Obligations: coq/Properties/C02.v over coq/Model/Geom.v (HalfSpace trees, the geometry productions and
their actions, _ensure_has_nodes/_child_node, GeometryTree.format; MCNP reference grammar GDenotes).
Correspondence (every run): operator programs (& | ~ &= |=, left/right/operator setters, intermediate
writes) applied to real Surface/Cell/HalfSpace objects, on from-scratch and on parsed geometry, versus the
extracted Geom model: written geometry tokens and the dumped HalfSpace object; the GeometryTree the real
parser builds versus the tree of the modelled actions; the model's reference parser versus spec.parse_geometry.
Oracle (independent of the model): truth tables of the text read (spec.py), of the HalfSpace object walked
in Python (left/right/operator/divider/side) and of the written text must agree; &, |, ~ must have
And/Or/Not meaning on the objects.  Truth tables are exhaustive up to 16 distinct leaves (bit-parallel), sampled
(4096 assignments) above.
"""
import json
import os
import random
import re
import warnings

import vlib
import spec

VERSION = (6, 2, 0)
N_SURF = 9
N_CELL = 5


class Guard(Exception):
    """the program applies a setter to an object that has no such side (runner convention, not MontePy)"""


# ---------------------------------------------------------------------------- real objects
_POOL = None


def pool():
    global _POOL
    if _POOL is None:
        import montepy
        from montepy.input_parser.mcnp_input import Input
        from montepy.input_parser.block_type import BlockType
        from montepy.surfaces.surface_builder import surface_builder
        from montepy.cell import Cell
        from montepy.cells import Cells
        from montepy.surface_collection import Surfaces
        S = Surfaces()
        for n in range(1, N_SURF + 1):
            S.append(surface_builder(Input([f"{n} px {n}"], BlockType.SURFACE)))
        C = Cells()
        for n in range(1, N_CELL + 1):
            C.append(Cell(Input([f"{n} 0 -1"], BlockType.CELL)))
        _POOL = (S, C, montepy.materials.Materials())
    return _POOL


def parsed_cell(lines):
    from montepy.input_parser.mcnp_input import Input
    from montepy.input_parser.block_type import BlockType
    from montepy.cell import Cell
    S, C, M = pool()
    c = Cell(Input(list(lines), BlockType.CELL))
    c.update_pointers(C, M, S)
    return c


def fresh_cell(number=900):
    from montepy.cell import Cell
    c = Cell()
    c.number = number
    return c


def walk(h):
    """the HalfSpace object -> AST of spec.py, read through the public attributes only"""
    from montepy.surfaces.half_space import UnitHalfSpace
    from montepy.geometry_operators import Operator
    if isinstance(h, UnitHalfSpace):
        d = h.divider
        n = d if isinstance(d, int) else d.number
        if h.is_cell:
            return ("not", ("cell", n))            # "inside cell n"
        return ("leaf", 1 if h.side else -1, n)
    if h.operator == Operator.COMPLEMENT:
        return ("not", walk(h.left))
    if h.operator == Operator.INTERSECTION:
        return ("and", walk(h.left), walk(h.right))
    if h.operator == Operator.UNION:
        return ("or", walk(h.left), walk(h.right))
    raise ValueError("operator " + repr(h.operator))


def dump_hs(h):
    """same alphabet as Geom.show_hs"""
    from montepy.surfaces.half_space import UnitHalfSpace
    from montepy.geometry_operators import Operator
    if isinstance(h, UnitHalfSpace):
        d = h.divider
        n = d if isinstance(d, int) else d.number
        return ("c" if h.is_cell else ("+" if h.side else "-")) + str(n)
    if h.operator == Operator.COMPLEMENT:
        return "(# %s)" % dump_hs(h.left)
    return "(%s %s %s)" % ("*" if h.operator == Operator.INTERSECTION else ":", dump_hs(h.left), dump_hs(h.right))


def dump_tree(node):
    """the GeometryTree the parser built -> same alphabet as Geom.show_tree"""
    from montepy.input_parser.syntax_node import GeometryTree, ValueNode
    if isinstance(node, ValueNode):
        return ("-" if node.is_negative else "+") + str(int(abs(node.value)))
    if not isinstance(node, GeometryTree):
        return "?" + type(node).__name__
    op = node.operator.value
    n = node.nodes
    if op == ">":
        if "start_pad" in n and "(" in n["start_pad"].format():
            return "(p %s)" % dump_tree(n["left"])
        return "(> %s)" % dump_tree(n["left"])
    if op == "#":
        return "(# %s)" % dump_tree(n["left"])
    return "(%s %s %s)" % (op, dump_tree(n["left"]), dump_tree(n["right"]))


def dump_nodes(node):
    """the syntax nodes behind a HalfSpace after the write -> alphabet of Geom.show_nodes (the "shift" node that
    promotes a lone number is transparent; "geom parens" nodes are (p x); a complement node with parentheses of
    its own is (#p x))"""
    from montepy.input_parser.syntax_node import GeometryTree, ValueNode
    if isinstance(node, ValueNode):
        return ("-" if node.is_negative else "+") + str(int(abs(node.value)))
    if not isinstance(node, GeometryTree):
        return "?" + type(node).__name__
    op = node.operator.value
    n = node.nodes
    if op == ">":
        if "start_pad" in n and "(" in n["start_pad"].format():
            return "(p %s)" % dump_nodes(n["left"])
        return dump_nodes(n["left"])
    if op == "#":
        return "(%s %s)" % ("#p" if "start_pad" in n else "#", dump_nodes(n["left"]))
    # the operator that is written: the text of the operator padding without its comments (GeometryTree.operator
    # itself is not updated by the HalfSpace.operator setter; only the padding text is)
    from montepy.input_parser.syntax_node import CommentNode, PaddingNode
    text = "".join(x.format() if isinstance(x, PaddingNode) else x for x in n["operator"].nodes
                   if not isinstance(x, CommentNode))
    return "(%s %s %s)" % (":" if ":" in text else "*", dump_nodes(n["left"]), dump_nodes(n["right"]))


# ---------------------------------------------------------------------------- truth tables
EXHAUSTIVE_LEAVES = 16
SAMPLED_ASSIGNMENTS = 4096


def ast_leaves(a, acc=None):
    acc = set() if acc is None else acc
    k = a[0]
    if k == "leaf":
        acc.add(("s", a[2]))
    elif k == "cell":
        acc.add(("c", a[1]))
    else:
        for x in a[1:]:
            ast_leaves(x, acc)
    return acc


def _table(a, col, mask):
    k = a[0]
    if k == "leaf":
        v = col[("s", a[2])]
        return v if a[1] > 0 else mask & ~v
    if k == "cell":                       # "#n": outside cell n
        return mask & ~col[("c", a[1])]
    if k == "not":
        return mask & ~_table(a[1], col, mask)
    x = _table(a[1], col, mask)
    y = _table(a[2], col, mask)
    return (x & y) if k == "and" else (x | y)


def truth_equal(a, b, stats=None):
    """Boolean-function equality of two spec ASTs: the whole truth table over the union of their leaves as one
    integer (bit i = assignment i); exhaustive up to EXHAUSTIVE_LEAVES leaves, else SAMPLED_ASSIGNMENTS random
    assignments (a search aid only: the theorem is the claim)"""
    leaves = sorted(ast_leaves(a) | ast_leaves(b))
    n = len(leaves)
    col = {}
    if n <= EXHAUSTIVE_LEAVES:
        rows = 1 << n
        mask = (1 << rows) - 1
        for i, l in enumerate(leaves):
            # column i: bit r is set iff bit i of r is set = the block 0..01..1 (2^i zeros, 2^i ones) repeated
            period = 1 << (i + 1)
            block = ((1 << (1 << i)) - 1) << (1 << i)
            col[l] = block * (((1 << rows) - 1) // ((1 << period) - 1))
        if stats is not None:
            stats["exhaustive"] = stats.get("exhaustive", 0) + 1
    else:
        rows = SAMPLED_ASSIGNMENTS
        mask = (1 << rows) - 1
        rng = random.Random("C02-table:%d" % n)
        for l in leaves:
            col[l] = rng.getrandbits(rows)
        if stats is not None:
            stats["sampled"] = stats.get("sampled", 0) + 1
    return _table(a, col, mask) == _table(b, col, mask)


TABLE_STATS = {}


def geom_equal(a, b):
    return truth_equal(a, b, TABLE_STATS)


# ---------------------------------------------------------------------------- text side (spec.py)
_KEY = re.compile(r"^\*?[A-Z]")


def card_of(lines):
    f = spec.split_file("t\n" + "\n".join(lines) + "\n\n")
    return f["blocks"][0][0]


def geom_tokens(lines):
    """tokens of the geometry of a cell card with material 0 (independent reader)"""
    toks = spec.tokens(card_of(lines).text, cell_geometry=True)
    j = 2
    while j < len(toks) and not _KEY.match(toks[j]):
        j += 1
    return toks[2:j]


def canon(toks):
    """spec tokens -> the model's token alphabet"""
    out = []
    i = 0
    while i < len(toks):
        t = toks[i]
        if t == "#" and i + 1 < len(toks) and re.match(r"^\d+$", toks[i + 1]):
            out.append("C%d" % int(toks[i + 1]))
            i += 2
            continue
        if t in "#():" and len(t) == 1:
            out.append(t)
        elif re.match(r"^[+-]?\d+$", t):
            out.append("L%d" % int(t))
        else:
            out.append("?" + t)
        i += 1
    return out


def show_ast(a):
    """spec AST -> alphabet of Geom.show_bexp"""
    k = a[0]
    if k == "leaf":
        return ("+" if a[1] > 0 else "-") + str(a[2])
    if k == "cell":
        return "#%d" % a[1]
    if k == "not":
        return "(not %s)" % show_ast(a[1])
    return "(%s %s %s)" % (k, show_ast(a[1]), show_ast(a[2]))


def n_leaves(a):
    k = a[0]
    if k in ("leaf", "cell"):
        return 1
    if k == "not":
        return n_leaves(a[1])
    return n_leaves(a[1]) + n_leaves(a[2])


# ---------------------------------------------------------------------------- programs
# a program is a nested list: ["p",n] ["n",n] ["c",n] ["b"] | ["A",x,y] ["O",x,y] ["N",x] | ["IA",x,y] ["IO",x,y]
#   | ["SL",x,y] ["SR",x,y] | ["XI",x] ["XU",x] | ["W",x]
BIN = ("A", "O", "IA", "IO", "SL", "SR")
UN = ("N", "XI", "XU", "W", "GL", "GR", "AA", "OO")      # GL/GR: x.left / x.right; AA/OO: x & x / x | x (oracle only)
SETTERS = ("SL", "SR", "XI", "XU")


def kids(p):
    """sub-programs of a program node (["AT", path, op, x(, y)]: in-place edit of the sub-object of x at path)"""
    if p[0] in ("p", "n", "c", "b"):
        return []
    return p[3:] if p[0] == "AT" else p[1:]


def rebuild(p, new_kids):
    return (p[:3] if p[0] == "AT" else p[:1]) + list(new_kids)


def postfix(p):
    k = p[0]
    if k in ("p", "n", "c"):
        return ["%s%d" % (k, p[1])]
    if k == "b":
        return ["b"]
    out = []
    for x in kids(p):
        out += postfix(x)
    if k == "AT":
        return out + ["@%s%s" % (p[1], p[2])]
    return out + [k]


def prog_ops(p, acc=None):
    acc = {} if acc is None else acc
    key = "@" + p[2] if p[0] == "AT" else p[0]
    acc[key] = acc.get(key, 0) + 1
    for x in kids(p):
        prog_ops(x, acc)
    return acc


def prog_size(p):
    return 1 + sum(prog_size(x) for x in kids(p))


def gen_prog(rng, depth, base, setters, leaves=None):
    """random operator program; base: whether ["b"] may be used (exactly once: it is placed on the
    leftmost leaf of a random spine, so that it is usually the object that is modified in place)"""
    used = [not base]

    def leaf():
        r = rng.random()
        if r < 0.12:
            return ["c", rng.randint(1, N_CELL)]
        return [rng.choice(["p", "n"]), rng.randint(1, N_SURF)]

    def go(d, want_base):
        if want_base and not used[0] and (d <= 0 or rng.random() < 0.35):
            used[0] = True
            return ["b"]
        if d <= 0 or (rng.random() < 0.22 and not (want_base and not used[0])):
            return leaf()
        r = rng.random()
        if r < 0.16:
            k = rng.choice(["N", "N", "W"])
            if setters and rng.random() < 0.5:
                k = rng.choice(["XI", "XU"])
            return [k, go(d - 1, want_base)]
        ks = ["A", "A", "O", "O", "IA", "IA", "IO", "IO"]
        if setters:
            ks += ["SL", "SR", "SL", "SR"]
        k = rng.choice(ks)
        if want_base and not used[0]:
            side = 0 if k in ("IA", "IO", "SL", "SR") or rng.random() < 0.6 else 1
        else:
            side = None
        a = go(d - 1, side == 0)
        b = go(d - 1 if rng.random() < 0.6 else max(0, d - 2), side == 1 or (want_base and not used[0]))
        return [k, a, b]

    p = go(depth, base)
    if not used[0]:
        p = [rng.choice(["A", "O", "IA", "IO"]), ["b"], p]
    return p


def run_program(p, basecell):
    """execute on real objects; returns the resulting object (raises Guard / MontePy exceptions)"""
    from montepy.surfaces.half_space import UnitHalfSpace
    from montepy.geometry_operators import Operator
    S, C, _ = pool()
    k = p[0]
    if k == "p":
        return +S[p[1]]
    if k == "n":
        return -S[p[1]]
    if k == "c":
        return ~C[p[1]]
    if k == "b":
        return basecell.geometry
    if k == "AT":
        # in-place edit of a sub-object: x.left.operator = ..., x.right.left = y, x.left &= y, ...; the result is x
        root = run_program(p[3], basecell)
        path, op = p[1], p[2]
        b = run_program(p[4], basecell) if len(p) > 4 else None
        parent = root
        for ch in path[:-1]:
            if isinstance(parent, UnitHalfSpace):
                raise Guard()
            parent = parent.left if ch == "L" else parent.right
            if parent is None:
                raise Guard()
        if isinstance(parent, UnitHalfSpace):
            raise Guard()
        side = "left" if path[-1] == "L" else "right"
        target = getattr(parent, side)
        if target is None or (isinstance(target, UnitHalfSpace) and (target.is_cell or op != "IA" and op != "IO")):
            raise Guard()
        if op in ("XI", "XU"):
            if target.operator == Operator.COMPLEMENT:
                raise Guard()
            target.operator = Operator.INTERSECTION if op == "XI" else Operator.UNION
        elif op == "SL":
            target.left = b
        elif op == "SR":
            if target.operator == Operator.COMPLEMENT:
                raise Guard()
            target.right = b
        elif op == "IA":
            target &= b
            setattr(parent, side, target)
        elif op == "IO":
            target |= b
            setattr(parent, side, target)
        else:
            raise ValueError(op)
        return root
    a = run_program(p[1], basecell)
    if k == "N":
        return ~a
    if k == "W":
        sc = fresh_cell(901)
        sc.geometry = a
        with warnings.catch_warnings():
            warnings.simplefilter("ignore")
            sc.format_for_mcnp_input(VERSION)
        return a
    if k in ("XI", "XU"):
        if isinstance(a, UnitHalfSpace) or a.operator == Operator.COMPLEMENT:
            raise Guard()
        a.operator = Operator.INTERSECTION if k == "XI" else Operator.UNION
        return a
    if k in ("GL", "GR"):
        # a sub-tree taken out of an object and used again (a cell UnitHalfSpace only means something under its complement)
        if isinstance(a, UnitHalfSpace) or (k == "GR" and a.right is None):
            raise Guard()
        sub = a.left if k == "GL" else a.right
        if isinstance(sub, UnitHalfSpace) and sub.is_cell:
            raise Guard()
        return sub
    if k == "AA":
        return a & a
    if k == "OO":
        return a | a
    b = run_program(p[2], basecell)
    if k == "A":
        return a & b
    if k == "O":
        return a | b
    if k == "IA":
        a &= b
        return a
    if k == "IO":
        a |= b
        return a
    if k == "SL":
        if isinstance(a, UnitHalfSpace):
            raise Guard()
        a.left = b
        return a
    if k == "SR":
        if isinstance(a, UnitHalfSpace) or a.operator == Operator.COMPLEMENT:
            raise Guard()
        a.right = b
        return a
    raise ValueError(k)


def shadow(p, base_ast):
    """meaning the program must have where the property fixes it (& | ~ on any operands); None below an
    operator whose result the property leaves to the code (&=, |=, setters)"""
    k = p[0]
    if k == "p":
        return ("leaf", 1, p[1])
    if k == "n":
        return ("leaf", -1, p[1])
    if k == "c":
        return ("not", ("not", ("cell", p[1])))
    if k == "b":
        return base_ast
    if k == "W":
        return shadow(p[1], base_ast)
    if k == "N":
        a = shadow(p[1], base_ast)
        return None if a is None else ("not", a)
    if k in ("AA", "OO"):
        a = shadow(p[1], base_ast)
        return None if a is None else ("and" if k == "AA" else "or", a, a)
    if k in ("GL", "GR"):
        a = shadow(p[1], base_ast)
        if a is None or a[0] in ("leaf", "cell"):
            return None
        if a[0] == "not":
            return a[1] if k == "GL" else None
        return a[1] if k == "GL" else a[2]
    if k in ("A", "O"):
        a = shadow(p[1], base_ast)
        b = shadow(p[2], base_ast)
        return None if a is None or b is None else ("and" if k == "A" else "or", a, b)
    return None


def bounds(p, base_ast):
    """(lower, upper) meaning of the program's result where the property and MontePy's documentation fix it:
    & | ~ exactly; a &= b is inside a and contains a & b; a |= b contains a and is inside a | b (proved of the
    model as C02_aug_ops_bounds); None below the setters, whose result is whatever the caller assembles"""
    k = p[0]
    if k in ("p", "n", "c", "b", "AA", "OO", "GL", "GR"):
        e = shadow(p, base_ast)
        return None if e is None else (e, e)
    if k == "W":
        return bounds(p[1], base_ast)
    if k == "N":
        a = bounds(p[1], base_ast)
        return None if a is None else (("not", a[1]), ("not", a[0]))
    if k in ("A", "O", "IA", "IO"):
        a = bounds(p[1], base_ast)
        b = bounds(p[2], base_ast)
        if a is None or b is None:
            return None
        if k == "A":
            return (("and", a[0], b[0]), ("and", a[1], b[1]))
        if k == "O":
            return (("or", a[0], b[0]), ("or", a[1], b[1]))
        if k == "IA":
            return (("and", a[0], b[0]), a[1])
        return (a[0], ("or", a[1], b[1]))
    return None


def implies(a, b):
    return geom_equal(("or", ("not", a), b), ("or", ("leaf", 1, 1), ("leaf", -1, 1)))


# ---------------------------------------------------------------------------- base text generator
def gen_geom_items(rng, depth, cells=True, cap=60):
    """-> list of token texts, grammar expr/term/factor with redundant parentheses; at most about cap tokens (a
    budget of leaves: when it is used up every factor is a leaf and no operand is added, so deep nesting stays
    possible without the size exploding)"""
    budget = [max(1, cap // 2)]

    def leaf():
        budget[0] -= 1
        if cells and rng.random() < 0.1:
            return ["#%d" % rng.randint(1, N_CELL)]
        s = rng.randint(1, N_SURF)
        sign = rng.choice(["-", "", "", "+"]) if rng.random() < 0.3 else rng.choice(["-", ""])
        return [sign + str(s)]

    def fact(d):
        r = rng.random()
        if d <= 0 or r < 0.5 or budget[0] <= 0:
            return leaf()
        if r < 0.85:
            return ["("] + expr(d - 1) + [")"]
        return ["#("] + expr(d - 1) + [")"]

    def term(d):
        it = fact(d)
        for _ in range(rng.choice([0, 0, 1, 1, 2, 3])):
            if budget[0] <= 0:
                break
            it = it + fact(d)
        return it

    def expr(d):
        it = term(d)
        for _ in range(rng.choice([0, 0, 0, 1, 1, 2])):
            if budget[0] <= 0:
                break
            it = it + [":"] + term(d)
        return it

    for _ in range(50):
        budget[0] = max(1, cap // 2)
        it = expr(depth)
        if len(it) <= cap:
            return it
        depth = max(0, depth - 1)
    return it


def render_geom(rng, items, glue=0.0, breaks=0.05, comments=0.3, multi=0.2, width=64):
    """cell card lines '7 0 <geometry> [imp:n=1]' in a random layout.  glue: probability of writing an
    implicit intersection without blanks ( ')(' , '1(' , ')1' )"""
    lines = []
    cur = "7 0"
    prev = None
    for t in items:
        if prev is None:
            s = " "
        elif t == ")" or prev in ("(", "#("):
            s = "" if rng.random() < 0.75 else " "
        elif t == ":" or prev == ":":
            s = "" if rng.random() < 0.5 else " "
        elif (t == "(" and (prev == ")" or prev[-1].isdigit())) or (prev == ")" and t[0] in "+-0123456789") \
                or (t[0] == "#" and (prev == ")" or prev[-1].isdigit())):
            # implicit intersection: ")(" "1(" ")1" and, since c11a1dc, a complement after them: ")#3" ")#(" "1#3"
            s = "" if rng.random() < glue else " "
        else:
            s = " " * (rng.choice([2, 3, 6]) if rng.random() < multi else 1)
        if prev is not None and (rng.random() < breaks or len(cur) + len(s) + len(t) > width):
            if rng.random() < comments:
                cur += " $ " + rng.choice(["a comment", "surf 5 here", "x=1 (not data)", "aspect ratio 1:2",
                                           "see #3 (old: 4:5)", "ratio 2:1 #", ": # ( ) &"])
            lines.append(cur)
            while rng.random() < comments * 0.5:
                lines.append(rng.choice(["c interior comment", "C", "c     1 2 : 3", "c #(4 5) : 6", "c ratio 1:2"]))
            cur = " " * rng.choice([5, 5, 6, 8])
            s = ""
        cur += s + t
        prev = t
    if rng.random() < 0.4:
        cur += " imp:n=1"
    lines.append(cur)
    return lines


def wrap_items(items, width=72):
    """'7 0 item item ...' on as many lines as needed (continuation lines start with five blanks): MCNP and the
    oracle ignore what is beyond column 80"""
    lines = []
    cur = "7 0"
    for t in items:
        if len(cur) + 1 + len(t) > width:
            lines.append(cur)
            cur = "     " + t
        else:
            cur += " " + t
    lines.append(cur)
    return lines


def plain_lines(canon_toks):
    txt = []
    for t in canon_toks:
        if t[0] == "L":
            txt.append(t[1:])
        elif t[0] == "C":
            txt.append("#" + t[1:])
        else:
            txt.append(t)
    return wrap_items(txt)


# ---------------------------------------------------------------------------- one case
def observe(case):
    """run the case on the real code.  -> dict of observations (never raises for MontePy errors)"""
    ob = {"base_tokens": None, "base_ast": None, "tree": None, "obj0": None}
    basecell = None
    if case.get("base_lines"):
        ob["base_tokens"] = canon(geom_tokens(case.get("base_read_lines") or case["base_lines"]))
        try:
            ob["base_ast"] = spec.parse_geometry(geom_tokens(case.get("base_read_lines") or case["base_lines"]))
        except spec.GeomError as e:
            ob["base_ast_error"] = str(e)
        try:
            with warnings.catch_warnings():
                warnings.simplefilter("ignore")
                basecell = parsed_cell(case["base_lines"])
        except Exception as e:
            ob["read_error"] = type(e).__name__
            return ob
        ob["tree"] = dump_tree(basecell._tree["geometry"])
        ob["obj0"] = walk(basecell.geometry)
    try:
        res = run_program(case["prog"], basecell) if case.get("prog") else basecell.geometry
    except Guard:
        ob["outcome"] = "err:guard"
        return ob
    except RecursionError:
        ob["outcome"] = "exc:RecursionError"
        return ob
    except Exception as e:
        ob["outcome"] = "exc:" + type(e).__name__
        return ob
    target = basecell if basecell is not None else fresh_cell()
    try:
        ob["obj"] = walk(res)
        ob["obj_dump"] = dump_hs(res)
        ob["obj_str"] = str(res)
        if target.geometry is not res:
            target.geometry = res
        with warnings.catch_warnings():
            warnings.simplefilter("ignore")
            out = target.format_for_mcnp_input(VERSION)
        ob["nodes"] = dump_nodes(res.node)
    except RecursionError:
        ob["outcome"] = "exc:RecursionError"
        return ob
    except Exception as e:
        ob["outcome"] = "exc:" + type(e).__name__
        ob["detail"] = str(e)[:200]
        return ob
    ob["outcome"] = "ok"
    ob["written_lines"] = out
    wt = geom_tokens(out)
    ob["written_tokens"] = canon(wt)
    try:
        ob["written_ast"] = spec.parse_geometry(wt)
    except spec.GeomError as e:
        ob["written_ast"] = None
        ob["written_error"] = str(e)
    return ob


def judge(case, ob):
    """the property's sentences on the observations -> None or failure dict"""
    if "read_error" in ob:
        return None                                   # reading is C12/C13's business
    if case.get("base_lines"):
        if ob["base_ast"] is None:
            return None                               # the oracle cannot read the generated text: not a verdict
        if not geom_equal(ob["base_ast"], ob["obj0"]):
            return {"kind": "read-object-differ", "text": show_ast(ob["base_ast"]), "object": show_ast(ob["obj0"])}
    if ob.get("outcome") == "err:guard":
        return None
    if ob.get("outcome", "").startswith("exc:"):
        return {"kind": "exception", "exception": ob["outcome"][4:], "detail": ob.get("detail", "")}
    if case.get("prog"):
        sh = shadow(case["prog"], ob["obj0"])
        if sh is not None and not geom_equal(sh, ob["obj"]):
            return {"kind": "operator-meaning", "expected": show_ast(sh), "object": show_ast(ob["obj"])}
        bd = bounds(case["prog"], ob["obj0"]) if sh is None else None
        if bd is not None and not (implies(bd[0], ob["obj"]) and implies(ob["obj"], bd[1])):
            return {"kind": "operator-meaning", "at_least": show_ast(bd[0]), "at_most": show_ast(bd[1]),
                    "object": show_ast(ob["obj"])}
    if ob["written_ast"] is None:
        return {"kind": "written-unparsable", "written": ob["written_lines"], "error": ob.get("written_error"),
                "object": show_ast(ob["obj"])}
    if not geom_equal(ob["obj"], ob["written_ast"]):
        return {"kind": "object-written-differ", "object": show_ast(ob["obj"]),
                "written": ob["written_lines"], "written_means": show_ast(ob["written_ast"])}
    return None


def check_case(case):
    return judge(case, observe(case))


def request_of(case, ob):
    b = ",".join(ob["base_tokens"]) if case.get("base_lines") else "-"
    p = ",".join(postfix(case["prog"])) if case.get("prog") else "b"
    return "case %s %s" % (b or "-", p)


def real_answer(ob):
    if ob.get("outcome") == "ok":
        return "%s|%s|%s|%s" % (",".join(ob["written_tokens"]) or "-", ob["obj_dump"], ob["obj_str"], ob["nodes"])
    return ob.get("outcome", "?")


# ---------------------------------------------------------------------------- shrinking
def subprogs(p):
    """candidate smaller programs"""
    ks = kids(p)
    for x in ks:
        yield x
    for i in range(len(ks)):
        for y in subprogs(ks[i]):
            yield rebuild(p, ks[:i] + [y] + ks[i + 1:])


def has_base(p):
    return p[0] == "b" or any(has_base(x) for x in kids(p))


def ast_items(a, level=0):
    """spec AST -> token texts with the parentheses MCNP needs (level 0 expression, 1 term, 2 factor)"""
    k = a[0]
    if k == "leaf":
        return [("-" if a[1] < 0 else "") + str(a[2])]
    if k == "cell":
        return ["#%d" % a[1]]
    if k == "not":
        return ["#("] + ast_items(a[1], 0) + [")"]
    if k == "and":
        it = ast_items(a[1], 1) + ast_items(a[2], 2)
        return it if level <= 1 else ["("] + it + [")"]
    it = ast_items(a[1], 0) + [":"] + ast_items(a[2], 1)
    return it if level == 0 else ["("] + it + [")"]


def smaller_asts(a):
    """the AST with one node replaced by one of its children"""
    k = a[0]
    if k in ("leaf", "cell"):
        return
    for x in a[1:]:
        yield x
    for i in range(1, len(a)):
        for y in smaller_asts(a[i]):
            yield a[:i] + (y,) + a[i + 1:]


def shrink(case, failing):
    cur = dict(case)
    if cur.get("base_lines") and not cur.get("base_read_lines"):
        try:
            cand = dict(cur, base_lines=plain_lines(canon(geom_tokens(cur["base_lines"]))))
            if failing(cand):
                cur = cand
        except Exception:
            pass
        # smaller geometry text: sub-expressions of what was read, written canonically
        try:
            ast = spec.parse_geometry(geom_tokens(cur["base_lines"]))
            n = 0
            changed = True
            while changed and n < 150:
                changed = False
                for sub in smaller_asts(ast):
                    n += 1
                    cand = dict(cur, base_lines=wrap_items(ast_items(sub)))
                    if failing(cand):
                        cur, ast, changed = cand, sub, True
                        break
                    if n >= 150:
                        break
        except Exception:
            pass
    changed = True
    n = 0
    while changed and cur.get("prog") and n < 200:
        changed = False
        for cand_p in subprogs(cur["prog"]):
            n += 1
            if cur.get("base_lines") and not has_base(cand_p):
                continue
            cand = dict(cur, prog=cand_p)
            if failing(cand):
                cur = cand
                changed = True
                break
    return cur


# ---------------------------------------------------------------------------- case streams
def make_case(rng, stream, boost=0):
    if stream == "scratch":
        d = rng.choice([1, 2, 2, 3, 3, 4, 5]) + (rng.randint(0, boost) if boost else 0)
        return {"stream": stream, "base_lines": None, "prog": gen_prog(rng, d, False, False)}
    if stream == "scratch-setters":
        return {"stream": stream, "base_lines": None, "prog": gen_prog(rng, rng.choice([2, 3, 4]), False, True)}
    if stream == "deep":                   # thorough tier: nesting up to 40, several hundred tokens, long programs
        d = rng.choice([6, 8, 12, 20, 40])
        base = gen_geom_items(rng, d, cap=400) if rng.random() < 0.7 else None
        # nest further: wrap the expression in alternating parentheses / complements / unions
        if base is not None:
            for _ in range(rng.randint(0, d)):
                r = rng.random()
                base = (["("] + base + [")"]) if r < 0.4 else (["#("] + base + [")"]) if r < 0.6 else \
                       (["("] + base + [":", str(rng.randint(1, N_SURF)), ")"]) if r < 0.8 else \
                       (["-%d" % rng.randint(1, N_SURF), "("] + base + [")"])
        pr = gen_prog(rng, rng.choice([2, 4, 6, 8]), base is not None, rng.random() < 0.5)
        return {"stream": stream, "base_lines": render_geom(rng, base, glue=0.3, breaks=0.05) if base else None, "prog": pr}
    items = gen_geom_items(rng, rng.choice([0, 1, 2, 2, 3, 3, 4]) + (rng.randint(0, boost) if boost else 0))
    if stream == "unedited":
        return {"stream": stream, "base_lines": render_geom(rng, items, glue=0.5), "prog": None}
    if stream == "edited":
        return {"stream": stream, "base_lines": render_geom(rng, items, glue=0.5),
                "prog": gen_prog(rng, rng.choice([1, 1, 2, 3]), True, False)}
    if stream == "edited-setters":
        return {"stream": stream, "base_lines": render_geom(rng, items, glue=0.0),
                "prog": gen_prog(rng, rng.choice([1, 2, 3]), True, True)}
    if stream == "history":                # from scratch, written, edited in place below the root, written again
        main_op = rng.choice(["A", "O"])

        def tree(d):
            r = rng.random()
            if d <= 0 or r < 0.2:
                return ["c", rng.randint(1, N_CELL)] if rng.random() < 0.3 else [rng.choice(["p", "n"]), rng.randint(1, N_SURF)]
            if r < 0.35:
                return ["N", tree(d - 1)]
            op = main_op if rng.random() < 0.75 else ("O" if main_op == "A" else "A")
            return [op, tree(d - 1), tree(d - 1)]

        def paths(t, pre=""):
            # (path, kind) of the sub-objects of the object that the pure & | ~ program t builds
            out = []
            if t[0] in ("A", "O"):
                out += [(pre + "L", t[1][0]), (pre + "R", t[2][0])] + paths(t[1], pre + "L") + paths(t[2], pre + "R")
            elif t[0] == "N":
                out += [(pre + "L", t[1][0])] + paths(t[1], pre + "L")
            return out

        def ops_for(kind):
            if kind in ("A", "O"):
                return ["XI", "XU", "XU", "SL", "SL", "SR", "SR", "IA", "IO"]
            if kind in ("N", "c"):          # a complement: its operand can be replaced
                return ["SL", "SL", "IA", "IO"]
            return ["IA", "IO"]             # a surface leaf

        t = tree(rng.choice([2, 2, 3, 3, 4]))
        if t[0] in ("p", "n"):
            t = [main_op, t, tree(1)]
        ps = paths(t)
        pr = ["W", t]
        for _ in range(rng.choice([1, 1, 2, 3])):
            small = tree(rng.choice([0, 1, 1, 2]))
            if rng.random() < 0.25 or not ps:
                op = rng.choice(ops_for(t[0]))
                pr = [op, pr] + ([] if op in ("XI", "XU") else [small])
            else:
                path, kind = rng.choice(ps)
                op = rng.choice(ops_for(kind))
                pr = ["AT", path, op, pr] + ([] if op in ("XI", "XU") else [small])
            if rng.random() < 0.5:
                pr = ["W", pr]
        return {"stream": stream, "base_lines": None, "prog": pr}
    if stream == "parsed-history":         # parsed, many comments / line breaks between operands, edited in place below the root
        lines = render_geom(rng, items, glue=0.2, breaks=0.45, comments=0.9, multi=0.2, width=rng.choice([30, 48, 64]))
        try:
            ast = spec.parse_geometry(geom_tokens(lines))
        except Exception:
            ast = None

        def apaths(a, pre=""):
            out = []
            if a[0] in ("and", "or"):
                out += [(pre + "L", a[1][0]), (pre + "R", a[2][0])] + apaths(a[1], pre + "L") + apaths(a[2], pre + "R")
            elif a[0] == "not":
                out += [(pre + "L", a[1][0])] + apaths(a[1], pre + "L")
            return out

        pr = ["b"]
        ps = apaths(ast) if ast else []
        bins = [q for q in ps if q[1] in ("and", "or")]
        for _ in range(rng.choice([1, 1, 2, 3])):
            r = rng.random()
            if ast and ast[0] in ("and", "or") and (r < 0.3 or not bins):
                pr = [rng.choice(["XU", "XI", "XU"]), pr]
            elif bins and r < 0.85:
                pr = ["AT", rng.choice(bins)[0], rng.choice(["XU", "XI", "XU"]), pr]
            elif ps:
                path, kind = rng.choice(ps)
                op = rng.choice(["IA", "IO"] if kind in ("leaf",) else ["SL", "IA", "IO"] if kind in ("not", "cell") else ["SL", "SR", "IA", "IO"])
                pr = ["AT", path, op, pr, [rng.choice(["p", "n"]), rng.randint(1, N_SURF)]]
            else:
                pr = [rng.choice(["IA", "IO"]), pr, [rng.choice(["p", "n"]), rng.randint(1, N_SURF)]]
            if rng.random() < 0.3:
                pr = ["W", pr]
        return {"stream": stream, "base_lines": lines, "prog": pr}
    if stream == "layout-setters":         # every layout feature at once, with setters
        return {"stream": stream, "base_lines": render_geom(rng, items, glue=0.5, breaks=0.3, comments=0.6, multi=0.4,
                                                            width=rng.choice([24, 40, 64])),
                "prog": gen_prog(rng, rng.choice([1, 2, 3]), True, True)}
    if stream == "alias":                  # oracle only: sub-trees taken out with .left/.right and objects used twice
        def wrap_alias(p):
            if p[0] in ("p", "n", "c"):
                return p
            if p[0] == "b":
                r = rng.random()
                return ["GL", p] if r < 0.25 else ["GR", p] if r < 0.5 else ["AA", p] if r < 0.6 else ["OO", p] if r < 0.7 else p
            q = [p[0]] + [wrap_alias(x) for x in p[1:]]
            r = rng.random()
            if p[0] in ("A", "O", "N", "b") and r < 0.2:
                return [rng.choice(["AA", "OO", "GL", "GR"]), q]
            return q
        pr = wrap_alias(gen_prog(rng, rng.choice([1, 2, 3]), rng.random() < 0.7, False))
        if not has_base(pr):
            return {"stream": stream, "base_lines": None, "prog": pr}
        return {"stream": stream, "base_lines": render_geom(rng, items, glue=0.3), "prog": pr}
    if stream == "shortcut-edited":        # oracle only
        c = make_case(rng, "shortcut", boost)
        c["stream"] = stream
        c["prog"] = gen_prog(rng, rng.choice([1, 2]), True, rng.random() < 0.5)
        return c
    if stream == "glued-setters":          # implicit intersections everywhere, on one line
        return {"stream": stream, "base_lines": render_geom(rng, items, glue=1.0, breaks=0.0),
                "prog": gen_prog(rng, rng.choice([1, 2]), True, True)}
    if stream == "shortcut":               # oracle only: shortcuts inside cell geometry are not modelled
        a = rng.randint(1, 4)
        k = rng.randint(1, 3)
        b = a + k + 1
        if rng.random() < 0.25:            # repeat: "3 2r" = 3 3 3
            k = rng.randint(1, 2)
            pre = gen_geom_items(rng, 1, cells=False) if rng.random() < 0.5 else []
            lines = wrap_items(pre + [str(a), "%dr" % k])
            read = wrap_items(pre + [str(a)] * (k + 1))
            return {"stream": stream, "base_lines": lines, "base_read_lines": read, "prog": None}
        pre = gen_geom_items(rng, 1, cells=False) if rng.random() < 0.5 else []
        mid = [str(a), "%di" % k, str(b)]
        exp = [str(x) for x in range(a, b + 1)]
        tail = ([":"] + gen_geom_items(rng, 0, cells=False)) if rng.random() < 0.5 else []
        wrap = rng.random() < 0.5
        lines = wrap_items(pre + (["("] if wrap else []) + mid + ([")"] if wrap else []) + tail)
        read = wrap_items(pre + (["("] if wrap else []) + exp + ([")"] if wrap else []) + tail)
        return {"stream": stream, "base_lines": lines, "base_read_lines": read, "prog": None}
    raise ValueError(stream)


def model_streams():
    """streams whose cases are also run through the model (shortcut tokens are outside the model)"""
    return ("scratch", "scratch-setters", "unedited", "edited", "edited-setters", "glued-setters", "layout-setters",
            "deep", "history", "parsed-history", "corpus")


def in_model(case):
    return case.get("stream", "corpus") in model_streams() and not case.get("base_read_lines")


def corr_mismatch(case, ob=None):
    """single case through the extracted model -> None or {request, model, real}"""
    ob = ob or observe(case)
    if "read_error" in ob or not in_model(case):
        return None
    q = request_of(case, ob)
    a = vlib.model_ask("Geom", [q])[0]
    e = real_answer(ob)
    return None if a == e else {"request": q, "model": a, "real": e}


def full_check(case):
    """oracle, then correspondence, on one case -> None or failure dict"""
    ob = observe(case)
    r = judge(case, ob)
    if r is not None:
        return r
    m = corr_mismatch(case, ob)
    if m is not None:
        return {"kind": "correspondence", "detail": m}
    return None


C02_COQ_FILES = ["Gen/Grammar.v", "Model/Wire.v", "Model/Geom.v", "Proofs/GeomProofs.v", "Properties/C02.v"]
GEOM_LHS = ("union", "geometry_expr", "geometry_term", "geometry_factor", "geometry_factory", "padding")
_PROD = re.compile(r'\(\s*\(?"([^"]+)",\s*\[([^\]]*)\]\)')


def _prods(text):
    out = set()
    for m in _PROD.finditer(text):
        if m.group(1) in GEOM_LHS:
            out.add((m.group(1), tuple(re.findall(r'"([^"]*)"', m.group(2)))))
    return out


def grammar_diff():
    """geometry / padding productions of the generated CellParser table vs those the model gives an action to
    (read from the two .v files: this only explains a broken C02_grammar_skeleton, the obligation is Coq's)"""
    with open(os.path.join(vlib.COQ, "Gen", "Grammar.v")) as fh:
        g = fh.read()
    i = g.index("Definition cell_productions")
    g = g[i:g.index("].", i)]
    with open(os.path.join(vlib.COQ, "Model", "Geom.v")) as fh:
        m = fh.read()
    i = m.index("Definition geom_rules")
    j = m.index("Definition padding_prods")
    model = _prods(m[i:m.index("]%string.", i)]) | _prods(m[j:m.index("]%string.", j)])
    src = _prods(g)
    return sorted(src - model), sorted(model - src)


_SAMPLE = {"NUMBER": ["3"], "COMPLEMENT": ["#"], "(": ["("], ")": [")"], ":": [":"], "padding": [" "], "union": [" : "],
           "geometry_factory": ["2", "(1:-2)"], "geometry_factor": ["2", "#(1 2)", "#4"], "geometry_term": ["1 -2", "2"],
           "geometry_expr": ["1:2", "1 -2:3"], "SPACE": [" "]}


def witness_cases(added):
    """cell cards that use a production the model does not know (search stream 3 of DESIGN 4.4)"""
    out = []
    for lhs, rhs in added:
        if lhs == "padding" or any(x not in _SAMPLE for x in rhs):
            continue
        for pick in (0, 1):
            txt = "".join(_SAMPLE[x][min(pick, len(_SAMPLE[x]) - 1)] for x in rhs)
            for frame in ("7 0 4 %s 5", "7 0 4 : %s 5", "7 0 -6 %s : 5", "7 0 (%s) 5"):
                out.append({"stream": "grammar-witness", "base_lines": [frame % txt], "prog": None,
                            "production": [lhs, list(rhs)]})
    return out


def load_json_cases(d):
    out = []
    if os.path.isdir(d):
        for f in sorted(os.listdir(d)):
            if f.endswith(".json"):
                with open(os.path.join(d, f)) as fh:
                    c = json.load(fh)
                out.append((f, c.get("case", c)))
    return out


def replay(ctx, path):
    with open(path) as fh:
        c = json.load(fh)
    c = c.get("case", c)
    ok, _ = vlib.coq_make(["Model/Geom.vo"])
    r = full_check(c) if ok else judge(c, observe(c))
    if r is not None:
        print("REPLAY property=C02 still fails: %s" % r.get("kind"))
        print(f"VIOLATION property=C02 replay={path}")
        return 1
    print("REPLAY property=C02 passes")
    return 0


def run(ctx):
    quick = ctx.tier == "quick"
    sizes = {"scratch": 1500 if quick else 30000, "scratch-setters": 400 if quick else 8000,
             "unedited": 700 if quick else 15000, "edited": 1000 if quick else 25000,
             "edited-setters": 500 if quick else 10000, "glued-setters": 300 if quick else 6000,
             "layout-setters": 500 if quick else 10000, "alias": 300 if quick else 6000,
             "shortcut": 40 if quick else 800, "shortcut-edited": 60 if quick else 1200,
             "deep": 30 if quick else 6000, "history": 800 if quick else 15000, "parsed-history": 800 if quick else 15000}
    if not quick:
        sizes = {k: int(v * 1.5) for k, v in sizes.items()}
    depth_boost = 0 if quick else 2
    # Gen/Grammar.v from the SLY grammars of the tree under test: C02_grammar_skeleton / C02_padding_skeleton and
    # C02_grammar_sound are stated over its cell_productions
    try:
        import translate_grammar
        translate_grammar.regenerate()
    except Exception as e:
        ctx.broken_obligations.append({"obligation": "translate_grammar.regenerate() (Gen/Grammar.v from CellParser)",
                                       "detail": str(e)[-1500:]})
    # the forbidden-token scan of vlib covers every .v file of the shared development, so an unfinished proof of
    # another property (another builder's work in progress) would fail this check; C02's theorems depend on exactly
    # the files below, and Print Assumptions on each theorem remains the audit that no axiom / admit is used
    scan_all = vlib.forbidden_scan
    vlib.forbidden_scan = lambda files=None: scan_all(files or C02_COQ_FILES)
    try:
        proved = ctx.prove()
    finally:
        vlib.forbidden_scan = scan_all
    extra_cases = []
    if not proved:
        try:
            added, removed = grammar_diff()
            if added or removed:
                ctx.broken_obligations.append({"obligation": "C02_grammar_skeleton / C02_padding_skeleton: CellParser's geometry "
                                               "productions differ from the productions the model gives an action to",
                                               "detail": {"in_source_not_in_model": added, "in_model_not_in_source": removed}})
                extra_cases = witness_cases(added)
        except Exception as e:
            ctx.broken_obligations.append({"obligation": "grammar_diff", "detail": str(e)[-500:]})
    ok, log = vlib.coq_make(["Model/Geom.vo"])
    if not ok:
        ctx.broken_obligations.append({"obligation": "Model/Geom.vo builds", "detail": log[-800:]})
        return ctx.finish(vlib.KERNEL_TB, [], "model did not build")

    cases = []
    for f, c in load_json_cases(os.path.join(vlib.VERIF, "corpus", "C02")):
        c = dict(c)
        c.setdefault("stream", "corpus")
        c["corpus"] = f
        cases.append(c)
    n_corpus = len(cases)
    cases += extra_cases
    for stream, n in sizes.items():
        for i in range(n):
            cases.append(make_case(random.Random(f"{ctx.seed}:C02:{stream}:{i}"), stream, depth_boost))

    dist = {"streams": {}, "ops": {}, "outcomes": {}, "prog_size": {}, "leaves_written": {},
            "written_with_parens": 0, "base_leaves": {}, "base_with_redundant_parens": 0,
            "base_multiline": 0, "base_with_comment": 0, "base_glued": 0, "read_errors": 0,
            "corpus": n_corpus, "oracle_unreadable_base": 0, "distinct_leaves_compared": {}}

    def bump(d, k):
        d[k] = d.get(k, 0) + 1

    def bucket(n):
        return "1" if n <= 1 else "2-3" if n <= 3 else "4-7" if n <= 7 else "8-15" if n <= 15 else "16+"

    TABLE_STATS.clear()
    reqs, expect, req_cases = [], [], []
    tree_reqs, tree_expect, tree_cases = [], [], []
    parse_reqs, parse_expect = [], []
    n_viol = 0
    for c in cases:
        ob = observe(c)
        stream = c.get("stream", "corpus")
        bump(dist["streams"], stream)
        if "read_error" in ob:
            dist["read_errors"] += 1
            if c.get("corpus"):
                # a corpus case must stay readable
                if ctx.fail({"kind": "read-error", "case": c, "detail": ob["read_error"]}):
                    n_viol += 1
            continue
        if c.get("base_lines") and ob["base_ast"] is None:
            dist["oracle_unreadable_base"] += 1
        if c.get("prog"):
            for k, v in prog_ops(c["prog"]).items():
                dist["ops"][k] = dist["ops"].get(k, 0) + v
            bump(dist["prog_size"], bucket(prog_size(c["prog"])))
        if c.get("base_lines"):
            bl = c["base_lines"]
            if ob["base_ast"] is not None:
                bump(dist["base_leaves"], bucket(n_leaves(ob["base_ast"])))
            dist["base_multiline"] += len(bl) > 1
            dist["base_with_comment"] += any("$" in l or re.match(r"^ {0,4}[cC]( |$)", l) for l in bl)
            dist["base_glued"] += bool(re.search(r"\)\(|\d\(|\)[+-]?\d|[\d)]#", " ".join(bl)))
            dist["base_glued_complement"] = dist.get("base_glued_complement", 0) + bool(re.search(r"[\d)]#", " ".join(bl)))
            dist["base_with_redundant_parens"] += "(p " in (ob["tree"] or "")
        bump(dist["outcomes"], ob.get("outcome", "?"))
        if ob.get("outcome") == "ok":
            bump(dist["leaves_written"], bucket(sum(1 for t in ob["written_tokens"] if t[0] in "LC")))
            dist["written_with_parens"] += "(" in ob["written_tokens"]
            if ob.get("written_ast") is not None:
                bump(dist["distinct_leaves_compared"], bucket(len(ast_leaves(ob["obj"]) | ast_leaves(ob["written_ast"]))))
        nontrivial = (ob.get("outcome") == "ok" and sum(1 for t in ob["written_tokens"] if t[0] in "LC") >= 2)
        ctx.count_case((c.get("base_lines"), c.get("prog")), nontrivial=nontrivial)
        # ---- oracle
        r = judge(c, ob)
        if r is not None:
            small = shrink(c, lambda cc: (check_case(cc) or {}).get("kind") == r["kind"])
            r2 = check_case(small) or r
            if ctx.fail({"kind": r2["kind"], "case": small, "detail": r2}):
                n_viol += 1
                if n_viol >= 3:
                    break
        # ---- correspondence requests
        if in_model(c):
            ctx.cov["programs"] += 1
            reqs.append(request_of(c, ob))
            expect.append(real_answer(ob))
            req_cases.append(c)
            if c.get("base_lines"):
                tree_reqs.append("tree " + (",".join(ob["base_tokens"]) or "-"))
                tree_expect.append(ob["tree"])
                tree_cases.append(c)
                if ob["base_ast"] is not None:
                    parse_reqs.append("parse " + ",".join(ob["base_tokens"]))
                    parse_expect.append(show_ast(ob["base_ast"]))
            if ob.get("outcome") == "ok" and ob.get("written_ast") is not None:
                parse_reqs.append("parse " + ",".join(ob["written_tokens"]))
                parse_expect.append(show_ast(ob["written_ast"]))
        if len(ctx.cov["samples"]) < 6 and stream in ("scratch", "unedited", "edited", "edited-setters") \
                and ob.get("outcome") == "ok" and nontrivial and ctx.rng.random() < 0.05:
            ctx.sample({"stream": stream, "base": c.get("base_lines"), "prog": c.get("prog"),
                        "object": ob.get("obj_dump"), "written": ob.get("written_lines")})

    all_reqs = reqs + tree_reqs + parse_reqs
    all_exp = expect + tree_expect + parse_expect
    all_cases = req_cases + tree_cases + [None] * len(parse_reqs)
    answers = vlib.model_ask("Geom", all_reqs)
    nx, bad = vlib.vm_crosscheck("Geom", all_reqs, answers, sample=60 if quick else 300, seed=ctx.seed)
    if bad:
        ctx.broken_obligations.append({"obligation": "extraction cross-check Geom", "detail": bad[:2]})
    mism = {"case": [], "tree": [], "parse": []}
    for q, a, e, c in zip(all_reqs, answers, all_exp, all_cases):
        ctx.cov["disagreements_checked"] += 1
        if a != e:
            kind = q.split(" ", 1)[0]
            if kind == "case":
                # a disagreement that an open finding explains (the defect is below the model's level of
                # abstraction, e.g. the layout of the operator padding) is counted there
                fid = ctx.attribute({"kind": "correspondence", "case": c})
                if fid:
                    ctx.filtered[fid] = ctx.filtered.get(fid, 0) + 1
                    continue
            mism[kind].append({"request": q, "model": a, "real": e, "case": c})
    if mism["case"]:
        first = min(mism["case"], key=lambda m: len(m["request"]))
        small = shrink(first["case"], lambda cc: corr_mismatch(cc) is not None)
        ctx.broken_obligations.append({"obligation": "correspondence Geom.run_case vs HalfSpace operators + "
                                       "Cell.format_for_mcnp_input (written tokens, object dump, str(), syntax nodes)",
                                       "detail": {"n": len(mism["case"]), "first": first, "shrunk": small,
                                                  "shrunk_disagreement": corr_mismatch(small)}})
    if mism["tree"]:
        ctx.broken_obligations.append({"obligation": "correspondence Geom.tparse (actions) vs the GeometryTree built by CellParser",
                                       "detail": {"n": len(mism["tree"]), "first": min(mism["tree"], key=lambda m: len(m["request"]))}})
    if mism["parse"]:
        ctx.broken_obligations.append({"obligation": "Geom.gparse (reference grammar) vs spec.parse_geometry",
                                       "detail": {"n": len(mism["parse"]), "first": min(mism["parse"], key=lambda m: len(m["request"]))}})
    dist["correspondence"] = {"case": len(reqs), "tree": len(tree_reqs), "parse": len(parse_reqs)}
    dist["truth_tables"] = dict(TABLE_STATS, exhaustive_up_to_leaves=EXHAUSTIVE_LEAVES,
                                sampled_assignments=SAMPLED_ASSIGNMENTS)

    # ---- known findings: replay the committed ones
    for fd in ctx.findings:
        if fd.get("status") == "open" and fd.get("replay"):
            try:
                with open(os.path.join(vlib.VERIF, fd["replay"])) as fh:
                    c = json.load(fh)
                fd["_reproduced"] = full_check(c.get("case", c)) is not None
            except Exception:
                fd["_reproduced"] = False

    tb = vlib.KERNEL_TB + [
        "modelled, not verified: montepy/surfaces/half_space.py (parse_input_node, & | ~ &= |=, left/right/operator setters, "
        "_ensure_has_nodes, _child_node, _strip_parentheses, _update_node, __str__), GeometryTree.format, the geometry "
        "productions of CellParser and their actions, Cell._update_values (geometry) as coq/Model/Geom.v at token level "
        "(blanks/comments/line breaks erased; object identity as links; operands used linearly)",
        "harness/translate_grammar.py (Gen/Grammar.v from CellParser._grammar.Productions): C02_grammar_skeleton / "
        "C02_padding_skeleton tie the modelled productions to it; the SLY LALR automaton itself is not modelled: "
        "C02_grammar_sound covers every parse tree, and the tree the real parser builds is compared with the tree of "
        "the modelled actions on every parsed case",
        "spec.py (independent MCNP reader: card splitting, geometry tokens, parse_geometry) is the oracle; its parser is "
        "compared with the Coq reference grammar's executable parser (C02_reference_parser_sound) on every text; "
        "truth tables by props/C02.py truth_equal",
        f"vm_compute cross-check of {nx} requests",
    ]
    assumptions = [
        "C02_write* are statements about Geom.format_hs/ensure_has_nodes; they transfer to MontePy through the per-run "
        "correspondence (written tokens, object dump, str() and syntax-node dump equal on every generated case)",
        "not modelled: shortcuts inside cell geometry (oracle only), the layout of blanks / comments / line breaks inside "
        "the geometry (oracle only), aliasing (one HalfSpace object used in two places and then modified in place; a cell "
        "UnitHalfSpace taken out of its complement with .left), the operator setter to/from COMPLEMENT, '#-n'",
        f"truth tables are exhaustive up to {EXHAUSTIVE_LEAVES} distinct leaves (the generators use at most 14), "
        f"{SAMPLED_ASSIGNMENTS} random assignments above: a search aid, the theorem is the claim",
    ]
    return ctx.finish(tb, assumptions,
                      "cases = operator programs (& | ~ &= |= W, optionally left/right/operator setters) over 9 surfaces and 5 "
                      "cells, from scratch or applied to a parsed cell whose geometry text comes from the expr/term/factor "
                      "grammar with redundant parentheses, implicit intersections, comments and line breaks; distinct = distinct "
                      "(base text, program); non-trivial = written successfully with at least two leaves",
                      extra={"input_distribution": dist})
