"""Shared runner of the tree / round-trip properties C01, C03, C07, C19.

Obligations: coq/Properties/Cxx.v (theorems over Model/Tree.v and Model/Wrap.v).
Correspondence (all four): every object of generated problems, unedited and after API edits, is dumped
(harness/treedump.py) and formatted by the extracted Tree model: model text == real `_tree.format()`
for the first and for a second format; for unedited data/surface inputs also flatten == the text read.
Oracle (per property): harness/rt.py, judged by the independent reader harness/spec.py.
"""
import json
import os
import random
import warnings

import vlib
import rt
import mp
import spec
import edits as ED
import treedump


def tree_requests(pr, edited, version):
    """requests for every object of a problem: trees with the real first and second format, the source text of
    unedited data/surface inputs, and for cells the parts of the parameter loop with the text handed to the wrapper"""
    import montepy
    out = []
    objs = list(pr.cells) + list(pr.surfaces) + list(pr.data_inputs)
    for o in objs:
        try:
            with warnings.catch_warnings():
                warnings.simplefilter("ignore")
                o.validate()
                o._update_values()
                tree = o._tree
                if isinstance(o, montepy.Cell):
                    nodes = [n for k, n in tree.nodes.items() if k != "parameters"]
                else:
                    nodes = [tree]
                for n in nodes:
                    words = treedump.dump(n)
                    real1 = n.format()
                    real2 = n.format()
                    src = None
                    if not edited and not isinstance(o, montepy.Cell) and getattr(o, "_input", None) is not None:
                        src = "\n".join(o._input.input_lines)
                    out.append({"words": words, "real1": real1, "real2": real2, "src": src,
                                "what": type(o).__name__})
                if isinstance(o, montepy.Cell):
                    req, real = treedump.cell_request(o, version)
                    if real is not None:
                        out.append({"cell": req, "real1": real, "what": "Cell parameter loop"})
        except Exception as e:
            continue
    return out


def imp_scenario(rng):
    """a cell whose IMP entries share trees, and a sequence of importance edits: the model's request and the
    trees of the real Importance object afterwards, both as 'n,p=1;e=2'"""
    import montepy
    parts = rng.sample(["n", "p", "e", "h"], rng.randint(1, 4))
    groups = []
    rest = list(parts)
    while rest:
        k = rng.randint(1, len(rest))
        groups.append((rest[:k], rng.choice([0, 1, 2, 0.5, 4])))
        rest = rest[k:]
    ops = [(rng.choice(parts), rng.choice([0, 1, 2, 0.5, 8, 3])) for _ in range(rng.randint(1, 6))]
    text = "t\n1 0 -1 " + " ".join("imp:%s=%g" % (",".join(g), v) for g, v in groups) + "\n\n1 so 1\n\nmode " + \
           " ".join(parts) + "\n\n"
    pr = mp.read_problem(text)
    cell = pr.cells[1]
    pmap = {p.value.lower(): p for p in montepy.particle.Particle}
    warnings.simplefilter("ignore")
    for p, v in ops:
        cell.importance[pmap[p]] = float(v)
    seen = []
    out = []
    for part, tree in cell.importance._particle_importances.items():
        if any(tree is t for t in seen):
            continue
        seen.append(tree)
        names = [x.value.lower() for x in tree["classifier"].particles._particles_sorted]
        out.append(",".join(names) + "=%g" % tree["data"][0].value)
    req = "imp " + ";".join("%s=%g" % (",".join(g), v) for g, v in groups) + " " + " ".join("%s=%g" % o for o in ops)
    written = " ".join(l for l in cell.format_for_mcnp_input((6, 2, 0)))
    return req, ";".join(out), written


def corr_tree(ctx, cases_progs, dist):
    """runs the tree correspondence; appends broken obligations"""
    reqs = []
    expect = []
    meta = []
    lossless = {"checked": 0, "flatten_equals_input": 0}
    for case, prog in cases_progs:
        try:
            pr = mp.read_problem(case["text"], version=rt.VERS[case["width"]])
            if prog:
                with warnings.catch_warnings():
                    warnings.simplefilter("ignore")
                    ED.apply_program(pr, prog)
        except Exception:
            continue
        for r in tree_requests(pr, bool(prog), rt.VERS[case["width"]]):
            if "cell" in r:
                reqs.append(r["cell"])
                expect.append(treedump.hx(r["real1"]) if r["real1"] else "")
                meta.append((r["what"], "text handed to the wrapper"))
                dist["cell_loops"] = dist.get("cell_loops", 0) + 1
                continue
            w = " ".join(r["words"])
            reqs.append("fmt " + w)
            expect.append(treedump.hx(r["real1"]) if r["real1"] else "")
            meta.append((r["what"], "first format"))
            reqs.append("fmt2 " + w)
            expect.append(treedump.hx(r["real2"]) if r["real2"] else "")
            meta.append((r["what"], "second format"))
            for k, v in treedump.stats(r["words"]).items():
                dist["nodes"][k] = dist["nodes"].get(k, 0) + v
            dist["edited_leaves"] += sum(1 for x in r["words"] if len(x) > 1 and x[0] == "E"
                                         and all(c in "0123456789abcdef" for c in x[1:]))
            if r["src"] is not None:
                lossless["checked"] += 1
                reqs.append("flat " + w)
                expect.append(None)
                meta.append((r["what"], r["src"]))
    # importance sharing (Importance.__setitem__ / _unshare_tree) against the model's imp_set
    n_imp = 40 if ctx.tier == "quick" else 600
    for i in range(n_imp):
        rng = random.Random(f"{ctx.seed}:imp:{i}")
        try:
            req, real, written = imp_scenario(rng)
        except Exception as e:
            ctx.broken_obligations.append({"obligation": "importance scenario runs on the real code", "detail": repr(e)[:300]})
            break
        reqs.append(req)
        expect.append(real)
        meta.append(("Importance", written))
        dist["imp_scenarios"] = dist.get("imp_scenarios", 0) + 1
    answers = vlib.model_ask("Tree", reqs)
    bad = []
    for q, a, e, m in zip(reqs, answers, expect, meta):
        ctx.cov["programs"] += 1
        ctx.cov["disagreements_checked"] += 1
        if e is None:
            # hypothesis Lossless of the theorems, per input: flatten (dump of the parsed tree) == text read.
            # parse_input() moves the trailing 'c' comment lines of an input to the start of the next one, so
            # the comparison is exact (flatten_equals_input) or exact up to whole comment lines (modulo_comment_lines)
            txt = bytes.fromhex(a).decode("latin-1") if a and all(c in "0123456789abcdef" for c in a) else a
            # (case-insensitively, like every comparison of the property: a ParticleNode re-spells ':N,e' as ':N,E')
            if txt.rstrip().upper() == m[1].rstrip().upper():
                lossless["flatten_equals_input"] += 1
                lossless["modulo_comment_lines"] = lossless.get("modulo_comment_lines", 0) + 1
            elif _no_c_lines(txt) == _no_c_lines(m[1]):
                lossless["modulo_comment_lines"] = lossless.get("modulo_comment_lines", 0) + 1
            else:
                lossless.setdefault("not_lossless", []).append({"read": m[1][:300], "flatten": txt[:300]})
            continue
        a2 = "" if a == "" else a
        e2 = "" if e == "-" else e
        if a2 != e2:
            bad.append({"request": q[:2000], "model": a[:400], "real": e[:400], "what": m})
    nx, xbad = vlib.vm_crosscheck("Tree", [q for q in reqs if len(q) < 6000], [a for q, a in zip(reqs, answers) if len(q) < 6000],
                                  sample=40 if ctx.tier == "quick" else 200, seed=ctx.seed)
    if xbad:
        ctx.broken_obligations.append({"obligation": "extraction cross-check Tree", "detail": xbad[:2]})
    if lossless.get("not_lossless"):
        ctx.broken_obligations.append({"obligation": "hypothesis as_parsed/Lossless: flatten(parsed tree) == text read "
                                                     "(up to whole comment lines)",
                                       "detail": {"n": len(lossless["not_lossless"]), "first": lossless["not_lossless"][0]}})
        lossless["not_lossless"] = len(lossless["not_lossless"])
    if bad:
        ctx.broken_obligations.append({"obligation": "correspondence Tree.v (format, cell parameter loop, importance trees) "
                                                     "vs the real code", "detail": {"n": len(bad), "first": bad[0]}})
    dist["lossless"] = lossless
    dist["tree_requests"] = len(reqs)
    dist["vm_crosschecked"] = nx
    return bad


def _no_c_lines(text):
    return [l.rstrip().upper() for l in text.split("\n") if l.strip() and not spec.is_comment_line(l)]


def load_corpus(prop):
    d = os.path.join(vlib.VERIF, "corpus", prop)
    out = []
    if os.path.isdir(d):
        for f in sorted(os.listdir(d)):
            if f.endswith(".json"):
                with open(os.path.join(d, f)) as fh:
                    c = json.load(fh)
                out.append(c)
    return out


# share of cases rendered with the "wild" layout closure (tabs, several blanks, '&' continuations, mixed case,
# CRLF, '=' styles, narrow lines) and probability of each decoration of rt.decorate, per property
WILD = {"C01": 0.4, "C03": 0.2, "C07": 0.2, "C19": 0.3}
DECOR = {"C01": 0.25, "C03": 0.1, "C07": 0.1, "C19": 0.2}


# edit kinds that only one property draws: appending a data input changes the number of cards (C03's and C07's
# oracles align cards one to one), for C19 it is an edit like any other
EXTRA_KINDS = {"C19": ["data_append", "data_append", "tr_main_to_aux", "tr_main_to_aux", "tr_main_to_aux", "geometry_operator"],
               "C03": ["tr_main_to_aux", "tr_main_to_aux"], "C07": ["tr_main_to_aux", "tr_main_to_aux"]}


def make_case(prop, rng, gen_opts=None):
    # xM shortcuts in surface cards only for the unedited round trip: an edited product is written with a real
    # multiplier ('3.1 20.6451613m'), which the parser rejects (C08/C12's subject)
    # volumes of exactly zero, microscopic volumes next to repeat shortcuts and the 6.123e-17 of a 90 degree rotation
    # next to '0 2r' only for the unedited round trip: an EDIT inside such lists runs into the re-compressor (C08)
    opts = dict(lattice_arrays=True, multiply_surfaces=(prop == "C01"), joint_imp_cards=True,
                edge_volumes=(prop == "C01"), tr_tiny=(prop == "C01"), tr_forms=True,
                tr_flag=True, mass_fraction_materials=True,
                vol_interpolate=(prop in ("C03", "C07")))
    opts.update(gen_opts or {})
    wild = rng.random() < WILD[prop]
    return rt.gen_case(rng, wild=wild, opts=opts, decorate_p=DECOR[prop])


def check_one(prop, case, prog):
    if prop == "C01":
        return rt.c01_check(case)
    if prop == "C03":
        return rt.c03_check(case, prog)
    if prop == "C07":
        return rt.c07_check(case, prog)
    if prop == "C19":
        return rt.c19_check(case, prog)
    raise ValueError(prop)


KIND_FILTER = {}


def run_rt(ctx, prop, n_quick, n_thorough, gen_opts=None, with_edits=True):
    n = n_quick if ctx.tier == "quick" else n_thorough
    ctx.prove()
    ok, log = vlib.coq_make(["Model/Tree.vo"])
    if not ok:
        ctx.broken_obligations.append({"obligation": "Model/Tree.vo builds", "detail": log[-800:]})
        return ctx.finish(vlib.KERNEL_TB, [], "model did not build")
    dist = {"nodes": {}, "edited_leaves": 0, "widths": {"80": 0, "128": 0}, "edit_kinds": {}, "cards": 0,
            "oracle_outcomes": {}}
    cases = []
    for c in load_corpus(prop):
        cc = c.get("case", c)
        cases.append((cc, [dict(e) for e in c.get("prog", cc.get("prog", []))], True))
    n_corpus = len(cases)
    dist["layouts"] = {}
    dist["features"] = {}
    for i in range(n):
        rng = random.Random(f"{ctx.seed}:{prop}:{i}")
        case = make_case(prop, rng, gen_opts)
        prog = ED.gen_program(rng, rt.meta_int_keys(case["meta"]), kinds=ED.KINDS + EXTRA_KINDS.get(prop, [])) \
            if with_edits else []
        cases.append((case, prog, False))
        lay = case.get("layout", {})
        key = "%s/%s%s" % (lay.get("seps"), lay.get("breaks"), "/tabs" if lay.get("tabs") else "")
        dist["layouts"][key] = dist["layouts"].get(key, 0) + 1
        for f in case.get("features", []) + (["lattice-fill-array"] if case["meta"].get("fill_arrays") else []):
            dist["features"][f] = dist["features"].get(f, 0) + 1
    # ---- correspondence of the tree layer on a share of the cases
    share = cases[: n_corpus + min(max(10, n // 4), 150 if ctx.tier == "quick" else 600)]
    corr = [(c, p) for c, p, _ in share]
    if prop == "C19":
        # hypothesis Lossless_on P g1 of C19_generation_fixed_point: the files MontePy WROTE (edited problems)
        # go through the same flatten == text-read comparison as the generated inputs
        dist["written_files_reparsed"] = 0
        for c, p, _ in share[: max(10, len(share) // 2)]:
            try:
                pr = mp.read_problem(c["text"], version=rt.VERS[c["width"]])
                with warnings.catch_warnings():
                    warnings.simplefilter("ignore")
                    ED.apply_program(pr, p)
                g1 = mp.write_problem(pr, "corr_g1.i", rt.VERS[c["width"]])
                corr.append(({"text": g1, "width": c["width"], "meta": {}}, []))
                dist["written_files_reparsed"] += 1
            except Exception:
                pass
    corr_tree(ctx, corr, dist)
    # ---- oracle
    for idx, (case, prog, from_corpus) in enumerate(cases):
        dist["widths"][str(case["width"])] += 1
        for e in prog:
            dist["edit_kinds"][e["kind"]] = dist["edit_kinds"].get(e["kind"], 0) + 1
        dist["cards"] += case["text"].count("\n")
        ctx.count_case((case["text"], json.dumps(prog, sort_keys=True)), nontrivial=True)
        try:
            r = check_one(prop, case, prog)
        except Exception as e:
            r = {"kind": "oracle-crashed", "error": repr(e)[:300]}
        if r is not None and prop in KIND_FILTER and r["kind"] not in KIND_FILTER[prop]:
            r = None
        k = "ok" if r is None else r["kind"]
        dist["oracle_outcomes"][k] = dist["oracle_outcomes"].get(k, 0) + 1
        if idx in (n_corpus, n_corpus + 1):
            ctx.sample({"text": case["text"][:700], "width": case["width"], "edits": prog, "outcome": k})
        if r is not None and ctx.attribute({"kind": r["kind"], "case": case, "prog": prog, "detail": r}):
            # belongs to an open known finding as it stands: counted, not shrunk (shrinking is for new failures)
            ctx.fail({"kind": r["kind"], "case": case, "prog": prog, "detail": r})
            continue
        if r is not None:
            if os.environ.get("RT_DEBUG_DIR"):      # debugging aid: the failing case before shrinking
                with open(os.path.join(os.environ["RT_DEBUG_DIR"], "%s-orig-%d.json" % (prop, idx)), "w") as fh:
                    json.dump({"property": prop, "kind": r["kind"], "case": case, "prog": prog, "detail": r}, fh)

            def sig(x):
                d = x.get("diffs") or [[""]]
                if "error" in x:
                    # exceptions: class and the message without file names and line numbers
                    import re as _re
                    msg = [l for l in str(x.get("msg", "")).split("\n") if l.strip() and "mpverif_" not in l and "|" not in l]
                    return (x["kind"], x["error"], _re.sub(r"\d+", "N", " ".join(msg))[:80])
                return (x["kind"], str(d[0][0]), str(d[0][1]) if len(d[0]) > 1 else "")

            def failing(cc, want=sig(r)):
                import spec as _s
                b = _s.split_file(cc["text"], cc["width"])["blocks"]
                if len(b) < 3 or not b[0] or not b[1]:
                    return False
                rr = check_one(prop, cc, prog)
                return rr is not None and sig(rr) == want and len(rr.get("diffs") or []) <= len(r.get("diffs") or [1])
            small = case
            try:
                small = rt.shrink_text(case, failing)
                small = rt.shrink_lines(small, failing, max_rounds=2)
            except Exception:
                pass
            # shrink the program
            sprog = list(prog)
            for j in range(len(sprog) - 1, -1, -1):
                cand = sprog[:j] + sprog[j + 1:]
                try:
                    rr = check_one(prop, small, cand)
                    if rr is not None and rr["kind"] == r["kind"]:
                        sprog = cand
                except Exception:
                    pass
            rr = check_one(prop, small, sprog) or r
            ctx.fail({"kind": rr["kind"], "case": small, "prog": sprog, "detail": rr})
            if len([v for v in ctx.violations if not v[1]]) >= 3:
                break
    # ---- committed findings still reproduce?
    for fd in ctx.findings:
        if fd.get("status") == "open" and fd.get("replay"):
            try:
                with open(os.path.join(vlib.VERIF, fd["replay"])) as fh:
                    c = json.load(fh)
                rr = check_one(prop, c["case"], c.get("prog", []))
                fd["_reproduced"] = rr is not None
            except Exception:
                fd["_reproduced"] = False
    tb = vlib.KERNEL_TB + [
        "modelled, not verified (coq/Model/Tree.v): ValueNode.format (short circuit; field width, separating blank and rest "
        "of padding of a changed value; value_length fixed at the first changed format), the value setter's padding rule, "
        "PaddingNode/CommentNode/ClassifierNode/ParametersNode/GeometryTree/IsotopesNode concatenation, SyntaxNode None-skip, "
        "ListNode padding repair and blank after a shortcut, ParticleNode order normalisation, Cell.format_for_mcnp_input's "
        "parameter loop (cleanup_last_line, dangling '&'), Importance.__setitem__/_unshare_tree, write_to_file's block layout; "
        "inputs of the model: the spelling of a new number (C05), ShortcutNode texts (C08); NOT modelled: the LALR parsers and "
        "object constructors (hypotheses as_parsed / Lossless_on, validated per input), update_with_new_values, line wrapping (C10)",
        "oracle: harness/spec.py, an independent reader of the MCNP input format, and the reference model of the edits "
        "harness/rt.py Ref (search support: they decide the property on the real code, the theorems are about the model)",
    ]
    return ctx, tb, dist


def replay_rt(ctx, prop, path):
    with open(path) as fh:
        c = json.load(fh)
    case = c.get("case", c)
    prog = c.get("prog", [])
    r = check_one(prop, case, prog)
    if r is not None and prop in KIND_FILTER and r["kind"] not in KIND_FILTER[prop]:
        r = None
    if r is not None:
        print(f"REPLAY property={prop} still fails: {json.dumps(r)[:600]}")
        print(f"VIOLATION property={prop} replay={path}")
        return 1
    print(f"REPLAY property={prop} passes")
    return 0
