"""C13 — bad input fails in a controlled way: a deliberate error, never a leak or hang.

Obligations: coq/Properties/C13.v over coq/Model/Exn.v (exception routing of MCNP_Object.__init__,
parse_input, __update_internal_pointers, Cells.update_pointers, check mode) instantiated on
coq/Gen/Errors.v, which harness/translate_errors.py regenerates from the source on every run.

Correspondence (injection): for every routing site of Gen/Errors.v the anchor call of the real code is
monkeypatched to raise each exception class of the generated hierarchy; the observed outcome of
read_input / parse_input(check_input=True) (exception class / warning / return) is compared with the
model's `route`.

Search / oracle: well-formed generated files (harness/gen.py) + exactly one corruption (DESIGN.md §5.5),
read in a pool of worker subprocesses with a per-case alarm; the oracle is the property text:
 * read_input raises a documented error type, or a ValueError/TypeError raised by a `raise` statement of
   MontePy itself, or a FileNotFoundError, with a non-empty message; or
 * it returns a problem whose summary equals what the independent reader (harness/spec.py) reads from the
   corrupted file, and the file is not definitely malformed (object number not a positive integer,
   dangling reference, duplicate number);
 * it does so within the alarm;
 * parse_input(check_input=True) / `python -m montepy -c` return with warnings whenever read_input raised
   a controlled error.

Run as a script (`python C13.py --worker`) this file is the worker process.
"""
import ast
import json
import os
import random
import re
import select
import signal
import subprocess
import sys
import time
import traceback
import warnings

HERE = os.path.dirname(os.path.abspath(__file__))
HARNESS = os.path.dirname(HERE)
if HARNESS not in sys.path:
    sys.path.insert(0, HARNESS)

ALARM_S = 10

DOCUMENTED = ("MalformedInputError", "NumberConflictError", "UnsupportedFeature", "UnknownElement")
EXPLICIT = ("ValueError", "TypeError")


# =========================================================================================== worker
class _Alarm(BaseException):
    pass


def _on_alarm(signum, frame):
    raise _Alarm()


_RAISE_LINES = {}


def _raise_lines(filename):
    """line numbers of a source file that are inside a `raise` statement"""
    if filename not in _RAISE_LINES:
        s = set()
        try:
            with open(filename) as fh:
                tree = ast.parse(fh.read())
            for n in ast.walk(tree):
                if isinstance(n, ast.Raise):
                    s.update(range(n.lineno, (n.end_lineno or n.lineno) + 1))
        except Exception:
            pass
        _RAISE_LINES[filename] = s
    return _RAISE_LINES[filename]


def describe_exception(e):
    """class, ancestry, message and whether the innermost frame is a `raise` statement of MontePy"""
    import montepy
    root = os.path.dirname(os.path.abspath(montepy.__file__))
    tb = e.__traceback__
    last = None
    while tb is not None:
        last = tb
        tb = tb.tb_next
    where = ""
    deliberate = False
    func = ""
    if last is not None:
        fn = os.path.abspath(last.tb_frame.f_code.co_filename)
        ln = last.tb_lineno
        func = last.tb_frame.f_code.co_name
        inside = fn.startswith(root + os.sep)
        where = (os.path.relpath(fn, os.path.dirname(root)) if inside else fn) + ":" + str(ln)
        deliberate = inside and ln in _raise_lines(fn)
    try:
        msg = str(e)
    except Exception as e2:      # pragma: no cover
        msg = ""
    stack = []
    tb = e.__traceback__
    while tb is not None:
        fn2 = os.path.abspath(tb.tb_frame.f_code.co_filename)
        if fn2.startswith(root + os.sep):
            stack.append(tb.tb_frame.f_code.co_name)
        tb = tb.tb_next
    return {
        "stack": stack[-12:],
        "out": "raise", "cls": type(e).__name__, "module": type(e).__module__,
        "mro": [c.__name__ for c in type(e).__mro__], "msg": msg[:400], "msg_empty": not msg.strip(),
        "deliberate": deliberate, "where": where, "func": func,
    }


def _geom(hs):
    from montepy.surfaces.half_space import UnitHalfSpace
    from montepy.geometry_operators import Operator
    if hs is None:
        return None
    if isinstance(hs, UnitHalfSpace):
        d = hs.divider
        n = d if isinstance(d, int) else d.number
        if hs.is_cell:
            # a complement leaf: the enclosing node carries the '#'
            return ["cellref", n]
        return ["leaf", 1 if hs.side else -1, n]
    op = hs.operator
    if op == Operator.COMPLEMENT:
        inner = _geom(hs.left)
        if inner and inner[0] == "cellref":
            return ["cell", inner[1]]
        return ["not", inner]
    if op == Operator._SHIFT:
        return _geom(hs.left)
    a = _geom(hs.left)
    b = _geom(hs.right)
    return ["and" if op == Operator.INTERSECTION else "or", a, b]


def _num(x):
    """a number as an exact string (no float compared as float)"""
    if x is None:
        return None
    if isinstance(x, bool):
        return str(x)
    if isinstance(x, int):
        return str(x)
    if isinstance(x, float):
        return x.hex()
    return str(x)


def summarize(pr):
    """the facts of a problem the oracle compares with the independent reading of the file"""
    out = {"title": pr.title.title if pr.title is not None else None,
           "message": list(pr.message.lines) if pr.message is not None else None}
    cells = []
    for c in pr.cells:
        d = {"number": c.number, "old_number": c.old_number}
        try:
            d["material"] = c.material.number if c.material is not None else 0
        except Exception as e:
            d["material"] = "error:" + type(e).__name__
        d["old_mat"] = c.old_mat_number
        try:
            dens = c._density_node.value
            d["density"] = _num(dens)
            d["atom_dens"] = getattr(c, "_is_atom_dens", None)
        except Exception as e:
            d["density"] = "error:" + type(e).__name__
        try:
            d["geom"] = _geom(c.geometry)
        except Exception as e:
            d["geom"] = "error:" + type(e).__name__
        try:
            d["universe"] = c.universe.number if c.universe is not None else None
        except Exception as e:
            d["universe"] = "error:" + type(e).__name__
        try:
            f = c.fill
            d["fill"] = f.universe.number if f is not None and f.universe is not None else None
        except Exception as e:
            d["fill"] = "error:" + type(e).__name__
        try:
            f = c.fill
            us = getattr(f, "universes", None) if f is not None else None
            if us is not None:
                d["fill_matrix"] = [(u.number if u is not None else None) for u in us.flatten()]
        except Exception as e:
            d["fill_matrix"] = "error:" + type(e).__name__
        try:
            d["volume"] = _num(c.volume) if c.volume_is_set else None
        except Exception as e:
            d["volume"] = "error:" + type(e).__name__
        try:
            imp = {}
            for p in pr.mode.particles:
                imp[p.value.lower()] = _num(getattr(c.importance, p.name.lower()))
            d["imp"] = imp
        except Exception as e:
            d["imp"] = "error:" + type(e).__name__
        cells.append(d)
    out["cells"] = cells
    surfs = []
    for s in pr.surfaces:
        d = {"number": s.number}
        try:
            st = s.surface_type
            d["type"] = st.value if hasattr(st, "value") else str(st)
            d["constants"] = [_num(x) for x in s.surface_constants]
            d["reflecting"] = bool(s.is_reflecting)
            d["white"] = bool(s.is_white_boundary)
            d["transform"] = s.transform.number if s.transform is not None else None
            d["periodic"] = s.periodic_surface.number if s.periodic_surface is not None else None
        except Exception as e:
            d["error"] = type(e).__name__
        surfs.append(d)
    out["surfaces"] = surfs
    data = []
    for di in pr.data_inputs:
        try:
            data.append(str(di.classifier.format() if hasattr(di, "classifier") else type(di).__name__).strip().lower())
        except Exception as e:
            data.append("error:" + type(e).__name__)
    out["data"] = data
    try:
        out["mode"] = sorted(p.value.lower() for p in pr.mode.particles)
    except Exception as e:
        out["mode"] = "error:" + type(e).__name__
    out["materials"] = [m.number for m in pr.materials]
    out["transforms"] = [t.number for t in pr.transforms]
    return out


def _guarded(fn):
    """run fn() under the alarm; -> result dict"""
    old = signal.signal(signal.SIGALRM, _on_alarm)
    signal.setitimer(signal.ITIMER_REAL, ALARM_S)
    t0 = time.time()
    try:
        with warnings.catch_warnings(record=True) as w:
            warnings.simplefilter("always")
            r = fn()
        signal.setitimer(signal.ITIMER_REAL, 0)
        r = dict(r or {})
        r.setdefault("out", "ok")
        r["warnings"] = [str(x.message)[:160] for x in w[:40]]
        r["nwarn"] = len(w)
    except _Alarm:
        r = {"out": "hang"}
    except BaseException as e:
        signal.setitimer(signal.ITIMER_REAL, 0)
        try:
            r = describe_exception(e)
        except _Alarm:
            r = {"out": "hang"}
    finally:
        signal.setitimer(signal.ITIMER_REAL, 0)
        signal.signal(signal.SIGALRM, old)
    r["t"] = round(time.time() - t0, 3)
    return r


def do_read(path, want_summary=True):
    import montepy

    def f():
        pr = montepy.read_input(path)
        if not want_summary:
            return {}
        try:
            return {"summary": summarize(pr)}
        except _Alarm:
            raise
        except Exception as e:
            return {"summary": None, "summary_error": type(e).__name__ + ": " + str(e)[:200]}
    return _guarded(f)


def do_check(path):
    import montepy

    def f():
        pr = montepy.MCNP_Problem(path)
        pr.parse_input(check_input=True)
        return {}
    return _guarded(f)


def do_cli(path):
    """the code path of `python -m montepy -c <path>` inside this process"""
    import io
    import contextlib
    import montepy.__main__ as M

    def f():
        old = sys.argv
        sys.argv = ["montepy", "-c", path]
        try:
            with contextlib.redirect_stdout(io.StringIO()):
                M.main()
        finally:
            sys.argv = old
        return {}
    return _guarded(f)


# ------------------------------------------------------------------------------------------- injection
INJECT_FILE = """injection base problem
1 0 -1 2 imp:n=1 imp:p=1
2 0 1 -2 3 imp:n=1 imp:p=1
3 0 -3 imp:n=1 imp:p=0

1 px 0
2 px 1
3 so 5

mode n p
m1 1001.80c 1.5
tr5 1 2 3
"""
# two IMP cards in the data block (merge site), two VOL cards (the `only allowed once` raise)
INJECT_FILE_MERGE = """injection base problem with data-block importances
1 0 -1 2
2 0 1 -2 3
3 0 -3

1 px 0
2 px 1
3 so 5

mode n p
imp:n 1 1 1
imp:p 1 1 0
"""
INJECT_FILE_TWICE = """injection base problem with two volume cards
1 0 -1 2 imp:n=1
2 0 1 -2 3 imp:n=1
3 0 -3 imp:n=0

1 px 0
2 px 1
3 so 5

mode n
vol 1 1 1
vol 2 2 2
"""


def make_exception(name):
    """an instance of the named class (montepy.errors, sly, builtins)"""
    import builtins as B
    import montepy.errors as E
    import sly.lex
    if name == "LexError":
        return sly.lex.LexError("injected", "text", 0)
    c = getattr(E, name, None)
    if c is None or not (isinstance(c, type) and issubclass(c, BaseException)):
        c = getattr(B, name)
    if name in ("MalformedInputError",):
        return c(None, "injected")
    if name == "ParsingError":
        return c(None, "injected", [])
    if name == "BrokenObjectLinkError":
        return c("Cell", 1, "Surface", 2)
    if name == "RedundantParameterSpecification":
        return c("key", "value")
    if name == "UnicodeDecodeError":
        return c("ascii", b"x", 0, 1, "injected")
    return c("injected")


def _patch_targets(site):
    """-> list of (owner object, attribute name, kind) to replace for a site; kind 'raise' replaces the callable by one
    that raises at its first call, 'none' by one returning None, 'gen' by a generator function raising at first next"""
    import montepy
    import montepy.cells
    import montepy.input_parser.input_syntax_reader as ISR
    from montepy.input_parser.parser_base import MCNP_Parser
    from montepy.mcnp_problem import MCNP_Problem
    from montepy.numbered_object_collection import NumberedObjectCollection
    from montepy.data_inputs.data_input import DataInputAbstract
    from montepy.data_inputs import importance, universe_input, material, thermal_scattering
    from montepy.surfaces.surface import Surface
    T = {
        "parse": [(MCNP_Parser, "parse", "raise", None)],
        "restart": [(MCNP_Parser, "restart", "raise", None)],
        "tree_none": [(MCNP_Parser, "parse", "none", None)],
        "construct": [(montepy.Cell, "_parse_keyword_modifiers", "raise", None)],
        "link": [(montepy.Cell, "link_to_problem", "raise", None)],
        "append": [(NumberedObjectCollection, "append", "raise", "Cells")],
        "append_material": [(NumberedObjectCollection, "append", "raise", "Materials")],
        "append_transform": [(NumberedObjectCollection, "append", "raise", "Transforms")],
        "read_card": [(ISR, "ReadInput", "raise", None)],
        "syntax": [(ISR, "read_data", "gen", None)],
        "load_data": [(MCNP_Problem, "_MCNP_Problem__load_data_inputs_to_object", "raise", None)],
        "cells_merge": [(importance.Importance, "merge", "raise", None)],
        "cell_pointers": [(montepy.Cell, "update_pointers", "raise", None)],
        "cells_modifiers": [(universe_input.UniverseInput, "push_to_cells", "raise", None)],
        "surface_pointers": [(Surface, "update_pointers", "raise", None)],
        "data_pointers": [(DataInputAbstract, "update_pointers", "raise", None),
                          (material.Material, "update_pointers", "raise", None),
                          (thermal_scattering.ThermalScatteringLaw, "update_pointers", "raise", None)],
    }
    return T[site]


def do_inject(req):
    """raise the named class at the anchor of a routing site of the real code, once; observe read / check mode"""
    import montepy
    site = req["site"]
    name = req["cls"]
    check = req["check"]
    path = req["path"]
    fired = [0]
    saved = []

    def raiser(orig, only):
        def f(*a, **k):
            if only is not None and (not a or type(a[0]).__name__ != only):
                return orig(*a, **k)
            if fired[0] == 0:
                fired[0] = 1
                raise make_exception(name)
            return orig(*a, **k)
        return f

    def noner(orig):
        def f(self, *a, **k):
            if fired[0] == 0:
                fired[0] = 1
                # what MCNP_Parser.parse does after a syntax error: an entry in the log and None
                self.log.parse_error("injected syntax error")
                for _ in a[0]:
                    pass
                return None
            return orig(self, *a, **k)
        return f

    def genner(orig):
        def g(*a, **k):
            if fired[0] == 0:
                fired[0] = 1
                raise make_exception(name)
            yield from orig(*a, **k)
        return g

    def f():
        if check:
            pr = montepy.MCNP_Problem(path)
            pr.parse_input(check_input=True)
        else:
            montepy.read_input(path)
        return {}

    try:
        if site != "cells_once":
            for owner, attr, kind, only in _patch_targets(site):
                orig = owner.__dict__[attr] if isinstance(owner, type) else getattr(owner, attr)
                saved.append((owner, attr, orig))
                call = orig.__func__ if isinstance(orig, (staticmethod, classmethod)) else orig
                new = raiser(call, only) if kind == "raise" else noner(call) if kind == "none" else genner(call)
                setattr(owner, attr, new)
        r = _guarded(f)
    finally:
        for owner, attr, orig in reversed(saved):
            setattr(owner, attr, orig)
    r["fired"] = fired[0]
    return r


# ------------------------------------------------------------------------------------------- isolation
def do_isolate(path):
    """Construct the object of every input of the file on its own (Cell / surface_builder / parse_data, no problem, no
    links): which cards fail by themselves, and how.  Then read the file without the first such card (rule (iii) of the
    known-findings attribution).  Files with read cards are not isolated (the queue may not terminate)."""
    import montepy
    from montepy.input_parser import input_syntax_reader, block_type, mcnp_input
    from montepy.input_parser.input_file import MCNP_InputFile
    from montepy.surfaces import surface_builder
    from montepy.data_inputs.data_parser import parse_data
    with open(path, newline="", encoding="utf-8", errors="surrogateescape") as fh:
        text = fh.read()
    if re.search(r"(?im)^\s{0,4}read\s", text):
        return {"out": "skipped", "why": "read card"}
    builders = {block_type.BlockType.CELL: montepy.Cell, block_type.BlockType.SURFACE: surface_builder.surface_builder,
                block_type.BlockType.DATA: parse_data}

    def clean(l):
        b = l.encode("utf-8", errors="surrogateescape")
        return bytes(c if c < 128 else 32 for c in b).decode("ascii")

    norm = [clean(l.rstrip("\r")).expandtabs(8)[:128].rstrip() for l in text.split("\n")]
    cursor = [0]

    def locate(inp):
        """1-based number of the first line of the input in the file (MontePy's own line_number is off after a
        message block): the next place where the input's lines stand"""
        want = [l.rstrip() for l in inp.input_lines]
        for a in range(cursor[0], len(norm) - len(want) + 1):
            if norm[a:a + len(want)] == want:
                cursor[0] = a + len(want)
                return a + 1
        return inp.line_number

    def f():
        cards = []
        first = None
        for inp in input_syntax_reader.read_input_syntax(MCNP_InputFile(path), (6, 2, 0)):
            if not isinstance(inp, mcnp_input.Input) or not inp.input_lines:
                continue
            d = {"block": inp.block_type.value, "line": locate(inp), "n": len(inp.input_lines), "exc": None}
            try:
                builders[inp.block_type](inp)
            except _Alarm:
                raise
            except BaseException as e:
                x = describe_exception(e)
                d["exc"] = {k: x[k] for k in ("cls", "mro", "func", "where", "deliberate", "stack")}
                if first is None:
                    first = len(cards)
            cards.append(d)
        return {"cards": cards, "first": first}

    r = _guarded(f)
    if r.get("out") == "ok" and r.get("first") is not None:
        lines = text.split("\n")
        done = 0
        seen = set()
        for c in r["cards"]:
            if not c["exc"] or done >= 3:
                continue
            key = (c["exc"]["cls"], c["exc"]["func"])
            if key in seen:
                continue
            seen.add(key)
            done += 1
            # line_number is 1-based; the file without this card's lines (rule (iii) of the attribution)
            new = lines[:c["line"] - 1] + lines[c["line"] - 1 + c["n"]:]
            p2 = path + ".without"
            with open(p2, "w", newline="", encoding="utf-8", errors="surrogateescape") as fh:
                fh.write("\n".join(new))
            w = do_read(p2, want_summary=False)
            wc = do_check(p2)
            c["without"] = {k: w.get(k) for k in ("out", "cls", "func")}
            c["without_check"] = {k: wc.get(k) for k in ("out", "cls", "func")}
    return r


def worker_main():
    # all scratch output stays quiet; one JSON answer per JSON request line
    sys.stdout.reconfigure(line_buffering=True)
    import montepy  # noqa: F401  (import once)
    out = sys.stdout
    for line in sys.stdin:
        line = line.strip()
        if not line:
            continue
        req = json.loads(line)
        res = {}
        try:
            for m in req["modes"]:
                if m in ("check", "cli") and (res.get("read") or {}).get("out") == "hang":
                    res[m] = {"out": "skipped-after-hang"}
                    continue
                if m == "read":
                    res[m] = do_read(req["path"], req.get("summary", True))
                elif m == "check":
                    res[m] = do_check(req["path"])
                elif m == "cli":
                    res[m] = do_cli(req["path"])
                elif m == "inject":
                    res[m] = do_inject(req)
                elif m == "isolate":
                    res[m] = do_isolate(req["path"])
        except BaseException as e:      # the worker itself must never die silently
            res["worker_error"] = type(e).__name__ + ": " + str(e)[:300]
        out.write(json.dumps({"id": req.get("id"), "res": res}) + "\n")
        out.flush()



# =========================================================================================== pool
class Pool:
    """up to 4 persistent worker processes; a worker that does not answer in time is killed (= hang)"""
    _count = 0

    def __init__(self, n=4, repo=None):
        import vlib
        self.n = n
        self.repo = repo or vlib.REPO
        Pool._count += 1
        self.root = "/tmp/C13-%d-%d" % (os.getpid(), Pool._count)
        os.makedirs(self.root, exist_ok=True)
        self.procs = [None] * n
        self.restarts = 0

    def _spawn(self, k):
        env = dict(os.environ, PYTHONPATH=self.repo + ":" + HARNESS, PYTHONHASHSEED="0",
                   PYTHONDONTWRITEBYTECODE="1")
        d = os.path.join(self.root, "w%d" % k)
        os.makedirs(d, exist_ok=True)
        p = subprocess.Popen(["/venv/bin/python", os.path.abspath(__file__), "--worker"], cwd=d, env=env,
                             stdin=subprocess.PIPE, stdout=subprocess.PIPE, stderr=subprocess.DEVNULL,
                             text=True, bufsize=1)
        self.procs[k] = p
        return p

    def _kill(self, k):
        p = self.procs[k]
        if p is not None:
            try:
                p.kill()
                p.wait(timeout=5)
            except Exception:
                pass
            for fh in (p.stdin, p.stdout):
                try:
                    fh.close()
                except Exception:
                    pass
        self.procs[k] = None

    def close(self):
        for k in range(self.n):
            self._kill(k)
        import shutil
        shutil.rmtree(self.root, ignore_errors=True)

    def run(self, tasks, deadline=None):
        """tasks: list of dict(text, name, modes, files={name: text}); -> list of res dicts (None = not run)"""
        import threading
        results = [None] * len(tasks)
        nxt = [0]
        lock = threading.Lock()

        def loop(k):
            while True:
                with lock:
                    i = nxt[0]
                    if i >= len(tasks) or (deadline is not None and time.time() > deadline):
                        return
                    nxt[0] += 1
                results[i] = self._one(k, tasks[i])

        ths = [threading.Thread(target=loop, args=(k,)) for k in range(self.n)]
        for t in ths:
            t.start()
        for t in ths:
            t.join()
        return results

    def _one(self, k, task):
        p = self.procs[k]
        if p is None or p.poll() is not None:
            p = self._spawn(k)
        d = os.path.join(self.root, "w%d" % k)
        name = task.get("name", "case.i")
        path = os.path.join(d, name)
        with open(path, "w", newline="", encoding="utf-8", errors="surrogateescape") as f:
            f.write(task["text"])
        for fn, tx in (task.get("files") or {}).items():
            with open(os.path.join(d, fn), "w", newline="") as f:
                f.write(tx)
        req = dict(task.get("req") or {}, id=0, path=path, modes=task["modes"])
        budget = (ALARM_S + 4) * len(task["modes"]) + 5
        try:
            p.stdin.write(json.dumps(req) + "\n")
            p.stdin.flush()
            r, _, _ = select.select([p.stdout], [], [], budget)
            if not r:
                self._kill(k)
                self.restarts += 1
                return {m: {"out": "hang", "killed": True} for m in task["modes"]}
            line = p.stdout.readline()
            if not line:
                self._kill(k)
                self.restarts += 1
                return {m: {"out": "worker-died"} for m in task["modes"]}
            return json.loads(line)["res"]
        except (BrokenPipeError, OSError, ValueError) as e:
            self._kill(k)
            self.restarts += 1
            return {m: {"out": "worker-died", "detail": str(e)[:100]} for m in task["modes"]}


def run_fresh(text, modes=("read",), name="case.i", files=None, repo=None):
    """one case in a brand-new worker process (confirmation of a failure, replays)"""
    pool = Pool(1, repo=repo)
    try:
        return pool.run([{"text": text, "name": name, "modes": list(modes), "files": files}])[0]
    finally:
        pool.close()


# =========================================================================================== scanner
_TOK = {0: re.compile(r"[()=:#]|[^\s()=:#]+"), 1: re.compile(r"\S+"), 2: re.compile(r"[()=]|[^\s()=]+")}
_INT = re.compile(r"^[+-]?\d+$")
_NUMBER = re.compile(r"^[+-]?(\d+\.?\d*|\.\d+)([eEdD]?[+-]?\d+)?$")


def _is_comment(line):
    return re.match(r"^ {0,4}[cC]( |$)", line) is not None


def scan(text):
    """tokens of the three blocks of a file with positions and roles.
    -> (tokens, info)   token: dict(line, c0, c1, text, block, card, idx, role)
       info: dict(first_line (index of the first line after the title), blanks [line indices of block-ending blank lines],
                  cards [(block, first line, last line)])"""
    lines = text.split("\n")
    i = 0
    if lines and lines[0].upper().startswith("MESSAGE:"):
        while i < len(lines) and lines[i].strip():
            i += 1
        i += 1
    i += 1     # title
    info = {"first_line": i, "blanks": [], "cards": [], "title_line": i - 1}
    toks = []
    block = 0
    card = -1
    idx = 0
    amp = False
    state = {}
    while i < len(lines) and block < 3:
        raw = lines[i].rstrip("\r")
        if not raw.strip():
            info["blanks"].append(i)
            block += 1
            amp = False
            card = -1
            i += 1
            continue
        if _is_comment(raw):
            i += 1
            continue
        data = raw.split("$", 1)[0]
        new = bool(data[:5].strip()) and not amp and "\t" not in data[:5]
        if "\t" in data[:5]:
            new = bool(data.expandtabs(8)[:5].strip()) and not amp
        if new or card < 0:
            card = len(info["cards"])
            info["cards"].append([block, i, i])
            idx = 0
            state = {"phase": "start"}
        else:
            info["cards"][card][2] = i
        amp = data.rstrip().endswith("&")
        for m in _TOK[block].finditer(data):
            t = m.group(0)
            if t == "&" and m.end() == len(data.rstrip()):
                role = "amp"
            else:
                role = _role(block, idx, t, state)
            toks.append({"line": i, "c0": m.start(), "c1": m.end(), "text": t, "block": block, "card": card,
                         "idx": idx, "role": role})
            idx += 1
        i += 1
    return toks, info


def _role(block, idx, t, st):
    num = _NUMBER.match(t) is not None
    if block == 0:
        if idx == 0:
            return "cellnum"
        if idx == 1:
            st["mat"] = t
            st["phase"] = "dens" if (num and t.strip("+-0.") != "") else "geom"
            if not num:
                st["phase"] = "geom"
            return "matnum"
        if st["phase"] == "dens":
            st["phase"] = "geom"
            return "density"
        if st["phase"] == "geom":
            if t in "():#":
                st["prev"] = t
                return "geomop"
            if num or re.match(r"^[+-]?[\d.]", t):
                r = "cellref" if st.get("prev") == "#" else "surfref"
                st["prev"] = t
                return r
            st["phase"] = "params"
        # parameters
        if t == "=":
            return "eq"
        if t in "():":
            return "pop"
        if re.match(r"^[*]?[A-Za-z]", t) and not re.match(r"^\d*[rRiIjJmM]$", t) and st.get("after_colon") is None:
            st["key"] = t.lower().lstrip("*")
            return "key"
        return "pval:" + re.sub(r"\d+$", "", st.get("key", "?"))
    if block == 1:
        if idx == 0:
            return "surfnum"
        if "mn" not in st:
            if re.match(r"^[+-]?\d+$", t):
                return "perref" if t.startswith("-") else "trref"
            st["mn"] = t.lower()
            return "mnemonic"
        return "const"
    if idx == 0:
        st["word"] = re.sub(r"[\d:].*$", "", t.lower().lstrip("*+"))
        return "dataword"
    if t in "()=":
        return "dop"
    return "dval:" + st.get("word", "?")


# =========================================================================================== corruptions
JUNK = ["&", "#", "$", "*", "(", ")", ":", "=", ",", ".", "+", "-", "!", "?", "a", "z", "E", "x", "0", "7",
        "\u00e9", "\u00b0"]
REPLACEMENTS = ["0", "-1", "1.5", "j", "2r", "3i", "1e", "x", "zz9", "(", ")", ":", "#", "=", "like", "but",
                "imp:n", "u=2", "*", "1-2", "--1", ".", "1.2.3", "99999999999999999999", "1e999", "fill", "so",
                "m", "tr", "n", "1e-3", "c", "C"]
TOKEN_KINDS = ["delete", "duplicate", "replace", "junk", "truncate", "negate", "zero", "deint", "dangle", "dupnum",
               "comment_out"]
FILE_KINDS = ["drop_block", "drop_blank", "read_missing", "read_self", "read_valid", "read_nofile", "read_bare", "read_fle",
              "read_eq", "read_sub_commented", "drop_block_keep_comment", "read_diamond", "read_diamond_retarget",
              "dup_once_only", "only_title", "empty"]
ONCE_ONLY = ("mode", "vol", "u", "lat", "fill", "*fill")
REF_ROLES = ("surfref", "cellref", "matnum", "trref", "perref", "pval:fill", "dval:fill")
NUM_ROLES = ("cellnum", "surfnum", "dataword")


def _edit(text, tok, new, whole_rest=False):
    lines = text.split("\n")
    l = lines[tok["line"]]
    eol = "\r" if l.endswith("\r") else ""
    if whole_rest:
        lines[tok["line"]] = l[:tok["c0"]] + new + eol
    else:
        lines[tok["line"]] = l[:tok["c0"]] + new + l[tok["c1"]:]
    return "\n".join(lines)


def applicable(tok, toks):
    """corruption kinds that make sense at this token"""
    t = tok["text"]
    ks = ["delete", "duplicate", "replace", "junk", "truncate"]
    if _NUMBER.match(t):
        ks += ["negate", "zero"]
        if _INT.match(t):
            ks.append("deint")
    if tok["role"] in REF_ROLES and _INT.match(t) and t.strip("+-0") != "":
        ks.append("dangle")
    if tok["idx"] == 0:
        ks.append("comment_out")
    if tok["role"] in ("cellnum", "surfnum") or (tok["role"] == "dataword" and re.match(r"^[*+]?(m|tr)\d+$", t.lower())):
        ks.append("dupnum")
    return ks


def corrupt(text, toks, tok, kind, rng):
    """-> (new text, descriptor) or None when the corruption is not applicable / changes nothing"""
    t = tok["text"]
    d = {"kind": kind, "line": tok["line"], "col": tok["c0"], "tok": t, "role": tok["role"], "block": tok["block"],
         "card": tok["card"], "idx": tok["idx"]}
    if kind == "delete":
        new = _edit(text, tok, "")
    elif kind == "duplicate":
        new = _edit(text, tok, t + " " + t)
    elif kind == "replace":
        pool = REPLACEMENTS + [x["text"] for x in toks[:: max(1, len(toks) // 12)]]
        r = rng.choice(pool)
        if r == t:
            return None
        d["repl"] = r
        new = _edit(text, tok, r)
    elif kind == "junk":
        ch = rng.choice(JUNK)
        pos = rng.choice([0, len(t) // 2, len(t)])
        d["repl"] = t[:pos] + ch + t[pos:]
        d["junk"] = ch
        d["pos"] = pos
        new = _edit(text, tok, d["repl"])
    elif kind == "truncate":
        cut = rng.choice([0, 0, max(1, len(t) // 2)]) if len(t) > 1 else 0
        d["cut"] = cut
        new = _edit(text, tok, t[:cut], whole_rest=True)
    elif kind == "negate":
        r = t[1:] if t[0] == "-" else ("-" + t.lstrip("+"))
        d["repl"] = r
        new = _edit(text, tok, r)
    elif kind == "zero":
        if t.strip("+-") == "0":
            return None
        d["repl"] = "0"
        new = _edit(text, tok, "0")
    elif kind == "deint":
        r = t + rng.choice([".5", ".25", ".0001"])
        d["repl"] = r
        new = _edit(text, tok, r)
    elif kind == "dangle":
        used = {x["text"].lstrip("+-*") for x in toks}
        n = rng.choice([987, 4321, 77777])
        while str(n) in used:
            n += 1
        r = ("-" if t.startswith("-") else "") + str(n)
        d["repl"] = r
        new = _edit(text, tok, r)
    elif kind == "comment_out":
        # the first token of an input replaced by `c`, or `c ` put in front of it: the line becomes a comment line
        how = rng.choice(["replace", "insert"])
        d["how"] = how
        d["repl"] = "c" if how == "replace" else "c " + t
        if tok["c0"] > 4:
            return None
        new = _edit(text, tok, d["repl"])
    elif kind == "dupnum":
        same = [x for x in toks if x["role"] == tok["role"] and x["card"] != tok["card"] and x["idx"] == 0]
        if tok["role"] == "dataword":
            pre = re.match(r"^([*+]?[a-zA-Z]+)", t).group(1).lower()
            same = [x for x in same if x["text"].lower().startswith(pre) and re.match(r"^[*+]?[a-zA-Z]+\d+$", x["text"])
                    and not x["text"].lower().startswith("mt")]
            if pre.lstrip("*+") == "m":
                same = [x for x in same if re.match(r"^m\d+$", x["text"].lower())]
        if not same:
            return None
        o = rng.choice(same)["text"]
        if tok["role"] == "surfnum":
            o = o.lstrip("*+")
        if o == t:
            return None
        d["repl"] = o
        new = _edit(text, tok, o)
    else:
        raise ValueError(kind)
    if new == text:
        return None
    return new, d


def file_corruptions(text, info, rng, name="case.i"):
    """whole-file corruptions: -> list of (new text, descriptor, extra files)"""
    lines = text.split("\n")
    out = []
    blanks = info["blanks"]
    # drop a block (its cards and its terminating blank line)
    starts = [info["first_line"]] + [b + 1 for b in blanks]
    for k in range(min(3, len(blanks))):
        new = lines[:starts[k]] + lines[blanks[k] + 1:]
        out.append(("\n".join(new), {"kind": "drop_block", "block": k}, None))
    for k, b in enumerate(blanks):
        new = lines[:b] + lines[b + 1:]
        out.append(("\n".join(new), {"kind": "drop_blank", "block": k}, None))
    # read cards: in the data block (or at the start of the cell block)
    for where in ("data", "cell"):
        at = (blanks[1] + 1) if (where == "data" and len(blanks) >= 2) else info["first_line"]
        for kind, target in (("read_missing", "no_such_file_c13.i"), ("read_self", name)):
            new = lines[:at] + ["read file=" + target] + lines[at:]
            out.append(("\n".join(new), {"kind": kind, "where": where, "target": target}, None))
    # a read input in the data block with its target present: intact (the target's cards must arrive in the problem),
    # and with the single corruptions that keep the word `read` but lose the file parameter
    sub = {"sub13.i": "ctme 77\n"}
    at = (blanks[1] + 1) if len(blanks) >= 2 else info["first_line"]
    for kind, card in (("read_valid", "read file=sub13.i"), ("read_nofile", "read"), ("read_bare", "read sub13.i"),
                       ("read_fle", "read fle=sub13.i"), ("read_eq", "read file=")):
        if len(blanks) >= 2:
            new = lines[:at] + [card] + lines[at:]
            out.append(("\n".join(new), {"kind": kind, "where": "data", "card": card}, dict(sub)))
    # the same read input whose target holds only a commented-out input
    if len(blanks) >= 2:
        new = lines[:at] + ["read file=sub13.i"] + lines[at:]
        out.append(("\n".join(new), {"kind": "read_sub_commented", "where": "data"}, {"sub13.i": "c ctme 77\n"}))
    # a block whose inputs are gone while a comment line of it remains
    for k in range(min(3, len(blanks))):
        new = lines[:starts[k]] + ["c the inputs of this block were removed"] + lines[blanks[k]:]
        out.append(("\n".join(new), {"kind": "drop_block_keep_comment", "block": k}, None))
    # a tree of read inputs with a diamond (left and right both read shared; no numbered object in the sub-files):
    # intact, and with the read target inside `shared` replaced (one corruption): cycles over either route, a self
    # read, the top file, a missing file
    if len(blanks) >= 2:
        def tree(shared_target):
            return {"left13.txt": "read file=shared13.txt\nctme 11\n", "right13.txt": "read file=shared13.txt\nlost 5 5\n",
                    "shared13.txt": "read file=%s\nprdmp 2j 1\n" % shared_target, "leaf13.txt": "dbcn 7\n"}
        new = "\n".join(lines[:at] + ["read file=left13.txt", "read file=right13.txt"] + lines[at:])
        out.append((new, {"kind": "read_diamond", "target": "leaf13.txt"}, tree("leaf13.txt")))
        for tgt in ("right13.txt", "left13.txt", "shared13.txt", name, "no_such_file_c13.txt"):
            out.append((new, {"kind": "read_diamond_retarget", "target": tgt}, tree(tgt)))
    # duplicate an input MCNP (and MontePy: "only allowed once in a problem") allows once: MODE, and the data-block
    # forms of VOL / U / LAT / FILL — the copy right after the original or at the end of the data block, MODE also
    # with other particles
    if len(blanks) >= 3:
        for b, a, z in info["cards"]:
            if b != 2:
                continue
            first = lines[a].split("$", 1)[0].split()
            word = first[0].lower() if first else ""
            if word not in ONCE_ONLY:
                continue
            card = lines[a:z + 1]
            variants = [("after", z + 1, card), ("end", blanks[2], card)]
            if word == "mode":
                variants.append(("other", z + 1, [rng.choice(["mode p e", "mode n p", "MODE e", "mode h"])]))
            for where, at2, what in variants:
                new = lines[:at2] + what + lines[at2:]
                out.append(("\n".join(new), {"kind": "dup_once_only", "word": word, "where": where}, None))
    out.append((lines[info["title_line"]] + "\n", {"kind": "only_title"}, None))
    out.append(("", {"kind": "empty"}, None))
    return out



# =========================================================================================== oracle
SURF_COUNTS = None


def _surf_types():
    import gen
    return set(k.upper() for k in gen.SURF_TYPES) | {"X", "Y", "Z", "ARB", "REC", "BOX", "RHP", "HEX", "WED", "TRC", "ELL"}


def spec_read(text):
    """What MCNP's rules (harness/spec.py, independent of MontePy) give for the file.
    -> dict(title, cells [card dict | None], surfaces [...], data [first words], invalid [definite reasons],
            unknown [reasons why part of the file could not be given a meaning by this reader])"""
    import spec
    sf = spec.split_file(text, 128)
    blocks = sf["blocks"] + [[]] * (3 - len(sf["blocks"]))
    out = {"title": sf["title"], "message": sf["message"], "invalid": [], "unknown": [], "cells": [], "surfaces": [],
           "data": []}
    inv = out["invalid"]
    for ci, card in enumerate(blocks[0]):
        toks = spec.tokens(card.text, cell_geometry=True)
        if toks and toks[0] == "READ":
            out["cells"].append(None)
            out["unknown"].append("read card")
            continue
        t0 = toks[0] if toks else ""
        if re.match(r"^[+-]?\d+$", t0):
            if int(t0) <= 0:
                inv.append(f"cell number {t0} is not a positive integer")
        elif spec.read_number(t0) is not None:
            inv.append(f"cell number {t0} is not a positive integer")
        t1 = toks[1] if len(toks) > 1 else ""
        if t1 != "LIKE" and re.match(r"^[+-]?\d+$", t0) and spec.read_number(t1) is not None \
                and not (re.match(r"^[+-]?\d+$", t1) and int(t1) >= 0):
            inv.append(f"material number {t1} of cell {t0} is not a non-negative integer")
        try:
            c = spec.parse_cell(card)
            if c["material"] != 0 and c["density"] is None:
                raise ValueError("no density")      # e.g. a '&' in the middle of a line: this reader gives it no meaning
        except Exception as e:
            out["cells"].append(None)
            out["unknown"].append(f"cell card {ci}: {type(e).__name__}")
            continue
        out["cells"].append(c)
    for si, card in enumerate(blocks[1]):
        toks = spec.tokens(card.text)
        if toks and toks[0] == "READ":
            out["surfaces"].append(None)
            out["unknown"].append("read card")
            continue
        t0 = toks[0] if toks else ""
        m = re.match(r"^[*+]?([+-]?\d+)$", t0)
        if m:
            if int(m.group(1)) <= 0:
                inv.append(f"surface number {t0} is not a positive integer")
        elif spec.read_number(t0.lstrip("*+")) is not None:
            inv.append(f"surface number {t0} is not a positive integer")
        try:
            sd = spec.parse_surface(card)
            sd["computed"] = any(re.match(r"^(\d*(I|ILOG|LOG)|[+-]?[\d.]+(?:[EeDd]?[+-]?\d+)?M)$", t) for t in toks[1:])
            if sd["mnemonic"] not in _surf_types():
                raise ValueError("mnemonic")
            if any(not hasattr(x, "numerator") for x in sd["constants"]):
                raise ValueError("constants")
        except Exception as e:
            out["surfaces"].append(None)
            out["unknown"].append(f"surface card {si}: {type(e).__name__}")
            continue
        out["surfaces"].append(sd)
    for card in blocks[2]:
        toks = spec.tokens(card.text)
        out["data"].append(toks[0].lower() if toks else "")
    # an input that may appear once appears twice in the data block (MontePy: "only allowed once in a problem")
    for w in ONCE_ONLY:
        if out["data"].count(w) > 1:
            inv.append(f"the input {w.upper()} appears {out['data'].count(w)} times in the data block")
    # consistency (only over cards this reader could read)
    cells = [c for c in out["cells"] if c]
    surfs = [x for x in out["surfaces"] if x]
    complete = len(cells) == len(out["cells"]) and len(surfs) == len(out["surfaces"])
    cn = [c["number"] for c in cells]
    sn = [x["number"] for x in surfs]
    for n in sorted(set(x for x in cn if cn.count(x) > 1)):
        inv.append(f"cell number {n} is used twice")
    for n in sorted(set(x for x in sn if sn.count(x) > 1)):
        inv.append(f"surface number {n} is used twice")
    # matrix fills: FILL i0:i1 j0:j1 k0:k1 u... with exactly one universe per lattice element
    declared = set()
    u_card_ok = True
    for c in cells:
        pu = c["params"].get("U") or c["params"].get("*U")     # MontePy reads `*u=11` as u=11: no demand about it
        if pu and re.match(r"^-?\d+$", pu[0]):
            declared.add(abs(int(pu[0])))
    for card in blocks[2]:
        toks = spec.tokens(card.text)
        if toks and toks[0] == "U":
            vals = spec.expand_shortcuts(toks[1:])
            if all(hasattr(v, "numerator") or v == "J" for v in vals):
                declared.update(abs(int(v)) for v in vals if hasattr(v, "numerator") and v == int(v))
            else:
                u_card_ok = False
    for c in cells:
        pf = c["params"].get("FILL") or c["params"].get("*FILL")
        c["fill_matrix"] = None
        if pf and len(pf) > 3 and all(re.match(r"^-?\d+:-?\d+$", x) for x in pf[:3]) \
                and all(re.match(r"^\d+$", x) for x in pf[3:]):
            n = 1
            for x in pf[:3]:
                lo, hi = x.split(":") if not x.startswith("-") else ("-" + x[1:].split(":")[0], x[1:].split(":", 1)[1])
                n *= max(0, int(hi) - int(lo) + 1)
            if n == len(pf) - 3:
                c["fill_matrix"] = [int(x) for x in pf[3:]]
                if complete and u_card_ok and "read card" not in out["unknown"]:
                    for u in sorted(set(c["fill_matrix"])):
                        if u > 0 and u not in declared:
                            inv.append(f"cell {c['number']} fill matrix names missing universe {u}")
    if complete:
        mats = set()
        trs = set()
        for w in out["data"]:
            m = re.match(r"^[^a-z0-9]*m\+?0*(\d+)$", w)      # `m+8`, `m08`, `?m8` are read as material 8 by MontePy: no demand is made about them
            if m:
                mats.add(int(m.group(1)))
            m = re.match(r"^[^a-z0-9]*tr\+?0*(\d+)$", w)
            if m:
                trs.add(int(m.group(1)))
        for c in cells:
            if c["geom"] is not None:
                for kind, n in sorted(spec.geom_leaves(c["geom"])):
                    if kind == "s" and n not in sn:
                        inv.append(f"cell {c['number']} refers to missing surface {n}")
                    if kind == "c" and n not in cn:
                        inv.append(f"cell {c['number']} refers to missing cell {n}")
            if c["material"] and c["material"] not in mats and "read card" not in out["unknown"]:
                inv.append(f"cell {c['number']} refers to missing material {c['material']}")
        for x in surfs:
            p = x["pointer"]
            if p is not None and p > 0 and p not in trs and "read card" not in out["unknown"]:
                inv.append(f"surface {x['number']} refers to missing transform {p}")
            if p is not None and p < 0 and -p not in sn:
                inv.append(f"surface {x['number']} refers to missing periodic surface {-p}")
    return out


def _tup(x):
    return tuple(_tup(y) for y in x) if isinstance(x, list) else x


def _close(fr, hexs, abs_tol=0.0):
    """exact rational of the independent reader vs the float MontePy holds (sent as float.hex).
    abs_tol: absolute slack for values COMPUTED by a shortcut (nI, nILOG, xM) in binary64 from operands of much larger
    magnitude (cancellation: a + (b-a)/2 between +-6.3e7 is only exact to a few ulp of 6.3e7); 0 for literal tokens"""
    import math
    import spec
    try:
        a = float(fr)
    except OverflowError:
        return True          # beyond binary64: no demand
    try:
        b = float.fromhex(hexs) if "0x" in hexs else float(hexs)
    except Exception:
        return False
    if math.isinf(a) or math.isinf(b) or math.isnan(b):
        return True
    return spec.close(a, b) or abs(a - b) <= abs_tol


def _fs(x):
    try:
        return str(x)[:60]
    except ValueError:
        return "<huge>"


def misrepresentations(sp, summ):
    """differences between the problem MontePy returned and the independent reading of the same file
    (only facts both sides define)"""
    import spec
    diffs = []
    if summ is None:
        return diffs
    if (summ.get("title") or "").rstrip() != (sp["title"] or "").rstrip():
        diffs.append(("title", sp["title"], summ.get("title")))
    sc = sp["cells"]
    mc = summ["cells"]
    if "read card" in sp["unknown"]:
        return diffs
    if len(sc) != len(mc):
        diffs.append(("cell count", len(sc), len(mc)))
    else:
        for a, b in zip(sc, mc):
            if a is None:
                continue
            if a["number"] != b["number"]:
                diffs.append(("cell number", a["number"], b["number"]))
                continue
            if a["material"] != b["old_mat"]:
                diffs.append(("cell material", a["number"], a["material"], b["old_mat"]))
            if a["density"] is not None and b.get("density") not in (None,) and not str(b["density"]).startswith("error"):
                if not _close(abs(a["density"]), b["density"].lstrip("-")):
                    diffs.append(("cell density", a["number"], _fs(a["density"]), b["density"]))
                elif b.get("atom_dens") is not None and a["density"] != 0 and (a["density"] > 0) != bool(b["atom_dens"]):
                    diffs.append(("cell density sign", a["number"], _fs(a["density"]), b["atom_dens"]))
            if a["geom"] is not None and isinstance(b.get("geom"), list):
                try:
                    if not spec.geom_equal(a["geom"], _tup(b["geom"])):
                        diffs.append(("cell geometry", a["number"], str(a["geom"])[:200], str(b["geom"])[:200]))
                except Exception as e:
                    diffs.append(("cell geometry", a["number"], "uncomparable " + type(e).__name__, str(b["geom"])[:200]))
            elif a["geom"] is not None and b.get("geom") is None:
                diffs.append(("cell geometry", a["number"], str(a["geom"])[:200], None))
            pu = a["params"].get("U")
            if pu is not None and len(pu) == 1 and re.match(r"^-?\d+$", pu[0]):
                if abs(int(pu[0])) != (b.get("universe") if isinstance(b.get("universe"), int) else -1):
                    diffs.append(("cell universe", a["number"], pu[0], b.get("universe")))
            fm = a.get("fill_matrix")
            if fm is not None and isinstance(b.get("fill_matrix"), list):
                got = b["fill_matrix"]
                if any(x is None for x in got) or sorted(got) != sorted(fm):
                    diffs.append(("cell fill matrix", a["number"], fm[:12], got[:12]))
            pf = a["params"].get("FILL")
            if pf is not None and len(pf) == 1 and re.match(r"^\d+$", pf[0]) and "*FILL" not in a["params"]:
                if int(pf[0]) != (b.get("fill") if isinstance(b.get("fill"), int) else (0 if b.get("fill") is None else -1)):
                    diffs.append(("cell fill", a["number"], pf[0], b.get("fill")))
    ss = sp["surfaces"]
    ms = summ["surfaces"]
    if len(ss) != len(ms):
        diffs.append(("surface count", len(ss), len(ms)))
    else:
        for a, b in zip(ss, ms):
            if a is None or "error" in b:
                continue
            if a["number"] != b["number"]:
                diffs.append(("surface number", a["number"], b["number"]))
                continue
            if a["mnemonic"] != str(b["type"]).upper():
                diffs.append(("surface type", a["number"], a["mnemonic"], b["type"]))
            tol = 0.0
            if a.get("computed"):
                # the card holds an interpolate / multiply shortcut: its generated values carry the rounding of the
                # operands they are computed from
                try:
                    tol = 1e-13 * max([abs(float(x)) for x in a["constants"]] or [0.0])
                except OverflowError:
                    tol = 0.0
            if len(a["constants"]) != len(b["constants"]) or not all(_close(x, y, tol) for x, y in zip(a["constants"], b["constants"])):
                diffs.append(("surface constants", a["number"], [_fs(x) for x in a["constants"]], b["constants"]))
            if (a["modifier"] == "*") != b["reflecting"] or (a["modifier"] == "+") != b["white"]:
                diffs.append(("surface boundary", a["number"], a["modifier"], (b["reflecting"], b["white"])))
            p = a["pointer"]
            if (p if (p or 0) > 0 else None) != b["transform"] or ((-p) if (p or 0) < 0 else None) != b["periodic"]:
                diffs.append(("surface pointer", a["number"], p, (b["transform"], b["periodic"])))
    return diffs


def allowed_exception(r):
    """the property's sentence about the exception read_input may raise -> (ok, why)"""
    mro = r.get("mro", [])
    if r.get("msg_empty"):
        return False, "empty message"
    for d in DOCUMENTED:
        if d in mro and r.get("module", "").startswith("montepy"):
            return True, "documented"
        if d in mro:
            # subclass check by name on the montepy hierarchy (module of the leaf class is montepy.errors)
            return True, "documented"
    if "FileNotFoundError" in mro:
        return True, "file-not-found"
    for d in EXPLICIT:
        if d in mro and r.get("deliberate"):
            return True, "explicit"
    return False, "leak"


def trailing_cards(text):
    """first words of the cards that stand after the blank line that ends the data block (MCNP reads none of them)"""
    import spec
    sf = spec.split_file(text, 128)
    out = []
    for l in sf["trailing"]:
        if l.strip() and not spec.is_comment_line(l) and l[:5].strip():
            out.append(l.split()[0].lower())
    return out


def missing_read_content(case, summ):
    """first words of the cards of well-formed read targets (data block, file present, followed through the read
    inputs of the targets) that the problem lacks"""
    files = case.get("files") or {}
    miss = []
    seen = set()
    todo = [case["text"]]
    while todo:
        text = todo.pop()
        for m in re.finditer(r"(?im)^ {0,4}read\s+file\s*=\s*(\S+)\s*$", text):
            t = m.group(1)
            if t in files and t not in seen:
                seen.add(t)
                todo.append(files[t])
                for l in files[t].split("\n"):
                    if l.strip() and not _is_comment(l) and l[:5].strip() and not l.lower().startswith("read"):
                        w = l.split()[0].lower()
                        if w not in summ.get("data", []):
                            miss.append(w)
    return miss


def _fail(kind, mode, r=None, **kw):
    d = {"kind": kind, "mode": mode}
    if r is not None:
        d.update(cls=r.get("cls"), func=r.get("func"), where=r.get("where"), stack=r.get("stack"), mro=r.get("mro"),
                 deliberate=r.get("deliberate"), msg=(r.get("msg") or "")[:200])
    d.update(kw)
    d["sig"] = ":".join(str(x) for x in (kind, d.get("cls") or d.get("what") or "", d.get("func") or "") if x != "")
    return d


def judge(case, res):
    """-> list of failures (dicts with 'kind' and a 'sig' that identifies the defect) for one executed case"""
    fails = []
    r = res.get("read") or {}
    out = r.get("out")
    controlled = False
    if out in ("hang", "worker-died"):
        fails.append(_fail(out, "read"))
    elif out == "raise":
        ok, why = allowed_exception(r)
        if ok:
            controlled = True
        else:
            fails.append(_fail("leak" if why == "leak" else "empty-message", "read", r))
    elif out == "ok":
        sp = spec_read(case["text"])
        summ = r.get("summary")
        extra = []
        if summ is not None:
            tc = trailing_cards(case["text"])
            extra = [w for w in tc if w in summ.get("data", []) and w not in sp["data"]]
        if summ is not None and "read" in summ.get("data", []):
            # a read input is an instruction to the reader, never a data input of the problem
            fails.append(_fail("misrepresents", "read", what="read input kept as a data input"))
        elif summ is not None and missing_read_content(case, summ):
            fails.append(_fail("misrepresents", "read", what="cards of a read target are not in the problem",
                               cards=missing_read_content(case, summ)[:4]))
        elif extra:
            fails.append(_fail("reads-past-terminator", "read", what="data", cards=extra[:4]))
        elif sp["invalid"]:
            what = re.sub(r"-?\d+(\.\d+)?", "N", sp["invalid"][0])
            fails.append(_fail("accepted-malformed", "read", what=what, reasons=sp["invalid"][:3]))
        else:
            if summ is None:
                fails.append(_fail("unsummarisable", "read", what=str(r.get("summary_error"))[:80]))
            diffs = misrepresentations(sp, summ)
            if diffs:
                fails.append(_fail("misrepresents", "read", what=diffs[0][0],
                                   diffs=[[_fs(x) for x in d] for d in diffs[:3]]))
    # check mode: the same conditions are warnings and the call returns
    for mode in ("check", "cli"):
        c = res.get(mode)
        if not c:
            continue
        if c.get("out") in ("hang", "worker-died"):
            if not any(f["kind"] == c.get("out") for f in fails):
                fails.append(_fail(c.get("out"), mode))
        elif c.get("out") == "raise" and controlled:
            fails.append(_fail("check-raises", mode, c, read_cls=r.get("cls")))
        elif c.get("out") == "ok" and controlled and c.get("nwarn", 0) == 0:
            fails.append(_fail("check-silent", mode, what=str(r.get("cls"))))
    return fails


# =========================================================================================== cases
def lattice_problem(rng):
    """a well-formed problem with a lattice cell filled by a matrix of universes (gen.py has none): a few universe
    cells, the lattice cell `lat=1 fill=i0:i1 j0:j1 k0:k1 u...` in its own universe, a container filled with it"""
    nums = rng.sample(range(1, 60), 8)
    nu = rng.randint(2, 3)
    unis = rng.sample(range(1, 40), nu + 1)
    lat_u = unis[-1]
    unis = unis[:-1]
    snums = rng.sample(range(1, 90), nu + 2)
    dims = [rng.choice([1, 1, 2, 3]), rng.choice([1, 2]), rng.choice([1, 1, 2])]
    lows = [rng.choice([0, 0, -1]) for _ in dims]
    ranges = " ".join("%d:%d" % (lo, lo + n - 1) for lo, n in zip(lows, dims))
    entries = [rng.choice(unis) for _ in range(dims[0] * dims[1] * dims[2])]
    eq = rng.choice(["=", "=", " "])
    lines = [rng.choice(["lattice filled with a matrix of universes", "matrix fill problem"])]
    for k, u in enumerate(unis):
        lines.append("%d 0 -%d u=%d imp:n=1" % (nums[k], snums[k], u))
    lat_cell = nums[nu]
    ent = " ".join(str(e) for e in entries)
    first = "%d 0 -%d lat=1 fill%s%s %s" % (lat_cell, snums[nu], eq, ranges, ent)
    if len(first) > 70:
        cut = first.rfind(" ", 0, 70)
        lines.append(first[:cut])
        lines.append("     " + first[cut + 1:] + " u=%d imp:n=1" % lat_u)
    else:
        lines.append(first + " u=%d imp:n=1" % lat_u)
    lines.append("%d 0 -%d fill=%d imp:n=1" % (nums[nu + 1], snums[nu + 1], lat_u))
    lines.append("%d 0 %d imp:n=0" % (nums[nu + 2], snums[nu + 1]))
    lines.append("")
    for k in range(nu):
        lines.append("%d so %s" % (snums[k], rng.choice(["0.5", "0.4", "1.25"])))
    lines.append("%d rpp -1 1 -1 1 -1 1" % snums[nu])
    lines.append("%d so 10" % snums[nu + 1])
    lines.append("")
    lines.append("mode n")
    if rng.random() < 0.5:
        lines.append("nps 1000")
    lines.append("")
    return "\n".join(lines) + "\n"


def base_problem(seed, i):
    """the i-th well-formed file of a run"""
    import gen
    rng = random.Random(f"{seed}:C13:base:{i}")
    if i % 4 == 3:
        return lattice_problem(rng)
    if i % 4 == 1:
        # a small problem: blocks with a single input are frequent (one cell, one surface, only MODE in the data block)
        P = gen.gen_problem(rng, dict(max_cells=rng.choice([1, 1, 2]), materials=False, transforms=False, extras=False,
                                      data_mods=False, universes=False, message=False))
    else:
        P = gen.gen_problem(rng, dict(max_cells=6))
    L = gen.layout_opts(rng, wild=(i % 3 == 0))
    return gen.render(rng, P, L)


def cases_of_base(seed, i, text, per_token, rng):
    """corruptions of one base file: at every token position `per_token` kinds (0 = every applicable kind),
    plus the whole-file corruptions"""
    toks, info = scan(text)
    out = []
    for tok in toks:
        ks = applicable(tok, toks)
        chosen = ks if per_token <= 0 else rng.sample(ks, min(per_token, len(ks)))
        if per_token > 0 and tok["idx"] == 0 and "comment_out" not in chosen:
            # turning an input into a comment line: always (an input that is the only one of its block leaves a block
            # of comment lines)
            chosen = chosen + ["comment_out"]
        if per_token > 0 and tok["role"] == "pval:fill" and "dangle" in ks and "dangle" not in chosen:
            # every universe a FILL names (each element of a matrix fill): always made dangling once
            chosen = chosen + ["dangle"]
        if per_token > 0 and tok["role"] in ("cellnum", "surfnum", "matnum"):
            # the numbers that identify objects: always all number corruptions (they are few)
            chosen = chosen + [k for k in ("negate", "zero", "deint", "dupnum") if k in ks and k not in chosen]
        for k in chosen:
            c = corrupt(text, toks, tok, k, rng)
            if c is not None:
                out.append({"base": i, "text": c[0], "corr": c[1]})
    name = "case.i"
    for new, d, files in file_corruptions(text, info, rng, name):
        out.append({"base": i, "text": new, "corr": d, "files": files})
    return out, len(toks)


def task_of(case, modes):
    return {"text": case["text"], "name": case.get("name", "case.i"), "modes": list(modes), "files": case.get("files")}


# =========================================================================================== injection correspondence
def canon_model(outs, check):
    """model outcome strings -> set of canonical observations"""
    res = set()
    for o in outs.split(","):
        p = o.split(":")
        if p[0] == "raise":
            res.add("raise:" + p[1])
        elif p[0] == "warn":
            res.add("ok[" + p[1] + "]")
        elif p[0] == "recovered":
            res.add("ok[]")
        else:
            res.add("?" + o)
    return res


def canon_real(r, known):
    if r.get("out") == "raise":
        return "raise:" + r["cls"]
    if r.get("out") == "ok":
        ws = []
        for w in r.get("warnings", []):
            m = re.match(r"^(\w+): ", w)
            if m and m.group(1) in known:
                ws.append(m.group(1))
        return "ok[" + ",".join(ws) + "]"
    return str(r.get("out"))


INJECT_SKIP = {"BaseException", "Exception", "Warning", "UserWarning", "LineOverRunWarning", "LineExpansionWarning",
               "ArithmeticError", "LookupError", "OSError", "RuntimeError", "UnicodeError", "NameError",
               "DeprecatedError", "DeprecationWarning"}


def injection(ctx, T, pool, hw, site_wires, classes, fraction=1.0):
    """inject every class at every routing site of the real code; compare with the model's route.
    fraction < 1: the pairs (site, class) whose class no clause of the site's chain names (nor an ancestor /
    descendant of it) are sampled"""
    import vlib
    reqs = []
    meta = []
    H = T["hierarchy"]
    hmap = {tid: cl for tid, ln, cl in T["handlers"]}
    rng = random.Random(f"{ctx.seed}:C13:inject")
    for sname, chain, phase in T["sites"]:
        cw = site_wires[sname]
        named = set()
        for tid, _ in chain:
            for caught, acts in hmap[tid]:
                named.update(caught)
        for c in classes:
            related = c in named or any(a in named for a in H.get(c, [])) or any(c in H.get(n, []) for n in named)
            if not related and rng.random() > fraction:
                continue
            if sname == "cells_once" and c != "MalformedInputError":
                continue
            if sname == "tree_none" and c != "ParsingError":
                continue
            if c == "StopIteration" and sname in ("syntax", "read_card"):
                continue      # PEP 479: a StopIteration raised inside a generator becomes RuntimeError
            for check in (0, 1):
                reqs.append(f"route {check} {c} D {hw} {cw}")
                meta.append((sname, c, check))
    answers = vlib.model_ask("Exn", reqs)
    tasks = []
    for (sname, c, check) in meta:
        text = INJECT_FILE_MERGE if sname == "cells_merge" else INJECT_FILE_TWICE if sname == "cells_once" else INJECT_FILE
        tasks.append({"text": text, "name": "inject.i", "modes": ["inject"],
                      "req": {"site": sname, "cls": c, "check": bool(check)}})
    results = pool.run(tasks)
    bad = []
    dist = {}
    known = set(classes) | set(T["hierarchy"])
    for (sname, c, check), ans, res in zip(meta, answers, results):
        ctx.cov["programs"] += 1
        ctx.cov["disagreements_checked"] += 1
        r = (res or {}).get("inject") or {}
        real = canon_real(r, known)
        if sname == "cells_once":
            # the natural trigger (two VOL cards) also reaches the merge of the two cards: same class, second warning
            real = re.sub(r"\[(\w+)(,\1)+\]", r"[\1]", real)
        model = canon_model(ans, check)
        ctx.count_case(("inject", sname, c, check), nontrivial=True)
        k = "%s/%s" % ("check" if check else "normal", real.split(":")[0].split("[")[0] + ("[w]" if real.startswith("ok[") and real != "ok[]" else ""))
        dist[k] = dist.get(k, 0) + 1
        if sname != "cells_once" and not r.get("fired"):
            bad.append({"site": sname, "cls": c, "check": check, "why": "anchor not reached in the real code", "real": real})
        elif real not in model:
            bad.append({"site": sname, "cls": c, "check": check, "real": real, "model": sorted(model),
                        "where": r.get("where")})
    return reqs, answers, bad, dist


# =========================================================================================== findings support
def legal_chars():
    """characters each block's lexer accepts (probed on the real lexers)"""
    from montepy.input_parser.tokens import CellLexer, SurfaceLexer, DataLexer
    import sly.lex
    out = {}
    for b, L in ((0, CellLexer), (1, SurfaceLexer), (2, DataLexer)):
        ok = set()
        for code in range(32, 127):
            ch = chr(code)
            try:
                list(L().tokenize("1 " + ch + " 1\n"))
                ok.add(ch)
            except sly.lex.LexError:
                pass
            except Exception:
                ok.add(ch)
        out[b] = ok
    return out


def read_targets(text):
    return [m.group(1) for m in re.finditer(r"(?im)^\s{0,4}read\s+.*?file\s*=?\s*(\S+)", text)]


def prepare_failure(case, f, res, iso):
    """the record handed to ctx.fail: the case, the failure, and what the attribution predicates need"""
    return {"kind": f["kind"], "sig": f["sig"], "failure": f, "text": case["text"], "corr": case.get("corr"),
            "name": case.get("name", "case.i"), "files": case.get("files"), "iso": iso}


def shrink_case(pool, case, sig_of):
    """drop cards (whole logical cards) while the same failure signature persists; -> smaller case"""
    cur = dict(case)
    for _ in range(3):
        toks, info = scan(cur["text"])
        lines = cur["text"].split("\n")
        cards = sorted(info["cards"], key=lambda c: -c[1])
        cands = []
        for b, a, z in cards:
            new = lines[:a] + lines[z + 1:]
            cands.append("\n".join(new))
        if not cands:
            break
        results = pool.run([task_of(dict(cur, text=t), ["read", "check"]) for t in cands])
        # greedy: apply every removal that keeps the signature, re-validating cumulatively from the bottom
        kept = None
        text = cur["text"]
        changed = False
        for (b, a, z), t, r in zip(cards, cands, results):
            if r is None:
                continue
            if sig_of(dict(cur, text=t), r):
                # removal is fine on its own; try it on top of what was already removed
                l2 = text.split("\n")
                t2 = "\n".join(l2[:a] + l2[z + 1:])
                if t2 == t or sig_of(dict(cur, text=t2), pool.run([task_of(dict(cur, text=t2), ["read", "check"])])[0]):
                    text = t2
                    changed = True
        cur["text"] = text
        if not changed:
            break
    cur.pop("corr", None)
    return cur


def evaluate(pool, cases, modes=("read", "check")):
    """run cases, judge them, isolate the failing ones; -> list of (case, res, fails, iso)"""
    results = pool.run([task_of(c, modes) for c in cases])
    out = []
    todo = []
    for c, r in zip(cases, results):
        if r is None:
            continue
        fails = judge(c, r)
        out.append([c, r, fails, None])
        if fails:
            todo.append(len(out) - 1)
    if todo:
        isos = pool.run([task_of(out[k][0], ["isolate"]) for k in todo])
        for k, x in zip(todo, isos):
            out[k][3] = (x or {}).get("isolate")
    return out


def replay(ctx, path):
    with open(path) as fh:
        case = json.load(fh)
    case = case.get("case", case)
    if case.get("kind") == "broken-obligation":
        print("REPLAY property=C13: a broken obligation has no input to replay; run ./check C13")
        return 1
    pool = Pool(1)
    try:
        ev = evaluate(pool, [case], modes=("read", "check", "cli"))
    finally:
        pool.close()
    fails = ev[0][2] if ev else []
    if fails:
        print("REPLAY property=C13 still fails: " + "; ".join(f["sig"] for f in fails))
        print(f"VIOLATION property=C13 replay={path}")
        return 1
    print("REPLAY property=C13 passes")
    return 0


def run(ctx):
    import vlib
    import translate_errors as TE
    quick = ctx.tier == "quick"
    t_start = time.time()
    # ---- 1. regenerate Gen/Errors.v, prove
    T = None
    try:
        T = TE.regenerate()
    except Exception as e:
        ctx.broken_obligations.append({"obligation": "translator harness/translate_errors.py (fail closed)",
                                       "detail": f"{type(e).__name__}: {e}"[:600]})
    marks = {}
    marks["translate"] = round(time.time() - t_start, 1)
    if T is not None:
        ctx.prove()
    else:
        ctx.cov["obligations"] += len(vlib.property_theorems("Properties/C13.v"))
    marks["prove"] = round(time.time() - t_start, 1)
    pool = Pool(4)
    dist = {"corruption_kinds": {}, "roles": {}, "read_outcomes": {}, "check_outcomes": {}, "failure_signatures": {},
            "oracle": {"raised_controlled": 0, "returned_and_compared": 0, "returned_definitely_malformed": 0,
                       "spec_could_not_read_part": 0}}
    extra = {"input_distribution": dist,
             "claim_scope": "partial: the theorems cover exception routing; which exception inner code raises on a "
                            "corrupted file is explored by the search only (DESIGN.md §6 C13)"}
    try:
        # ---- 2./3. model binary, injection correspondence, vm_compute cross-check
        nx = 0
        if T is not None and not any("coq build" in str(b.get("obligation")) for b in ctx.broken_obligations):
            ok, log = vlib.coq_make(["Model/Exn.vo"])
            if not ok:
                ctx.broken_obligations.append({"obligation": "Model/Exn.vo builds", "detail": log[-800:]})
            else:
                hmap = {tid: cl for tid, ln, cl in T["handlers"]}
                hw = TE.hier_wire(T["hierarchy"])
                sw = {n: TE.chain_wire(ch, hmap) for n, ch, ph in T["sites"]}
                classes = [c for c in sorted(T["hierarchy"]) if c not in INJECT_SKIP]
                reqs, answers, bad, idist = injection(ctx, T, pool, hw, sw, classes, fraction=0.3 if quick else 1.0)
                extra["injection"] = {"cases": len(reqs), "observations": idist, "sites": len(T["sites"]),
                                      "classes": len(classes)}
                if bad:
                    ctx.broken_obligations.append({
                        "obligation": "correspondence: exception injected at a routing site of the real code vs Exn.route",
                        "detail": {"n": len(bad), "first": bad[:3]}})
                nx, mism = vlib.vm_crosscheck("Exn", reqs, answers, sample=40 if quick else 200, seed=ctx.seed)
                if mism:
                    ctx.broken_obligations.append({"obligation": "extraction cross-check Exn", "detail": mism[:2]})
                ctx.sample({"injection_request": reqs[0][:120] + "...", "model_answer": answers[0]})
                extra["tables"] = {"handlers": len(T["handlers"]), "raise_rows": len(T["raise_rows"]),
                                   "prim_rows": len(T["prim_rows"]), "reachable_functions": T["reach"],
                                   "digest": T["digest"]}
        marks["injection+xcheck"] = round(time.time() - t_start, 1)
        # ---- 4. corpus, committed findings
        corpus = []
        cdir = os.path.join(vlib.VERIF, "corpus", "C13")
        if os.path.isdir(cdir):
            for fn in sorted(os.listdir(cdir)):
                if fn.endswith(".json"):
                    with open(os.path.join(cdir, fn)) as fh:
                        c = json.load(fh)
                    c = c.get("case", c)
                    c["corpus"] = fn
                    corpus.append(c)
        extra["corpus"] = len(corpus)
        for c, r, fails, iso in evaluate(pool, corpus, modes=("read", "check", "cli")):
            ctx.count_case(("corpus", c["text"]), nontrivial=True)
            for f in fails:
                ctx.fail(prepare_failure(c, f, r, iso))
        marks["corpus"] = round(time.time() - t_start, 1)
        # ---- 5. search: single corruptions of generated well-formed files
        budget = (40 if quick else 900)
        deadline = time.time() + budget
        nbase = 400 if quick else 40000
        per_token = 1 if quick else 0
        batch = 6 if quick else 8
        i = 0
        nviol = 0
        seen_sig = {}
        stats = {"bases": 0, "bases_rejected": 0, "cases": 0, "tokens": 0, "hangs": 0}
        samples_left = 3
        while i < nbase and time.time() < deadline and nviol < 5:
            idx = list(range(i, min(nbase, i + batch)))
            i += batch
            texts = [base_problem(ctx.seed, k) for k in idx]
            bres = pool.run([{"text": t, "modes": ["read", "check"]} for t in texts])
            cases = []
            for k, t, r in zip(idx, texts, bres):
                if r is None:
                    continue
                if r["read"].get("out") != "ok" or judge({"text": t}, r):
                    # a well-formed file MontePy does not read as it is (C12's business): not corrupted further
                    stats["bases_rejected"] += 1
                    continue
                stats["bases"] += 1
                rng = random.Random(f"{ctx.seed}:C13:corr:{k}")
                cs, nt = cases_of_base(ctx.seed, k, t, per_token, rng)
                stats["tokens"] += nt
                cases += cs
            for c, r, fails, iso in evaluate(pool, cases):
                stats["cases"] += 1
                kd = c["corr"]["kind"]
                dist["corruption_kinds"][kd] = dist["corruption_kinds"].get(kd, 0) + 1
                role = c["corr"].get("role", "file")
                dist["roles"][role] = dist["roles"].get(role, 0) + 1
                ro = r["read"].get("out") + (":" + r["read"]["cls"] if r["read"].get("cls") else "")
                dist["read_outcomes"][ro] = dist["read_outcomes"].get(ro, 0) + 1
                co = (r.get("check") or {}).get("out", "-") + (":" + r["check"]["cls"] if (r.get("check") or {}).get("cls") else "")
                dist["check_outcomes"][co] = dist["check_outcomes"].get(co, 0) + 1
                if r["read"].get("out") == "raise" and not any(f["mode"] == "read" for f in fails):
                    dist["oracle"]["raised_controlled"] += 1
                elif r["read"].get("out") == "ok":
                    dist["oracle"]["returned_and_compared"] += 1
                ctx.count_case((kd, role, ro, co, c["corr"].get("repl"), c["corr"].get("tok")),
                               nontrivial=True)
                if samples_left and c["corr"].get("line") is not None:
                    samples_left -= 1
                    ctx.sample({"corruption": c["corr"], "line": c["text"].split("\n")[c["corr"]["line"]][:100],
                                "read": ro, "check": co})
                for f in fails:
                    dist["failure_signatures"][f["sig"]] = dist["failure_signatures"].get(f["sig"], 0) + 1
                    if f["kind"] == "hang":
                        stats["hangs"] += 1
                    rec = prepare_failure(c, f, r, iso)
                    fid = ctx.attribute(rec)
                    if fid:
                        ctx.filtered[fid] = ctx.filtered.get(fid, 0) + 1
                        continue
                    # a new violation: confirm in a fresh process, shrink, report (a few per signature)
                    if seen_sig.get(f["sig"], 0) >= 1:
                        seen_sig[f["sig"]] += 1
                        continue
                    seen_sig[f["sig"]] = 1
                    fresh = run_fresh(c["text"], modes=("read", "check"), name=c.get("name", "case.i"), files=c.get("files"))
                    ff = [x for x in judge(c, fresh) if x["sig"] == f["sig"]]
                    if not ff:
                        extra.setdefault("not_confirmed_in_fresh_process", []).append(f["sig"])
                        continue
                    if f["kind"] in ("hang", "worker-died"):
                        # every shrinking step of a hang costs the full alarm: report the case as it is
                        if ctx.fail(rec):
                            nviol += 1
                        continue
                    small = shrink_case(pool, c, lambda cc, rr, sig=f["sig"]: any(x["sig"] == sig for x in judge(cc, rr)))
                    ev = evaluate(pool, [small])
                    if ev and any(x["sig"] == f["sig"] for x in ev[0][2]):
                        f2 = [x for x in ev[0][2] if x["sig"] == f["sig"]][0]
                        rec = prepare_failure(small, f2, ev[0][1], ev[0][3])
                        rec["original_corruption"] = c.get("corr")
                    if ctx.fail(rec):
                        nviol += 1
        stats["distinct_new_signatures"] = {k: v for k, v in seen_sig.items()}
        extra["search"] = dict(stats, wall_budget_s=budget, pool_restarts=pool.restarts)
        marks["search"] = round(time.time() - t_start, 1)
        # ---- 6. the CLI itself on a few files (real `python -m montepy -c`)
        extra["cli"] = cli_probe(ctx, pool)
        # ---- 7. committed findings still reproduce?
        marks["cli"] = round(time.time() - t_start, 1)
        fcases = []
        for fd in ctx.findings:
            if fd.get("status") == "open" and fd.get("replay"):
                try:
                    with open(os.path.join(vlib.VERIF, fd["replay"])) as fh:
                        c = json.load(fh)
                    c = c.get("case", c)
                    c["_fd"] = fd
                    fcases.append(c)
                except Exception as e:
                    fd["_reproduced"] = False
                    extra.setdefault("finding_replay_errors", []).append(f"{fd['id']}: {type(e).__name__}: {e}"[:200])
        for c, r, fails, iso in evaluate(pool, fcases, modes=("read", "check")):
            fd = c["_fd"]
            fd["_reproduced"] = any(ctx.attribute(prepare_failure(c, f, r, iso)) == fd["id"] for f in fails)
    finally:
        pool.close()
    tb = vlib.KERNEL_TB + [
        "translator harness/translate_errors.py (ast over montepy/**/*.py): trusted to emit the try/except statements, "
        "class hierarchy, site chains, raise statements and primitive operations the source contains; exercised on every "
        "run by the injection correspondence (each class raised at each routing site of the real code vs Exn.route)",
        "modelled, not verified: exception ROUTING of MCNP_Object.__init__, MCNP_Problem.parse_input, "
        "__update_internal_pointers, Cells.update_pointers/__setup_blank_cell_modifiers, read_data.flush_input as "
        "coq/Model/Exn.v; NOT modelled: which exception inner code raises on which input (search only), the read-card "
        "queue (C20: Model/ReadQ.v), exception chaining, warnings filters",
        "oracle of the search: harness/spec.py (independent MCNP reader) for 'does not misrepresent the file'; "
        "'raised deliberately' = the innermost traceback frame is a raise statement in montepy's source",
        f"vm_compute cross-check of {nx} model requests",
    ]
    assumptions = [
        "PARTIAL: the theorems cover routing (every class, every chain, any number of inputs); which exceptions the "
        "inner Python code raises on a corrupted file is explored by the corruption search only",
        "the conservative call graph of the translator resolves calls by name; raise / primitive-operation rows are an "
        "over-approximation of what each site can reach",
        "definitely malformed = object number not a positive integer, negative material number, dangling surface / "
        "cell / material / transform reference, duplicate cell / surface number (rules MontePy documents an error type for)",
    ]
    marks["total"] = round(time.time() - t_start, 1)
    extra["wall_marks_s"] = marks
    return ctx.finish(tb, assumptions,
                      "cases = every class of the generated hierarchy injected at every routing site (normal and check "
                      "mode) + single corruptions (delete/duplicate/replace/junk/truncate/negate/zero/de-integerise/dangle/"
                      "duplicate-number at token positions; drop block/blank line, read card to a missing file / itself / "
                      "a cycle, only a title, empty) of generated well-formed problems; distinct = distinct (corruption "
                      "kind, token role, replacement, read outcome, check outcome); every case is non-trivial (one "
                      "corruption or one injection)",
                      extra=extra)


def cli_probe(ctx, pool):
    """`python -m montepy -c <file>` as a real subprocess on a handful of files: exits 0 and prints warnings for
    malformed files whose read raises a documented error (the in-process `cli` mode covers the rest)"""
    import vlib
    import tempfile
    out = {"runs": 0, "exit_nonzero": 0}
    files = [
        ("good.i", INJECT_FILE, 0),
        ("badsurf.i", INJECT_FILE.replace("1 0 -1 2 imp", "1 0 -1 9 imp"), 0),     # BrokenObjectLinkError -> warning
        ("badparse.i", INJECT_FILE.replace("2 px 1", "2 px"), 0),                    # ParsingError -> warning
        ("dupcell.i", INJECT_FILE.replace("2 0 1 -2 3", "1 0 1 -2 3"), 0),           # NumberConflictError -> warning
    ]
    d = tempfile.mkdtemp(prefix="C13-cli-")
    try:
        for name, text, want in files:
            p = os.path.join(d, name)
            with open(p, "w") as fh:
                fh.write(text)
            env = dict(os.environ, PYTHONPATH=vlib.REPO, PYTHONHASHSEED="0")
            try:
                pr = subprocess.run(["/venv/bin/python", "-m", "montepy", "-c", p], env=env, cwd=d,
                                    stdout=subprocess.PIPE, stderr=subprocess.PIPE, text=True, timeout=ALARM_S * 3)
                rc, err = pr.returncode, pr.stderr
            except subprocess.TimeoutExpired:
                rc, err = -9, "timeout"
            out["runs"] += 1
            ctx.count_case(("cli", name, rc), nontrivial=True)
            if rc != want:
                out["exit_nonzero"] += 1
                last = [l for l in err.strip().split("\n") if l.strip()][-1:] or [""]
                rec = {"kind": "cli-exit", "sig": "cli-exit:" + last[0].split(":")[0], "text": text, "name": name,
                       "failure": {"kind": "cli-exit", "mode": "cli-subprocess", "rc": rc, "stderr_tail": err[-600:]},
                       "iso": None, "corr": None, "files": None}
                ctx.fail(rec)
            elif name != "good.i" and "Warning" not in err:
                rec = {"kind": "cli-silent", "sig": "cli-silent", "text": text, "name": name,
                       "failure": {"kind": "cli-silent", "mode": "cli-subprocess", "rc": rc, "stderr_tail": err[-600:]},
                       "iso": None, "corr": None, "files": None}
                ctx.fail(rec)
    finally:
        import shutil
        shutil.rmtree(d, ignore_errors=True)
    return out


if __name__ == "__main__":
    if "--worker" in sys.argv:
        worker_main()
        sys.exit(0)
