"""C13 — bad input fails in a controlled way: a deliberate error, never a leak or hang.

Obligations: coq/Properties/C13.v over coq/Model/Exn.v (exception routing of MCNP_Object.__init__,
parse_input, __update_internal_pointers, Cells.update_pointers, check mode) instantiated on
coq/Gen/Errors.v, which harness/translate_errors.py regenerates from the source on every run.

Correspondence (injection): for every routing site of Gen/Errors.v the anchor call of the real code is
monkeypatched to raise each exception class of the generated hierarchy; the observed outcome of
read_input / parse_input(check_input=True) (exception class / warning / return) is compared with the
model's `route`.

Search / oracle: well-formed generated files (harness/gen.py) + exactly one corruption (DESIGN.md §5.5),
read in a pool of worker subprocesses with a per-case alarm; the oracle is the property text:
 * read_input raises a documented error type, or a ValueError/TypeError raised by a `raise` statement of
   MontePy itself, or a FileNotFoundError, with a non-empty message; or
 * it returns a problem whose summary equals what the independent reader (harness/spec.py) reads from the
   corrupted file, and the file is not definitely malformed (object number not a positive integer,
   dangling reference, duplicate number);
 * it does so within the alarm;
 * parse_input(check_input=True) / `python -m montepy -c` return with warnings whenever read_input raised
   a controlled error.

Run as a script (`python C13.py --worker`) this file is the worker process.
"""
import ast
import json
import os
import random
import re
import select
import signal
import subprocess
import sys
import time
import traceback
import warnings

HERE = os.path.dirname(os.path.abspath(__file__))
HARNESS = os.path.dirname(HERE)
if HARNESS not in sys.path:
    sys.path.insert(0, HARNESS)

ALARM_S = 10

DOCUMENTED = ("MalformedInputError", "NumberConflictError", "UnsupportedFeature", "UnknownElement")
EXPLICIT = ("ValueError", "TypeError")


# =========================================================================================== worker
class _Alarm(BaseException):
    pass


def _on_alarm(signum, frame):
    raise _Alarm()


_RAISE_LINES = {}


def _raise_lines(filename):
    """line numbers of a source file that are inside a `raise` statement"""
    if filename not in _RAISE_LINES:
        s = set()
        try:
            with open(filename) as fh:
                tree = ast.parse(fh.read())
            for n in ast.walk(tree):
                if isinstance(n, ast.Raise):
                    s.update(range(n.lineno, (n.end_lineno or n.lineno) + 1))
        except Exception:
            pass
        _RAISE_LINES[filename] = s
    return _RAISE_LINES[filename]


def describe_exception(e):
    """class, ancestry, message and whether the innermost frame is a `raise` statement of MontePy"""
    import montepy
    root = os.path.dirname(os.path.abspath(montepy.__file__))
    tb = e.__traceback__
    last = None
    while tb is not None:
        last = tb
        tb = tb.tb_next
    where = ""
    deliberate = False
    func = ""
    if last is not None:
        fn = os.path.abspath(last.tb_frame.f_code.co_filename)
        ln = last.tb_lineno
        func = last.tb_frame.f_code.co_name
        inside = fn.startswith(root + os.sep)
        where = (os.path.relpath(fn, os.path.dirname(root)) if inside else fn) + ":" + str(ln)
        deliberate = inside and ln in _raise_lines(fn)
    try:
        msg = str(e)
    except Exception as e2:      # pragma: no cover
        msg = ""
    return {
        "out": "raise", "cls": type(e).__name__, "module": type(e).__module__,
        "mro": [c.__name__ for c in type(e).__mro__], "msg": msg[:400], "msg_empty": not msg.strip(),
        "deliberate": deliberate, "where": where, "func": func,
    }


def _geom(hs):
    from montepy.surfaces.half_space import UnitHalfSpace
    from montepy.geometry_operators import Operator
    if hs is None:
        return None
    if isinstance(hs, UnitHalfSpace):
        d = hs.divider
        n = d if isinstance(d, int) else d.number
        if hs.is_cell:
            # a complement leaf: the enclosing node carries the '#'
            return ["cellref", n]
        return ["leaf", 1 if hs.side else -1, n]
    op = hs.operator
    if op == Operator.COMPLEMENT:
        inner = _geom(hs.left)
        if inner and inner[0] == "cellref":
            return ["cell", inner[1]]
        return ["not", inner]
    if op == Operator._SHIFT:
        return _geom(hs.left)
    a = _geom(hs.left)
    b = _geom(hs.right)
    return ["and" if op == Operator.INTERSECTION else "or", a, b]


def _num(x):
    """a number as an exact string (no float compared as float)"""
    if x is None:
        return None
    if isinstance(x, bool):
        return str(x)
    if isinstance(x, int):
        return str(x)
    if isinstance(x, float):
        return x.hex()
    return str(x)


def summarize(pr):
    """the facts of a problem the oracle compares with the independent reading of the file"""
    out = {"title": pr.title.title if pr.title is not None else None,
           "message": list(pr.message.lines) if pr.message is not None else None}
    cells = []
    for c in pr.cells:
        d = {"number": c.number, "old_number": c.old_number}
        try:
            d["material"] = c.material.number if c.material is not None else 0
        except Exception as e:
            d["material"] = "error:" + type(e).__name__
        d["old_mat"] = c.old_mat_number
        try:
            dens = c._density_node.value
            d["density"] = _num(dens)
            d["atom_dens"] = getattr(c, "_is_atom_dens", None)
        except Exception as e:
            d["density"] = "error:" + type(e).__name__
        try:
            d["geom"] = _geom(c.geometry)
        except Exception as e:
            d["geom"] = "error:" + type(e).__name__
        try:
            d["universe"] = c.universe.number if c.universe is not None else None
        except Exception as e:
            d["universe"] = "error:" + type(e).__name__
        try:
            f = c.fill
            d["fill"] = f.universe.number if f is not None and f.universe is not None else None
        except Exception as e:
            d["fill"] = "error:" + type(e).__name__
        try:
            d["volume"] = _num(c.volume) if c.volume_is_set else None
        except Exception as e:
            d["volume"] = "error:" + type(e).__name__
        try:
            imp = {}
            for p in pr.mode.particles:
                imp[p.value.lower()] = _num(getattr(c.importance, p.name.lower()))
            d["imp"] = imp
        except Exception as e:
            d["imp"] = "error:" + type(e).__name__
        cells.append(d)
    out["cells"] = cells
    surfs = []
    for s in pr.surfaces:
        d = {"number": s.number}
        try:
            st = s.surface_type
            d["type"] = st.value if hasattr(st, "value") else str(st)
            d["constants"] = [_num(x) for x in s.surface_constants]
            d["reflecting"] = bool(s.is_reflecting)
            d["white"] = bool(s.is_white_boundary)
            d["transform"] = s.transform.number if s.transform is not None else None
            d["periodic"] = s.periodic_surface.number if s.periodic_surface is not None else None
        except Exception as e:
            d["error"] = type(e).__name__
        surfs.append(d)
    out["surfaces"] = surfs
    data = []
    for di in pr.data_inputs:
        try:
            data.append(str(di.classifier.format() if hasattr(di, "classifier") else type(di).__name__).strip().lower())
        except Exception as e:
            data.append("error:" + type(e).__name__)
    out["data"] = data
    try:
        out["mode"] = sorted(p.value.lower() for p in pr.mode.particles)
    except Exception as e:
        out["mode"] = "error:" + type(e).__name__
    out["materials"] = [m.number for m in pr.materials]
    out["transforms"] = [t.number for t in pr.transforms]
    return out


def _guarded(fn):
    """run fn() under the alarm; -> result dict"""
    old = signal.signal(signal.SIGALRM, _on_alarm)
    signal.setitimer(signal.ITIMER_REAL, ALARM_S)
    t0 = time.time()
    try:
        with warnings.catch_warnings(record=True) as w:
            warnings.simplefilter("always")
            r = fn()
        signal.setitimer(signal.ITIMER_REAL, 0)
        r = dict(r or {})
        r.setdefault("out", "ok")
        r["warnings"] = [str(x.message)[:160] for x in w[:40]]
        r["nwarn"] = len(w)
    except _Alarm:
        r = {"out": "hang"}
    except BaseException as e:
        signal.setitimer(signal.ITIMER_REAL, 0)
        try:
            r = describe_exception(e)
        except _Alarm:
            r = {"out": "hang"}
    finally:
        signal.setitimer(signal.ITIMER_REAL, 0)
        signal.signal(signal.SIGALRM, old)
    r["t"] = round(time.time() - t0, 3)
    return r


def do_read(path, want_summary=True):
    import montepy

    def f():
        pr = montepy.read_input(path)
        if not want_summary:
            return {}
        try:
            return {"summary": summarize(pr)}
        except _Alarm:
            raise
        except Exception as e:
            return {"summary": None, "summary_error": type(e).__name__ + ": " + str(e)[:200]}
    return _guarded(f)


def do_check(path):
    import montepy

    def f():
        pr = montepy.MCNP_Problem(path)
        pr.parse_input(check_input=True)
        return {}
    return _guarded(f)


def do_cli(path):
    """the code path of `python -m montepy -c <path>` inside this process"""
    import io
    import contextlib
    import montepy.__main__ as M

    def f():
        old = sys.argv
        sys.argv = ["montepy", "-c", path]
        try:
            with contextlib.redirect_stdout(io.StringIO()):
                M.main()
        finally:
            sys.argv = old
        return {}
    return _guarded(f)


def worker_main():
    # all scratch output stays quiet; one JSON answer per JSON request line
    sys.stdout.reconfigure(line_buffering=True)
    import montepy  # noqa: F401  (import once)
    out = sys.stdout
    for line in sys.stdin:
        line = line.strip()
        if not line:
            continue
        req = json.loads(line)
        res = {}
        try:
            for m in req["modes"]:
                if m == "read":
                    res[m] = do_read(req["path"], req.get("summary", True))
                elif m == "check":
                    res[m] = do_check(req["path"])
                elif m == "cli":
                    res[m] = do_cli(req["path"])
                elif m == "inject":
                    res[m] = do_inject(req)
        except BaseException as e:      # the worker itself must never die silently
            res["worker_error"] = type(e).__name__ + ": " + str(e)[:300]
        out.write(json.dumps({"id": req.get("id"), "res": res}) + "\n")
        out.flush()



# =========================================================================================== pool
class Pool:
    """up to 4 persistent worker processes; a worker that does not answer in time is killed (= hang)"""

    def __init__(self, n=4, repo=None):
        import vlib
        self.n = n
        self.repo = repo or vlib.REPO
        self.root = "/tmp/C13-%d" % os.getpid()
        os.makedirs(self.root, exist_ok=True)
        self.procs = [None] * n
        self.restarts = 0

    def _spawn(self, k):
        env = dict(os.environ, PYTHONPATH=self.repo + ":" + HARNESS, PYTHONHASHSEED="0",
                   PYTHONDONTWRITEBYTECODE="1")
        d = os.path.join(self.root, "w%d" % k)
        os.makedirs(d, exist_ok=True)
        p = subprocess.Popen(["/venv/bin/python", os.path.abspath(__file__), "--worker"], cwd=d, env=env,
                             stdin=subprocess.PIPE, stdout=subprocess.PIPE, stderr=subprocess.DEVNULL,
                             text=True, bufsize=1)
        self.procs[k] = p
        return p

    def _kill(self, k):
        p = self.procs[k]
        if p is not None:
            try:
                p.kill()
                p.wait(timeout=5)
            except Exception:
                pass
        self.procs[k] = None

    def close(self):
        for k in range(self.n):
            self._kill(k)
        import shutil
        shutil.rmtree(self.root, ignore_errors=True)

    def run(self, tasks, deadline=None):
        """tasks: list of dict(text, name, modes, files={name: text}); -> list of res dicts (None = not run)"""
        import threading
        results = [None] * len(tasks)
        nxt = [0]
        lock = threading.Lock()

        def loop(k):
            while True:
                with lock:
                    i = nxt[0]
                    if i >= len(tasks) or (deadline is not None and time.time() > deadline):
                        return
                    nxt[0] += 1
                results[i] = self._one(k, tasks[i])

        ths = [threading.Thread(target=loop, args=(k,)) for k in range(self.n)]
        for t in ths:
            t.start()
        for t in ths:
            t.join()
        return results

    def _one(self, k, task):
        p = self.procs[k]
        if p is None or p.poll() is not None:
            p = self._spawn(k)
        d = os.path.join(self.root, "w%d" % k)
        name = task.get("name", "case.i")
        path = os.path.join(d, name)
        with open(path, "w", newline="", encoding="utf-8", errors="surrogateescape") as f:
            f.write(task["text"])
        for fn, tx in (task.get("files") or {}).items():
            with open(os.path.join(d, fn), "w", newline="") as f:
                f.write(tx)
        req = dict(task.get("req") or {}, id=0, path=path, modes=task["modes"])
        budget = (ALARM_S + 4) * len(task["modes"]) + 5
        try:
            p.stdin.write(json.dumps(req) + "\n")
            p.stdin.flush()
            r, _, _ = select.select([p.stdout], [], [], budget)
            if not r:
                self._kill(k)
                self.restarts += 1
                return {m: {"out": "hang", "killed": True} for m in task["modes"]}
            line = p.stdout.readline()
            if not line:
                self._kill(k)
                self.restarts += 1
                return {m: {"out": "worker-died"} for m in task["modes"]}
            return json.loads(line)["res"]
        except (BrokenPipeError, OSError, ValueError) as e:
            self._kill(k)
            self.restarts += 1
            return {m: {"out": "worker-died", "detail": str(e)[:100]} for m in task["modes"]}


def run_fresh(text, modes=("read",), name="case.i", files=None, repo=None):
    """one case in a brand-new worker process (confirmation of a failure, replays)"""
    pool = Pool(1, repo=repo)
    try:
        return pool.run([{"text": text, "name": name, "modes": list(modes), "files": files}])[0]
    finally:
        pool.close()


# =========================================================================================== scanner
_TOK = {0: re.compile(r"[()=:#]|[^\s()=:#]+"), 1: re.compile(r"\S+"), 2: re.compile(r"[()=]|[^\s()=]+")}
_INT = re.compile(r"^[+-]?\d+$")
_NUMBER = re.compile(r"^[+-]?(\d+\.?\d*|\.\d+)([eEdD]?[+-]?\d+)?$")


def _is_comment(line):
    return re.match(r"^ {0,4}[cC]( |$)", line) is not None


def scan(text):
    """tokens of the three blocks of a file with positions and roles.
    -> (tokens, info)   token: dict(line, c0, c1, text, block, card, idx, role)
       info: dict(first_line (index of the first line after the title), blanks [line indices of block-ending blank lines],
                  cards [(block, first line, last line)])"""
    lines = text.split("\n")
    i = 0
    if lines and lines[0].upper().startswith("MESSAGE:"):
        while i < len(lines) and lines[i].strip():
            i += 1
        i += 1
    i += 1     # title
    info = {"first_line": i, "blanks": [], "cards": [], "title_line": i - 1}
    toks = []
    block = 0
    card = -1
    idx = 0
    amp = False
    state = {}
    while i < len(lines) and block < 3:
        raw = lines[i].rstrip("\r")
        if not raw.strip():
            info["blanks"].append(i)
            block += 1
            amp = False
            card = -1
            i += 1
            continue
        if _is_comment(raw):
            i += 1
            continue
        data = raw.split("$", 1)[0]
        new = bool(data[:5].strip()) and not amp and "\t" not in data[:5]
        if "\t" in data[:5]:
            new = bool(data.expandtabs(8)[:5].strip()) and not amp
        if new or card < 0:
            card = len(info["cards"])
            info["cards"].append([block, i, i])
            idx = 0
            state = {"phase": "start"}
        else:
            info["cards"][card][2] = i
        amp = data.rstrip().endswith("&")
        for m in _TOK[block].finditer(data):
            t = m.group(0)
            if t == "&" and m.end() == len(data.rstrip()):
                role = "amp"
            else:
                role = _role(block, idx, t, state)
            toks.append({"line": i, "c0": m.start(), "c1": m.end(), "text": t, "block": block, "card": card,
                         "idx": idx, "role": role})
            idx += 1
        i += 1
    return toks, info


def _role(block, idx, t, st):
    num = _NUMBER.match(t) is not None
    if block == 0:
        if idx == 0:
            return "cellnum"
        if idx == 1:
            st["mat"] = t
            st["phase"] = "dens" if (num and t.strip("+-0.") != "") else "geom"
            if not num:
                st["phase"] = "geom"
            return "matnum"
        if st["phase"] == "dens":
            st["phase"] = "geom"
            return "density"
        if st["phase"] == "geom":
            if t in "():#":
                st["prev"] = t
                return "geomop"
            if num or re.match(r"^[+-]?[\d.]", t):
                r = "cellref" if st.get("prev") == "#" else "surfref"
                st["prev"] = t
                return r
            st["phase"] = "params"
        # parameters
        if t == "=":
            return "eq"
        if t in "():":
            return "pop"
        if re.match(r"^[*]?[A-Za-z]", t) and not re.match(r"^\d*[rRiIjJmM]$", t) and st.get("after_colon") is None:
            st["key"] = t.lower().lstrip("*")
            return "key"
        return "pval:" + re.sub(r"\d+$", "", st.get("key", "?"))
    if block == 1:
        if idx == 0:
            return "surfnum"
        if "mn" not in st:
            if re.match(r"^[+-]?\d+$", t):
                return "perref" if t.startswith("-") else "trref"
            st["mn"] = t.lower()
            return "mnemonic"
        return "const"
    if idx == 0:
        st["word"] = re.sub(r"[\d:].*$", "", t.lower().lstrip("*+"))
        return "dataword"
    if t in "()=":
        return "dop"
    return "dval:" + st.get("word", "?")


# =========================================================================================== corruptions
JUNK = ["&", "#", "$", "*", "(", ")", ":", "=", ",", ".", "+", "-", "!", "?", "a", "z", "E", "x", "0", "7",
        "\u00e9", "\u00b0"]
REPLACEMENTS = ["0", "-1", "1.5", "j", "2r", "3i", "1e", "x", "zz9", "(", ")", ":", "#", "=", "like", "but",
                "imp:n", "u=2", "*", "1-2", "--1", ".", "1.2.3", "99999999999999999999", "1e999", "fill", "so",
                "m", "tr", "n", "1e-3"]
TOKEN_KINDS = ["delete", "duplicate", "replace", "junk", "truncate", "negate", "zero", "deint", "dangle", "dupnum"]
FILE_KINDS = ["drop_block", "drop_blank", "read_missing", "read_self", "only_title", "empty"]
REF_ROLES = ("surfref", "cellref", "matnum", "trref", "perref", "pval:fill", "dval:fill")
NUM_ROLES = ("cellnum", "surfnum", "dataword")


def _edit(text, tok, new, whole_rest=False):
    lines = text.split("\n")
    l = lines[tok["line"]]
    eol = "\r" if l.endswith("\r") else ""
    if whole_rest:
        lines[tok["line"]] = l[:tok["c0"]] + new + eol
    else:
        lines[tok["line"]] = l[:tok["c0"]] + new + l[tok["c1"]:]
    return "\n".join(lines)


def applicable(tok, toks):
    """corruption kinds that make sense at this token"""
    t = tok["text"]
    ks = ["delete", "duplicate", "replace", "junk", "truncate"]
    if _NUMBER.match(t):
        ks += ["negate", "zero"]
        if _INT.match(t):
            ks.append("deint")
    if tok["role"] in REF_ROLES and _INT.match(t) and t.strip("+-0") != "":
        ks.append("dangle")
    if tok["role"] in ("cellnum", "surfnum") or (tok["role"] == "dataword" and re.match(r"^[*+]?(m|tr)\d+$", t.lower())):
        ks.append("dupnum")
    return ks


def corrupt(text, toks, tok, kind, rng):
    """-> (new text, descriptor) or None when the corruption is not applicable / changes nothing"""
    t = tok["text"]
    d = {"kind": kind, "line": tok["line"], "col": tok["c0"], "tok": t, "role": tok["role"], "block": tok["block"],
         "card": tok["card"], "idx": tok["idx"]}
    if kind == "delete":
        new = _edit(text, tok, "")
    elif kind == "duplicate":
        new = _edit(text, tok, t + " " + t)
    elif kind == "replace":
        pool = REPLACEMENTS + [x["text"] for x in toks[:: max(1, len(toks) // 12)]]
        r = rng.choice(pool)
        if r == t:
            return None
        d["repl"] = r
        new = _edit(text, tok, r)
    elif kind == "junk":
        ch = rng.choice(JUNK)
        pos = rng.choice([0, len(t) // 2, len(t)])
        d["repl"] = t[:pos] + ch + t[pos:]
        d["junk"] = ch
        d["pos"] = pos
        new = _edit(text, tok, d["repl"])
    elif kind == "truncate":
        cut = rng.choice([0, 0, max(1, len(t) // 2)]) if len(t) > 1 else 0
        d["cut"] = cut
        new = _edit(text, tok, t[:cut], whole_rest=True)
    elif kind == "negate":
        r = t[1:] if t[0] == "-" else ("-" + t.lstrip("+"))
        d["repl"] = r
        new = _edit(text, tok, r)
    elif kind == "zero":
        if t.strip("+-") == "0":
            return None
        d["repl"] = "0"
        new = _edit(text, tok, "0")
    elif kind == "deint":
        r = t + rng.choice([".5", ".25", ".0001"])
        d["repl"] = r
        new = _edit(text, tok, r)
    elif kind == "dangle":
        used = {x["text"].lstrip("+-*") for x in toks}
        n = rng.choice([987, 4321, 77777])
        while str(n) in used:
            n += 1
        r = ("-" if t.startswith("-") else "") + str(n)
        d["repl"] = r
        new = _edit(text, tok, r)
    elif kind == "dupnum":
        same = [x for x in toks if x["role"] == tok["role"] and x["card"] != tok["card"] and x["idx"] == 0]
        if tok["role"] == "dataword":
            pre = re.match(r"^([*+]?[a-zA-Z]+)", t).group(1).lower()
            same = [x for x in same if x["text"].lower().startswith(pre) and re.match(r"^[*+]?[a-zA-Z]+\d+$", x["text"])
                    and not x["text"].lower().startswith("mt")]
            if pre.lstrip("*+") == "m":
                same = [x for x in same if re.match(r"^m\d+$", x["text"].lower())]
        if not same:
            return None
        o = rng.choice(same)["text"]
        if tok["role"] == "surfnum":
            o = o.lstrip("*+")
        if o == t:
            return None
        d["repl"] = o
        new = _edit(text, tok, o)
    else:
        raise ValueError(kind)
    if new == text:
        return None
    return new, d


def file_corruptions(text, info, rng, name="case.i"):
    """whole-file corruptions: -> list of (new text, descriptor, extra files)"""
    lines = text.split("\n")
    out = []
    blanks = info["blanks"]
    # drop a block (its cards and its terminating blank line)
    starts = [info["first_line"]] + [b + 1 for b in blanks]
    for k in range(min(3, len(blanks))):
        new = lines[:starts[k]] + lines[blanks[k] + 1:]
        out.append(("\n".join(new), {"kind": "drop_block", "block": k}, None))
    for k, b in enumerate(blanks):
        new = lines[:b] + lines[b + 1:]
        out.append(("\n".join(new), {"kind": "drop_blank", "block": k}, None))
    # read cards: in the data block (or at the start of the cell block)
    for where in ("data", "cell"):
        at = (blanks[1] + 1) if (where == "data" and len(blanks) >= 2) else info["first_line"]
        for kind, target in (("read_missing", "no_such_file_c13.i"), ("read_self", name)):
            new = lines[:at] + ["read file=" + target] + lines[at:]
            out.append(("\n".join(new), {"kind": kind, "where": where, "target": target}, None))
    out.append((lines[info["title_line"]] + "\n", {"kind": "only_title"}, None))
    out.append(("", {"kind": "empty"}, None))
    return out



# =========================================================================================== oracle
SURF_COUNTS = None


def _surf_types():
    import gen
    return set(k.upper() for k in gen.SURF_TYPES) | {"X", "Y", "Z", "ARB", "REC", "BOX", "RHP", "HEX", "WED", "TRC", "ELL"}


def spec_read(text):
    """What MCNP's rules (harness/spec.py, independent of MontePy) give for the file.
    -> dict(title, cells [card dict | None], surfaces [...], data [first words], invalid [definite reasons],
            unknown [reasons why part of the file could not be given a meaning by this reader])"""
    import spec
    sf = spec.split_file(text, 128)
    blocks = sf["blocks"] + [[]] * (3 - len(sf["blocks"]))
    out = {"title": sf["title"], "message": sf["message"], "invalid": [], "unknown": [], "cells": [], "surfaces": [],
           "data": []}
    inv = out["invalid"]
    for ci, card in enumerate(blocks[0]):
        toks = spec.tokens(card.text, cell_geometry=True)
        if toks and toks[0] == "READ":
            out["cells"].append(None)
            out["unknown"].append("read card")
            continue
        t0 = toks[0] if toks else ""
        if re.match(r"^[+-]?\d+$", t0):
            if int(t0) <= 0:
                inv.append(f"cell number {t0} is not a positive integer")
        elif spec.read_number(t0) is not None:
            inv.append(f"cell number {t0} is not a positive integer")
        t1 = toks[1] if len(toks) > 1 else ""
        if t1 != "LIKE" and re.match(r"^[+-]?\d+$", t0) and spec.read_number(t1) is not None and not re.match(r"^\+?\d+$", t1):
            inv.append(f"material number {t1} of cell {t0} is not a non-negative integer")
        try:
            c = spec.parse_cell(card)
        except Exception as e:
            out["cells"].append(None)
            out["unknown"].append(f"cell card {ci}: {type(e).__name__}")
            continue
        out["cells"].append(c)
    for si, card in enumerate(blocks[1]):
        toks = spec.tokens(card.text)
        if toks and toks[0] == "READ":
            out["surfaces"].append(None)
            out["unknown"].append("read card")
            continue
        t0 = toks[0] if toks else ""
        m = re.match(r"^[*+]?([+-]?\d+)$", t0)
        if m:
            if int(m.group(1)) <= 0:
                inv.append(f"surface number {t0} is not a positive integer")
        elif spec.read_number(t0.lstrip("*+")) is not None:
            inv.append(f"surface number {t0} is not a positive integer")
        try:
            sd = spec.parse_surface(card)
            if sd["mnemonic"] not in _surf_types():
                raise ValueError("mnemonic")
            if any(not hasattr(x, "numerator") for x in sd["constants"]):
                raise ValueError("constants")
        except Exception as e:
            out["surfaces"].append(None)
            out["unknown"].append(f"surface card {si}: {type(e).__name__}")
            continue
        out["surfaces"].append(sd)
    for card in blocks[2]:
        toks = spec.tokens(card.text)
        out["data"].append(toks[0].lower() if toks else "")
    # consistency (only over cards this reader could read)
    cells = [c for c in out["cells"] if c]
    surfs = [x for x in out["surfaces"] if x]
    complete = len(cells) == len(out["cells"]) and len(surfs) == len(out["surfaces"])
    cn = [c["number"] for c in cells]
    sn = [x["number"] for x in surfs]
    for n in sorted(set(x for x in cn if cn.count(x) > 1)):
        inv.append(f"cell number {n} is used twice")
    for n in sorted(set(x for x in sn if sn.count(x) > 1)):
        inv.append(f"surface number {n} is used twice")
    if complete:
        mats = set()
        trs = set()
        for w in out["data"]:
            m = re.match(r"^m(\d+)$", w)
            if m:
                mats.add(int(m.group(1)))
            m = re.match(r"^\*?tr(\d+)$", w)
            if m:
                trs.add(int(m.group(1)))
        for c in cells:
            if c["geom"] is not None:
                for kind, n in sorted(spec.geom_leaves(c["geom"])):
                    if kind == "s" and n not in sn:
                        inv.append(f"cell {c['number']} refers to missing surface {n}")
                    if kind == "c" and n not in cn:
                        inv.append(f"cell {c['number']} refers to missing cell {n}")
            if c["material"] and c["material"] not in mats and "read card" not in out["unknown"]:
                inv.append(f"cell {c['number']} refers to missing material {c['material']}")
        for x in surfs:
            p = x["pointer"]
            if p is not None and p > 0 and p not in trs and "read card" not in out["unknown"]:
                inv.append(f"surface {x['number']} refers to missing transform {p}")
            if p is not None and p < 0 and -p not in sn:
                inv.append(f"surface {x['number']} refers to missing periodic surface {-p}")
    return out


def _tup(x):
    return tuple(_tup(y) for y in x) if isinstance(x, list) else x


def _close(fr, hexs):
    """exact rational of the independent reader vs the float MontePy holds (sent as float.hex)"""
    import math
    import spec
    try:
        a = float(fr)
    except OverflowError:
        return True          # beyond binary64: no demand
    try:
        b = float.fromhex(hexs) if "0x" in hexs else float(hexs)
    except Exception:
        return False
    if math.isinf(a) or math.isinf(b) or math.isnan(b):
        return True
    return spec.close(a, b)


def _fs(x):
    try:
        return str(x)[:60]
    except ValueError:
        return "<huge>"


def misrepresentations(sp, summ):
    """differences between the problem MontePy returned and the independent reading of the same file
    (only facts both sides define)"""
    import spec
    diffs = []
    if summ is None:
        return diffs
    if (summ.get("title") or "").rstrip() != (sp["title"] or "").rstrip():
        diffs.append(("title", sp["title"], summ.get("title")))
    sc = sp["cells"]
    mc = summ["cells"]
    if "read card" in sp["unknown"]:
        return diffs
    if len(sc) != len(mc):
        diffs.append(("cell count", len(sc), len(mc)))
    else:
        for a, b in zip(sc, mc):
            if a is None:
                continue
            if a["number"] != b["number"]:
                diffs.append(("cell number", a["number"], b["number"]))
                continue
            if a["material"] != b["old_mat"]:
                diffs.append(("cell material", a["number"], a["material"], b["old_mat"]))
            if a["density"] is not None and b.get("density") not in (None,) and not str(b["density"]).startswith("error"):
                if not _close(abs(a["density"]), b["density"].lstrip("-")):
                    diffs.append(("cell density", a["number"], _fs(a["density"]), b["density"]))
                elif b.get("atom_dens") is not None and a["density"] != 0 and (a["density"] > 0) != bool(b["atom_dens"]):
                    diffs.append(("cell density sign", a["number"], _fs(a["density"]), b["atom_dens"]))
            if a["geom"] is not None and isinstance(b.get("geom"), list):
                try:
                    if not spec.geom_equal(a["geom"], _tup(b["geom"])):
                        diffs.append(("cell geometry", a["number"], str(a["geom"])[:200], str(b["geom"])[:200]))
                except Exception as e:
                    diffs.append(("cell geometry", a["number"], "uncomparable " + type(e).__name__, str(b["geom"])[:200]))
            elif a["geom"] is not None and b.get("geom") is None:
                diffs.append(("cell geometry", a["number"], str(a["geom"])[:200], None))
            pu = a["params"].get("U")
            if pu is not None and len(pu) == 1 and re.match(r"^-?\d+$", pu[0]):
                if abs(int(pu[0])) != (b.get("universe") if isinstance(b.get("universe"), int) else -1):
                    diffs.append(("cell universe", a["number"], pu[0], b.get("universe")))
            pf = a["params"].get("FILL")
            if pf is not None and len(pf) == 1 and re.match(r"^\d+$", pf[0]) and "*FILL" not in a["params"]:
                if int(pf[0]) != (b.get("fill") if isinstance(b.get("fill"), int) else (0 if b.get("fill") is None else -1)):
                    diffs.append(("cell fill", a["number"], pf[0], b.get("fill")))
    ss = sp["surfaces"]
    ms = summ["surfaces"]
    if len(ss) != len(ms):
        diffs.append(("surface count", len(ss), len(ms)))
    else:
        for a, b in zip(ss, ms):
            if a is None or "error" in b:
                continue
            if a["number"] != b["number"]:
                diffs.append(("surface number", a["number"], b["number"]))
                continue
            if a["mnemonic"] != str(b["type"]).upper():
                diffs.append(("surface type", a["number"], a["mnemonic"], b["type"]))
            if len(a["constants"]) != len(b["constants"]) or not all(_close(x, y) for x, y in zip(a["constants"], b["constants"])):
                diffs.append(("surface constants", a["number"], [_fs(x) for x in a["constants"]], b["constants"]))
            if (a["modifier"] == "*") != b["reflecting"] or (a["modifier"] == "+") != b["white"]:
                diffs.append(("surface boundary", a["number"], a["modifier"], (b["reflecting"], b["white"])))
            p = a["pointer"]
            if (p if (p or 0) > 0 else None) != b["transform"] or ((-p) if (p or 0) < 0 else None) != b["periodic"]:
                diffs.append(("surface pointer", a["number"], p, (b["transform"], b["periodic"])))
    return diffs


def allowed_exception(r):
    """the property's sentence about the exception read_input may raise -> (ok, why)"""
    mro = r.get("mro", [])
    if r.get("msg_empty"):
        return False, "empty message"
    for d in DOCUMENTED:
        if d in mro and r.get("module", "").startswith("montepy"):
            return True, "documented"
        if d in mro:
            # subclass check by name on the montepy hierarchy (module of the leaf class is montepy.errors)
            return True, "documented"
    if "FileNotFoundError" in mro:
        return True, "file-not-found"
    for d in EXPLICIT:
        if d in mro and r.get("deliberate"):
            return True, "explicit"
    return False, "leak"


def judge(case, res):
    """-> list of failures (dicts with 'kind' and a 'sig' that identifies the defect) for one executed case"""
    fails = []
    r = res.get("read") or {}
    out = r.get("out")
    controlled = False
    if out in ("hang",):
        fails.append({"kind": "hang", "sig": "hang", "mode": "read"})
    elif out in ("worker-died",):
        fails.append({"kind": "worker-died", "sig": "worker-died", "mode": "read"})
    elif out == "raise":
        ok, why = allowed_exception(r)
        if ok:
            controlled = True
        else:
            fails.append({"kind": "leak" if why == "leak" else "empty-message", "cls": r["cls"], "where": r["where"],
                          "func": r.get("func"), "deliberate": r.get("deliberate"), "msg": r.get("msg", "")[:200],
                          "sig": "%s:%s:%s" % (why, r["cls"], r.get("func")), "mode": "read"})
    elif out == "ok":
        sp = spec_read(case["text"])
        if sp["invalid"]:
            fails.append({"kind": "accepted-malformed", "reasons": sp["invalid"][:3], "mode": "read",
                          "sig": "accepted:" + re.sub(r"-?\d+(\.\d+)?", "N", sp["invalid"][0])})
        else:
            if r.get("summary") is None:
                fails.append({"kind": "unsummarisable", "detail": r.get("summary_error"), "sig": "unsummarisable",
                              "mode": "read"})
            diffs = misrepresentations(sp, r.get("summary"))
            if diffs:
                fails.append({"kind": "misrepresents", "diffs": [[_fs(x) for x in d] for d in diffs[:3]], "mode": "read",
                              "sig": "misrepresents:" + diffs[0][0]})
    # check mode: the same conditions are warnings and the call returns
    for mode in ("check", "cli"):
        c = res.get(mode)
        if not c:
            continue
        if c.get("out") == "hang":
            if not any(f["kind"] == "hang" for f in fails):
                fails.append({"kind": "hang", "sig": "hang:" + mode, "mode": mode})
        elif c.get("out") == "raise" and controlled:
            fails.append({"kind": "check-raises", "cls": c["cls"], "where": c["where"], "func": c.get("func"),
                          "read_cls": r.get("cls"), "msg": c.get("msg", "")[:200], "mode": mode,
                          "sig": "check-raises:%s:%s" % (c["cls"], c.get("func"))})
        elif c.get("out") == "ok" and controlled and c.get("nwarn", 0) == 0:
            fails.append({"kind": "check-silent", "read_cls": r.get("cls"), "mode": mode,
                          "sig": "check-silent:%s" % r.get("cls")})
    return fails


if __name__ == "__main__":
    if "--worker" in sys.argv:
        worker_main()
        sys.exit(0)
