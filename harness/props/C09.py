"""C09 — per-cell data (IMP per particle, VOL, U, LAT, FILL) mean the same in either block and are written
exactly once.

Obligations: coq/Properties/C09.v over coq/Model/Place.v (CellDataPrintController, CellModifierInput and its five
subclasses, Cells.update_pointers/_run_children_format_for_mcnp, the parameter loop of Cell.format_for_mcnp_input,
write_to_file's order of data inputs / children / terminator).
Correspondence: a generated problem (per-cell data in the cell block or in the data block) is read by the real MontePy
and by the model; all 32 assignments of print_in_data_block x a short program (cell append / deepcopy / remove /
reorder / per-cell edits / flips) run on both; compared: per-statement outcome (exception class), the API view of every
cell, the five flags, and what the written file says where (cell card parameters, data-block vectors, order of the data
block), the real file being read back by the independent reader spec.py.
Oracle (independent of the model): in the written file every datum appears exactly once, in one block only, vectors
have one entry per cell in cell order (trailing defaults may be omitted), nothing after the data block's terminator,
values equal the API's; re-reading the written file with MontePy gives the same per-cell values; the per-cell values
MontePy reports right after reading the generated input are the ones the independent reader gives the input
(cell parameter, else i-th entry of the data-block vector, else the default): either block means the same.
"""
import copy
import itertools
import json
import os
import random
import re
import time
import warnings
from fractions import Fraction

import vlib
import spec
import gen
import mp

CLASSES = ["imp", "vol", "u", "lat", "fill"]
CL = {"imp": "i", "vol": "v", "u": "u", "lat": "l", "fill": "f"}
CLR = {v: k for k, v in CL.items()}
PART_IDS = {"N": 0, "P": 1, "E": 2}
REFUSALS = ("ParticleTypeNotInCell", "FillComplexValueError")


def pid(letter):
    letter = letter.upper()
    if letter not in PART_IDS:
        PART_IDS[letter] = 10 + ord(letter[0])
    return PART_IDS[letter]


def pletter(i):
    for k, v in PART_IDS.items():
        if v == i:
            return k
    return chr(i - 10)


# --------------------------------------------------------------------------- values <-> opaque integers
class Table:
    """IMP/VOL values are opaque to the model: value i of the table is sent as the integer i; 0 is 0."""

    def __init__(self):
        self.vals = [0.0]

    def id(self, x):
        x = float(x)
        for i, v in enumerate(self.vals):
            if v == x or abs(v - x) <= 1e-9 * max(abs(v), abs(x)):
                return i
        self.vals.append(x)
        return len(self.vals) - 1


def num(tok):
    f = spec.read_number(tok)
    if f is None:
        raise ValueError("not a number: %r" % (tok,))
    return f


# --------------------------------------------------------------------------- the file, as the independent reader sees it
def imp_key_particles(key):
    """'IMP:N,P' -> [0, 1]"""
    m = re.match(r"^IMP:([A-Z|,#/+\-!<>@*?%^_~]+)$", key)
    if not m:
        return None
    return [pid(x) for x in m.group(1).split(",") if x]


def cell_data_of(card):
    """per-cell data on one cell card -> dict(num, imp=[(parts, tok)], vol, u, lat, fill, tr, extra=[...])"""
    c = spec.parse_cell(card)
    out = {"num": c["number"], "imp": [], "vol": [], "u": [], "lat": [], "fill": [], "tr": False}
    for key, vals in c["params"].items():
        K = key.lstrip("*")
        if K.startswith("IMP:"):
            ps = imp_key_particles(K)
            if ps is None:
                out["bad_imp_key"] = [key, card.text[:160]]     # e.g. 'imp:=0.5': no particle at all
                ps = []
            out["imp"].append((ps, list(vals)))
        elif K == "VOL":
            out["vol"].append(list(vals))
        elif K == "U":
            out["u"].append(list(vals))
        elif K == "LAT":
            out["lat"].append(list(vals))
        elif K == "FILL":
            out["fill"].append(list(vals))
            if "(" in vals:
                out["tr"] = True
        elif K == "NONE":
            # the four letters None written as a value: spec reads a new keyword; attach to LAT below
            out.setdefault("none_literal", True)
    return out


def data_item_of(card):
    """a data-block card -> ('o',) or (cls, particles|None, [Fraction|'J', ...])"""
    toks = spec.tokens(card.text)
    if not toks:
        return ("o",)
    head = toks[0].lstrip("*")
    if re.match(r"^MT\d+$", head):
        return None                       # an MT card belongs to its material: MontePy writes it after the M card
    k = None
    ps = None
    if head.startswith("IMP:"):
        ps = imp_key_particles(head)
        if ps is not None:
            k = "imp"
    elif head in ("VOL", "U", "LAT", "FILL"):
        k = head.lower()
    if k is None:
        return ("o",)
    body = toks[1:]
    if k == "vol" and body and body[0] == "NO":
        body = body[1:]
    vec = spec.expand_shortcuts(body)
    return (k, ps, vec)


def describe(text):
    """-> (mode ids, [cell dicts], [data items], n) from the text, by spec.py only"""
    sp = spec.split_file(text)
    blocks = sp["blocks"] + [[]] * (3 - len(sp["blocks"]))
    cells = [cell_data_of(c) for c in blocks[0]]
    data = [d for d in (data_item_of(c) for c in blocks[2]) if d is not None]
    mode = [0]
    for c in blocks[2]:
        t = spec.tokens(c.text)
        if t and t[0] == "MODE":
            mode = [pid(x) for x in t[1:]]
    return mode, cells, data, sp


def wire_file(text, table, mode_order=None):
    mode, cells, data, _ = describe(text)
    if mode_order is not None:
        mode = mode_order
    cs = []
    for c in cells:
        imp = "|".join("%s:%d" % (".".join(map(str, ps)), table.id(num(v[0]))) for ps, v in c["imp"]) or "-"

        def one(l, conv):
            return str(conv(l[0][0])) if l and l[0] else "-"
        cs.append(";".join([str(c["num"]), imp, one(c["vol"], lambda t: table.id(num(t))),
                            one(c["u"], lambda t: abs(int(num(t)))), one(c["lat"], lambda t: int(num(t))),
                            one(c["fill"], lambda t: int(num(t))), "1" if c["tr"] else "0"]))
    ds = []
    for d in data:
        if d[0] == "o":
            ds.append("o")
        elif d[0] == "imp":
            ds.append("i:%s:%s" % (".".join(map(str, d[1])), ",".join(str(table.id(x)) for x in d[2]) or "-"))
        else:
            conv = (lambda x: table.id(x)) if d[0] == "vol" else (lambda x: abs(int(x)))
            ds.append("%s:%s" % (CL[d[0]], ",".join("j" if x == "J" else str(conv(x)) for x in d[2]) or "-"))
    return ",".join(map(str, mode)), "/".join(cs) or "-", "/".join(ds) or "-"


def wire_ops(ops, table):
    out = []
    for o in ops:
        t = o[0]
        if t == "Wr":
            continue                             # an intermediate write_to_file: no statement of the model
        if t == "F":
            out.append("F%s%d" % (CL[o[1]], 1 if o[2] else 0))
        elif t == "N":
            out.append("N%d" % o[1])
        elif t == "C":
            out.append("C%d,%d" % (o[1], o[2]))
        elif t == "A":
            out.append("A")                      # append / extend / += / append_renumber: one meaning
        elif t == "R":
            out.append("R%d" % o[1])             # remove / del / pop: one meaning
        elif t == "S":
            out.append("S%s,%d" % (o[1], table.id(Fraction(o[2]))))
        elif t == "O":
            out.append("O" + ",".join(map(str, o[1])))
        elif t == "I":
            out.append("I%s,%d,%d" % (o[1], pid(o[2]), table.id(Fraction(o[3]))))
        elif t == "X":
            out.append("X%s,%d" % (o[1], pid(o[2])))
        elif t == "V":
            out.append("V%s,%d" % (o[1], table.id(Fraction(o[2]))))
        elif t == "W":
            out.append("W%s" % o[1])
        elif t == "U":
            out.append("U%s,%d" % (o[1], o[2]))
        elif t == "L":
            out.append("L%s,%s" % (o[1], "-" if o[2] is None else o[2]))
        elif t == "G":
            out.append("G%s,%s" % (o[1], "-" if o[2] is None else o[2]))
        else:
            raise ValueError(o)
    return "/".join(out) or "-"


def request_of(case, table=None, mode_order=None):
    table = table or Table()
    m, cs, ds = wire_file(case["text"], table, mode_order)
    return "%s %s %s %s" % (m, cs, ds, wire_ops(case["ops"], table)), table


# --------------------------------------------------------------------------- the model's answer, structured
def parse_answer(ans):
    """-> dict(read_error | oplog, api, flags, write_error | cards, data, events, diag)"""
    if ans.startswith("R"):
        return {"read_error": ans[1:]}
    f = ans.split(" ")
    if len(f) != 6:
        return {"garbled": ans}
    oplog = [] if f[0] == "-" else [None if x == "k" else x[1:] for x in f[0].split(",")]
    api = []
    if f[1] != "-":
        for c in f[1].split("/"):
            n, imp, vol, u, lat, fill = c.split(";")
            api.append((int(n), tuple(sorted((int(a), int(b)) for a, b in (x.split(":") for x in imp.split(".") if x != "-"))),
                        None if vol == "-" else int(vol), None if u == "-" else int(u),
                        None if lat == "-" else int(lat), None if fill == "-" else int(fill)))
    flags = {CLR[f[2][i]]: f[2][i + 1] == "1" for i in range(0, 10, 2)}
    out = {"oplog": oplog, "api": api, "flags": flags, "events": f[4], "diag": "" if f[5] == "-" else f[5]}
    if f[3].startswith("E"):
        out["write_error"] = f[3][1:]
        return out
    cs, ds = f[3].split("#")
    cards = []
    if cs != "-":
        for c in cs.split("/"):
            n, es = c.split(";")
            ent = []
            if es != "-":
                for e in es.split("|"):
                    p = e.split(":")
                    if p[0] == "i":
                        ent.append(("imp", tuple(sorted(int(x) for x in p[1].split(".") if x != "-")), int(p[2])))
                    else:
                        ent.append((CLR[p[0]], "N" if p[1] == "N" else int(p[1])))
            cards.append((int(n), tuple(sorted(ent, key=repr))))
    data = []
    if ds != "-":
        for d in ds.split("/"):
            if d == "o":
                data.append("o")
            else:
                k = CLR[d[1]]
                cc = []
                body = d[3:]
                if body != "-":
                    for c in body.split("|"):
                        q, vec = c.split(":")
                        cc.append((None if q == "-" else int(q),
                                   tuple(None if x == "j" else int(x) for x in vec.split(",")) if vec != "-" else ()))
                data.append((k, tuple(sorted(cc, key=repr))))
    out["cards"] = cards
    out["data"] = data
    return out


# --------------------------------------------------------------------------- the real MontePy
def _particle(letter):
    from montepy.particle import Particle
    return Particle(letter.upper())


def _universe(pr, n):
    import montepy
    try:
        return pr.universes[n]
    except KeyError:
        u = montepy.Universe(n)
        pr.universes.append(u)
        return u


def exc_class(e):
    n = type(e).__name__
    if n == "ValueError" and "Fill can not be in the data block" in str(e):
        return "FillComplexValueError"
    return n


def apply_op(pr, env, o):
    """one statement of the program on the real objects; raises what MontePy raises"""
    import montepy
    from montepy.data_inputs.lattice import Lattice
    t = o[0]

    def target(x):
        if x == "s":
            return env["scratch"]
        return pr.cells[int(x)]
    if t == "F":
        pr.print_in_data_block[o[1]] = bool(o[2])
    elif t == "N":
        c = montepy.Cell()
        c.number = o[1]
        c.geometry = -next(iter(pr.surfaces))
        env["scratch"] = c
    elif t == "C":
        c = copy.deepcopy(pr.cells[o[1]])
        c.number = o[2]
        env["scratch"] = c
    elif t == "A":
        how = o[1] if len(o) > 1 else "append"
        c = env["scratch"]
        if how == "extend":
            pr.cells.extend([c])
        elif how == "iadd":
            cells = pr.cells
            cells += [c]
        elif how == "renumber":
            pr.cells.append_renumber(c)
        else:
            pr.cells.append(c)
        env["scratch"] = None
    elif t == "R":
        how = o[2] if len(o) > 2 else "remove"
        if how == "del":
            del pr.cells[o[1]]
        elif how == "pop":
            pr.cells.pop(list(pr.cells).index(pr.cells[o[1]]))
        else:
            pr.cells.remove(pr.cells[o[1]])
    elif t == "S":
        target(o[1]).importance.all = float(Fraction(o[2]))
    elif t == "Wr":
        text = write_file(pr, "c09_intermediate.i", env.get("warnings"))
        if env.get("judge_intermediate"):
            mode = real_mode(pr)
            try:
                api = api_view(pr, mode)
            except Exception:
                api = None
            env.setdefault("intermediate", []).append(
                {"out": text, "mode": mode, "api": api, "flags": {k: bool(pr.print_in_data_block[k]) for k in CLASSES}})
    elif t == "O":
        pr.cells = [pr.cells[n] for n in o[1]]
    elif t == "I":
        target(o[1]).importance[_particle(o[2])] = float(Fraction(o[3]))
    elif t == "X":
        del target(o[1]).importance[_particle(o[2])]
    elif t == "V":
        target(o[1]).volume = float(Fraction(o[2]))
    elif t == "W":
        del target(o[1]).volume
    elif t == "U":
        if len(o) > 3 and o[3] == "claim":
            _universe(pr, o[2]).claim(target(o[1]))
        else:
            target(o[1]).universe = _universe(pr, o[2])
    elif t == "L":
        target(o[1]).lattice = None if o[2] is None else Lattice(o[2])
    elif t == "G":
        target(o[1]).fill.universe = None if o[2] is None else _universe(pr, o[2])
    else:
        raise ValueError(o)


def api_view(pr, mode_ids):
    """what the API reports per cell: (num, ((particle, float)...), vol, u, lat, fill)"""
    out = []
    for c in pr.cells:
        imp = []
        for q in mode_ids:
            imp.append((q, float(c.importance[_particle(pletter(q))])))
        u = c.universe.number if c.universe is not None else None
        lat = c.lattice.value if c.lattice is not None else None
        fl = c.fill.universe.number if c.fill.universe is not None else None
        out.append((c.number, tuple(sorted(imp)), None if c.volume is None else float(c.volume), u, lat, fl))
    return out


def sign_view(pr):
    """cell number -> cell.not_truncated (the minus sign of U), for cells in a universe other than 0"""
    out = {}
    for c in pr.cells:
        if c.universe is not None and c.universe.number != 0:
            out[c.number] = bool(c.not_truncated)
    return out


def real_mode(pr):
    return [pid(p.value) for p in pr.mode.particles]


def write_file(pr, name, warn):
    """write_to_file; warn == "always": with every warning delivered (the harness otherwise writes with warnings
    ignored, which hides what MontePy does with its own LineExpansionWarning: 1eab23e)"""
    if warn != "always":
        return mp.write_problem(pr, name)
    path = os.path.join(mp.tmpdir(), name)
    with warnings.catch_warnings(record=True):
        warnings.simplefilter("always")
        pr.write_to_file(path, overwrite=True)
    with open(path, newline="") as fh:
        return fh.read()


def run_real(case, probe_first=True):
    """-> dict(read_error | oplog, api, flags, mode, write_error | out)
    probe_first=False: nothing is read from the objects between the last statement and write_to_file (a probe can
    repair or corrupt the state a defect depends on); the API view is then taken after the write"""
    try:
        pr = mp.read_problem(case["text"])
    except Exception as e:
        return {"read_error": exc_class(e)}
    env = {"scratch": None, "judge_intermediate": probe_first, "warnings": case.get("warnings")}
    log = []
    for o in case["ops"]:
        try:
            apply_op(pr, env, o)
            if o[0] != "Wr":
                log.append(None)
        except Exception as e:
            if o[0] == "Wr":
                # a refusal / crash of an intermediate write: recorded, the history goes on
                log_w = exc_class(e)
                env.setdefault("intermediate_write_errors", []).append(log_w)
            else:
                log.append(exc_class(e))
                # a per-cell data edit through the public API that raises anything but the documented refusal
                if o[0] in ("I", "S", "V", "U", "L", "G") and exc_class(e) != "ParticleTypeNotInProblem":
                    env.setdefault("bad_statements", []).append([o, exc_class(e), str(e)[:120]])
    mode = real_mode(pr)
    res = {"oplog": log, "mode": mode,
           "flags": {k: bool(pr.print_in_data_block[k]) for k in CLASSES},
           "intermediate_write_errors": env.get("intermediate_write_errors", []),
           "intermediate": env.get("intermediate", []), "bad_statements": env.get("bad_statements", [])}

    def take_api(key):
        try:
            res[key] = api_view(pr, mode)
        except Exception as e:
            res[key + "_error"] = exc_class(e)
            res[key] = None
    if probe_first:
        take_api("api")
    try:
        res["signs"] = sign_view(pr)
    except Exception:
        res["signs"] = None
    try:
        res["out"] = write_file(pr, "c09.i", case.get("warnings"))
    except Exception as e:
        res["write_error"] = exc_class(e)
        res["write_error_text"] = str(e)[:200]
    if probe_first:
        take_api("api_after_write")
    else:
        take_api("api")
    return res


def written_struct(out, table, ncells):
    """the written file, by spec.py -> (cards, data, events, problems)
    cards/data have the shape of parse_answer; problems: list of things the shape cannot express"""
    mode, cells, data, sp = describe(out)
    problems = []
    cards = []
    for c in cells:
        ent = []
        for ps, v in c["imp"]:
            if len(v) != 1:
                problems.append(("imp-values", c["num"], v))
            ent.append(("imp", tuple(sorted(ps)), table.id(num(v[0])) if v else None))
        for k in ("vol", "u", "lat", "fill"):
            for v in c[k]:
                if k == "lat" and not v and c.get("none_literal"):
                    ent.append((k, "N"))
                    continue
                if not v:
                    problems.append(("no-value", c["num"], k))
                    continue
                if len(v) != 1 and not (k == "fill" and "(" in v):
                    problems.append(("many-values", c["num"], k, v))
                x = num(v[0])
                ent.append((k, table.id(x) if k == "vol" else abs(int(x))))
        cards.append((c["num"], tuple(sorted(ent, key=repr))))
    items = []
    for d in data:
        if d[0] == "o":
            items.append("o")
            continue
        k, ps, vec = d
        if len(vec) > ncells:
            problems.append(("vector-longer-than-cells", k, len(vec), ncells))
        conv = (lambda x: table.id(x)) if k in ("imp", "vol") else (lambda x: abs(int(x)))
        v = []
        for x in vec:
            if x == "J":
                v.append(None)
            elif isinstance(x, Fraction):
                v.append(conv(x))
            else:
                problems.append(("vector-entry", k, str(x)))
                v.append(("?", str(x)))
        v += [None] * (ncells - len(v))
        cc = [(q, tuple(v)) for q in ps] if k == "imp" else [(None, tuple(v))]
        if items and items[-1] != "o" and items[-1][0] == k == "imp":
            items[-1] = (k, tuple(sorted(items[-1][1] + tuple(cc), key=repr)))
        else:
            items.append((k, tuple(sorted(cc, key=repr))))
    blocks = sp["blocks"] + [[]] * (3 - len(sp["blocks"]))
    ev = "c" * len(blocks[0]) + "b" + "s" + "b"
    for it in items:
        ev += "o" if it == "o" else "M" + CL[it[0]]
    ev += "b" if len(sp["blocks"]) == 3 else ""
    for l in sp["trailing"]:
        ev += "b" if l.strip() == "" else "X"
    return cards, items, ev, problems


def api_ids(api, table):
    if api is None:
        return None
    return [(n, tuple((q, table.id(v)) for q, v in imp), None if vol is None else table.id(vol), u, lat, fl)
            for n, imp, vol, u, lat, fl in api]


# --------------------------------------------------------------------------- correspondence
def compare(case, real, ans, table):
    """real run vs parsed model answer -> list of disagreements (empty = agree)"""
    m = parse_answer(ans)
    if "garbled" in m:
        return [("model answer", ans[:200])]
    if "read_error" in real or "read_error" in m:
        if real.get("read_error") != m.get("read_error"):
            return [("read", real.get("read_error"), m.get("read_error"))]
        return []
    dis = []
    if real["oplog"] != m["oplog"]:
        dis.append(("statement outcomes", real["oplog"], m["oplog"]))
    if real["flags"] != m["flags"]:
        dis.append(("flags", real["flags"], m["flags"]))
    ra = api_ids(real["api"], table)
    ma = [(n, imp, vol, u, lat, fl) for n, imp, vol, u, lat, fl in m["api"]]
    if ra is not None and ra != ma:
        dis.append(("api view", ra, ma))
    if "write_error" in real or "write_error" in m:
        rw = real.get("write_error")
        rw = "ValueError" if rw == "FillComplexValueError" else rw
        if rw != m.get("write_error"):
            dis.append(("write", real.get("write_error"), m.get("write_error") or "writes"))
        return dis
    cards, items, ev, problems = written_struct(real["out"], table, len(real["api"] or m["api"]))

    def per_particle(cs):
        """which particles share one IMP entry is not compared (Importance._format_tree edits the classifiers in
        place for good, so it depends on earlier writes, which the model does not keep): one entry per particle"""
        out = []
        for n_, ent in cs:
            e2 = []
            for e in ent:
                if e[0] == "imp":
                    e2 += [("imp", (q,), e[2]) for q in e[1]]
                else:
                    e2.append(e)
            out.append((n_, tuple(sorted(e2, key=repr))))
        return out
    if per_particle(cards) != per_particle(m["cards"]):
        dis.append(("cell cards", cards, m["cards"]))
    # the text of a vector is not modelled: a card with a token the independent reader cannot read as a number or
    # a shortcut (oracle: 'vector-entry') is compared by class only
    garbled = {it[0] for it in items if it != "o" and any(isinstance(x, tuple) for _, vec in it[1] for x in vec)}
    if garbled:
        items = [(it[0], "?") if it != "o" and it[0] in garbled else it for it in items]
        mdata = [(it[0], "?") if it != "o" and it[0] in garbled else it for it in m["data"]]
    else:
        mdata = m["data"]
    if items != mdata:
        dis.append(("data block", items, mdata))
    if ev != m["events"]:
        dis.append(("order of blocks", ev, m["events"]))
    return dis


# --------------------------------------------------------------------------- generator of problems
IMP_CHOICES = ["1", "1", "1", "0", "2", "0.5", "4", "1.0"]
VOL_CHOICES = ["3.5", "1", "2.5", "0.125", "10", "7.25", "1.5e+01", "100", "0", "0"]   # 0 is a volume too


def compress_vec(rng, toks, jump_ok=True):
    """a list of tokens ('j' = jump) -> tokens with some nR / nJ shortcuts"""
    out = []
    i = 0
    while i < len(toks):
        t = toks[i]
        j = i + 1
        while j < len(toks) and toks[j] == t:
            j += 1
        run = j - i
        if t == "j":
            if run > 1 and rng.random() < 0.6:
                out.append("%dj" % run)
            else:
                out += ["j"] * run
            i = j
        elif run > 1 and rng.random() < 0.5:
            out.append(t)
            out.append("%dr" % (run - 1) if run > 2 or rng.random() < 0.5 else "r")
            i = j
        else:
            out.append(t)
            i += 1
    return out


def gen_c09(rng):
    """a small well-formed problem with all five kinds of per-cell data, each kind in one block"""
    ncell = rng.choice([1, 2, 3, 3, 4, 4, 5, 6])
    nums = sorted(rng.sample(range(1, 40), ncell))
    particles = rng.choice([["n"], ["n"], ["n", "p"], ["n", "p"], ["p"], ["n", "p", "e"], ["p", "e"], ["n", "e"]])
    place = {k: ("data" if rng.random() < 0.45 else "cell") for k in CLASSES}
    U1, U2 = rng.sample(range(1, 30), 2)
    univ, fill, lat, tr = {}, {}, {}, {}
    if ncell >= 2 and rng.random() < 0.7:
        members1 = [c for c in nums[1:] if rng.random() < 0.6] or [nums[1]]
        for c in members1:
            univ[c] = U1
        fill[nums[0]] = U1
        rest = [c for c in nums[1:] if c not in univ]
        if rest and rng.random() < 0.6:
            for c in rest:
                if rng.random() < 0.7:
                    univ[c] = U2
            if U2 in univ.values():
                host = rng.choice(members1)
                fill[host] = U2
                if rng.random() < 0.7:
                    lat[host] = rng.choice([1, 1, 2])
        if place["fill"] == "cell" and rng.random() < 0.12:
            tr[nums[0]] = rng.choice(["(1 0 0)", "(0 0 2.5)"])
    negu = {c for c in univ if rng.random() < 0.15}       # "not truncated": written with a minus sign
    imps = {c: {p: rng.choice(IMP_CHOICES) for p in particles} for c in nums}
    force_joint = len(particles) > 1 and rng.random() < 0.3        # one data-block input imp:n,p,... for all
    if force_joint:
        place["imp"] = "data"
    if force_joint or rng.random() < 0.4:
        for c in nums:
            v = rng.choice(IMP_CHOICES)
            imps[c] = {p: v for p in particles}
    vols = {c: rng.choice(VOL_CHOICES) for c in nums if rng.random() < 0.4}
    up = rng.random() < 0.2

    def kw(s):
        return s.upper() if up else s
    cells = []
    for c in nums:
        geom = rng.choice(["-1 2", "-3", "-3 1", "3", "(1:-2) 3", "-1", "2 -3"])
        params = []
        if place["imp"] == "cell":
            vals = imps[c]
            if len(particles) > 1 and len(set(vals.values())) == 1 and rng.random() < 0.5:
                params.append(kw("imp:" + ",".join(particles)) + "=" + vals[particles[0]])
            elif len(particles) == 3 and vals[particles[0]] == vals[particles[1]] and rng.random() < 0.4:
                params.append(kw("imp:%s,%s" % (particles[0], particles[1])) + "=" + vals[particles[0]])
                params.append(kw("imp:" + particles[2]) + "=" + vals[particles[2]])
            else:
                for p in particles:
                    params.append(kw("imp:" + p) + "=" + vals[p])
        if c in vols and place["vol"] == "cell":
            params.append(kw("vol") + "=" + vols[c])
        if c in univ and place["u"] == "cell":
            params.append(kw("u") + "=" + ("-" if c in negu else "") + str(univ[c]))
        if c in lat and place["lat"] == "cell":
            params.append(kw("lat") + "=" + str(lat[c]))
        if c in fill and place["fill"] == "cell":
            params.append(kw("fill") + "=" + str(fill[c]) + (" " + tr[c] if c in tr else ""))
        # other cell parameters: some of their names contain a modifier prefix as a substring (nonu, unc: 'u')
        if rng.random() < 0.45:
            pool = ["nonu=1", "unc:%s=0" % particles[0], "unc:%s=1" % particles[-1], "tmp=2.5e-8", "pwt=1",
                    "ext:%s=0" % particles[0], "fcl:%s=0" % particles[0], "elpt:%s=1" % particles[-1], "cosy=1"]
            for extra in rng.sample(pool, rng.choice([1, 1, 2])):
                if extra.split(":")[0].split("=")[0] not in [x.split(":")[0].split("=")[0] for x in params]:
                    params.append(kw(extra))
        rng.shuffle(params)
        style = rng.random()
        if params and style < 0.3:
            # every parameter on a line of its own, followed by a '$' comment (a datum with a comment after it)
            first = "%d 0 %s %s $ c%d first" % (c, geom, params[0], c)
            rest = ["     %s $ c%d %s" % (x, c, "abcdefgh"[j % 8]) for j, x in enumerate(params[1:])]
            cells.append("\n".join([first] + rest))
        elif params and style < 0.45:
            cells.append(" ".join(["%d 0 %s" % (c, geom)] + params) + " $ c%d end" % c)
        else:
            cells.append(" ".join(["%d 0 %s" % (c, geom)] + params))
    data = []
    others = [["nps 100"], ["print"], ["sdef pos=0 0 0 erg=1.5"], ["cut:%s j 0.01" % particles[0]], ["prdmp 2j 1"]]
    rng.shuffle(others)
    data += [o[0] for o in others[:rng.randint(0, 3)]]
    mods = []
    if place["imp"] == "data":
        vecs = {p: [imps[c][p] for c in nums] for p in particles}
        if len(particles) > 1 and len(set(map(tuple, vecs.values()))) == 1 and (force_joint or rng.random() < 0.5):
            mods.append(" ".join([kw("imp:" + ",".join(particles))] + compress_vec(rng, vecs[particles[0]])))
        else:
            for p in particles:
                mods.append(" ".join([kw("imp:" + p)] + compress_vec(rng, vecs[p])))
    for k, d in (("vol", vols), ("u", univ), ("lat", lat), ("fill", fill)):
        if place[k] == "data" and d:
            toks = [("-" if k == "u" and c in negu else "") + str(d[c]) if c in d else "j" for c in nums]
            if rng.random() < 0.5:
                while toks and toks[-1] == "j":
                    toks.pop()
            mods.append(" ".join([kw(k)] + compress_vec(rng, toks)))
    rng.shuffle(mods)
    for m in mods:
        data.insert(rng.randint(0, len(data)), m)
    data.insert(0, "mode " + " ".join(particles))
    text = "\n".join(["C09 generated problem"] + cells + [""] + ["1 px 0", "2 px 1", "3 so 5"] + [""] + data + ["", ""])
    meta = {"cells": nums, "particles": particles, "place": place, "universes": sorted(set(univ.values())),
            "has": {"vol": bool(vols), "u": bool(univ), "lat": bool(lat), "fill": bool(fill), "tr": bool(tr)}}
    return text, meta


def gen_core_problem(rng, data_mods):
    """a problem of the shared generator (harness/gen.py), plain layout"""
    P = gen.gen_problem(rng, dict(max_cells=6, data_mods=data_mods, extras=True, message=False, transforms=False,
                                  complements=False))
    text = gen.render(rng, P, gen.PLAIN)
    meta = {"cells": list(P["meta"]["cells"]), "particles": list(P["meta"]["particles"]),
            "place": dict(P["meta"]["place"]),
            "universes": sorted(set(P["meta"]["universes"].values())),
            "has": {"vol": bool(P["meta"]["vols"]), "u": bool(P["meta"]["universes"]), "lat": False,
                    "fill": bool(P["meta"]["fills"]), "tr": False}}
    return text, meta


# --------------------------------------------------------------------------- generator of programs
def gen_program(rng, meta, length=None):
    """a short program over the public API; mostly valid statements, a few that MontePy must reject"""
    cells = list(meta["cells"])
    parts = list(meta["particles"])
    univs = list(meta["universes"]) or []
    ops = []
    fresh = [n for n in range(41, 120) if n not in cells][:19]
    rng.shuffle(fresh)
    deleted_vol = set()
    n_ops = length if length is not None else rng.choice([0, 1, 1, 2, 2, 3, 4, 5])
    for _ in range(n_ops):
        r = rng.random()
        if r < 0.16:                                   # a new cell
            n = fresh.pop()
            ops.append(["N", n])
            style = rng.choice(["before", "before", "after", "mixed", "none", "all"])
            same = rng.random() < 0.5
            v0 = rng.choice(["1", "2", "0.5"])
            imp_ops = [["I", None, p, v0 if same else rng.choice(["1", "2", "0", "0.5"])] for p in parts]
            if style in ("none", "all"):
                imp_ops = []
            pre = imp_ops if style == "before" else (imp_ops[:1] if style == "mixed" else [])
            post = [] if style == "before" else (imp_ops[1:] if style == "mixed" else imp_ops)
            for o in pre:
                ops.append(["I", "s"] + o[2:])
            # aim at what can go wrong: a class that is in the data block of the input gets a value for the new cell
            place = meta.get("place", {})
            has = meta.get("has", {})
            if rng.random() < (0.75 if place.get("vol") == "data" and has.get("vol") else 0.3):
                ops.append(["V", "s", rng.choice(VOL_CHOICES)])
            if univs and rng.random() < (0.75 if place.get("u") == "data" else 0.4):
                ops.append(["U", "s", rng.choice(univs + [0])])
            if univs and rng.random() < (0.5 if place.get("fill") == "data" and has.get("fill") else 0.1):
                ops.append(["G", "s", rng.choice(univs)])
            if rng.random() < (0.4 if place.get("lat") == "data" and has.get("lat") else 0.05):
                ops.append(["L", "s", rng.choice([1, 2])])
            ops.append(["A", rng.choice(["append", "append", "extend", "iadd", "renumber"])])
            for o in post:
                ops.append(["I", n] + o[2:])
            if style == "all":
                ops.append(["S", n, v0])
            if univs and rng.random() < 0.3:
                ops.append(["U", n, rng.choice(univs)])
            cells.append(n)
        elif r < 0.28 and cells:                       # a deep copy of an existing cell
            n = fresh.pop()
            src = rng.choice(cells)
            ops.append(["C", src, n])
            if rng.random() < 0.3:
                ops.append(["I", "s", rng.choice(parts), rng.choice(["1", "3"])])
            ops.append(["A", rng.choice(["append", "append", "extend", "iadd", "renumber"])])
            cells.append(n)
            if src in deleted_vol:
                deleted_vol.add(n)
        elif r < 0.40 and len(cells) > 1:              # remove
            n = rng.choice(cells)
            ops.append(["R", n, rng.choice(["remove", "remove", "del", "pop"])])
            cells.remove(n)
        elif r < 0.50 and len(cells) > 1:              # reorder (through the cells setter)
            order = list(cells)
            rng.shuffle(order)
            if rng.random() < 0.2:
                order = order[:-1]
            ops.append(["O", list(order)])
            cells = order
        elif r < 0.62 and cells:                       # importance
            n = rng.choice(cells)
            q = rng.choice(parts) if rng.random() < 0.9 else rng.choice(["n", "p", "e"])
            ops.append(["I", n, q, rng.choice(["1", "2", "0", "0.5", "8"])])
        elif r < 0.64 and cells:
            ops.append(["S", rng.choice(cells), rng.choice(["1", "2", "0", "0.5"])])
        elif r < 0.66 and cells:
            n = rng.choice(cells)
            q = rng.choice(parts)
            ops.append(["X", n, q])
            if rng.random() < 0.7:
                ops.append(["I", n, q, rng.choice(["1", "2"])])
        elif r < 0.76 and cells:                       # volume
            n = rng.choice(cells)
            if rng.random() < 0.3:
                ops.append(["W", n])
                deleted_vol.add(n)
                if rng.random() < 0.3:
                    ops.append(["V", n, rng.choice(VOL_CHOICES)])
            else:
                ops.append(["V", n, rng.choice(VOL_CHOICES)])
        elif r < 0.84 and cells:                       # universe
            n = rng.choice(cells)
            ops.append(["U", n, rng.choice(univs + [0, 33]) if univs else rng.choice([0, 33]),
                        rng.choice(["set", "set", "claim"])])
            if 33 not in univs and ops[-1][2] == 33:
                univs.append(33)
        elif r < 0.90 and cells:                       # lattice
            n = rng.choice(cells)
            ops.append(["L", n, rng.choice([1, 2, None])])
        elif r < 0.95 and cells and univs:             # fill
            n = rng.choice(cells)
            ops.append(["G", n, rng.choice(univs + [None])])
        else:                                          # a flip in the middle of the program
            ops.append(["F", rng.choice(CLASSES), rng.choice([0, 1])])
        if rng.random() < 0.12:
            ops.append(["Wr"])
    return ops


def warning_programs(rng, meta):
    """regression stream for 1eab23e: placement switch -> write -> edits that make tokens wider -> write, run with
    every Python warning delivered (warnings.simplefilter("always")): write_to_file must not raise and both files
    must say what the API says"""
    cells = list(meta["cells"])
    parts = list(meta["particles"])
    univs = list(meta["universes"])
    place = meta.get("place", {})
    out = []
    for k in CLASSES:
        if k != "imp" and not meta["has"].get(k):
            continue
        to = 0 if place.get(k) == "data" else 1
        if k == "vol":
            wide = [["V", cells[-1], "1234.5678"], ["V", cells[0], "7.25"]]
        elif k == "u":
            wide = [["U", cells[-1], 33333]]
        elif k == "fill":
            wide = [["G", cells[0], 33333 if not univs else univs[-1]], ["U", cells[-1], 33333]]
        elif k == "lat":
            wide = [["L", cells[-1], 2]]
        else:
            wide = [["I", cells[-1], q, "0.125"] for q in parts] + [["I", cells[0], parts[0], "1234.5"]]
        if k == "vol":
            narrow = [["V", x, "4.5"] for x in cells]
        elif k == "u":
            narrow = [["U", cells[-1], univs[0] if univs else 7]]
        elif k == "fill":
            narrow = [["G", cells[0], univs[0] if univs else 7]]
        elif k == "lat":
            narrow = [["L", x, 2] for x in cells[-2:]]
        else:
            narrow = [["I", x, q, "3"] for x in cells for q in parts]
        out.append(("quiet-%s-switch-write-edit" % k, [["F", k, to], ["Wr"]] + narrow))
        out.append(("warn-%s-to-%s" % (k, "data" if to else "cell"), [["F", k, to], ["Wr"]] + wide))
        out.append(("warn-%s-there-and-back" % k, [["F", k, to], ["Wr"]] + wide + [["Wr"], ["F", k, 1 - to]]))
    return out


def flag_ops(bits):
    return [["F", k, (bits >> i) & 1] for i, k in enumerate(CLASSES)]


def targeted_programs(rng, meta):
    """the histories the property names, one at a time, aimed at the ends of the vectors:
    a complete new cell appended (every class set), the first / last cell removed, the cells reversed / rotated,
    the last and the first cell edited in every class"""
    cells = list(meta["cells"])
    parts = list(meta["particles"])
    univs = list(meta["universes"])
    out = []
    new = max(cells + [60]) + 1
    app = [["N", new]] + [["I", "s", q, rng.choice(["2", "0.5", "4"])] for q in parts] + [["V", "s", rng.choice(VOL_CHOICES)]]
    if univs:
        app += [["U", "s", univs[0]]]
        if len(univs) > 1:
            app += [["G", "s", univs[-1]], ["L", "s", 1]]
    out.append(("append", app + [["A", rng.choice(["append", "extend", "iadd", "renumber"])]]))
    out.append(("append-then-set", [["N", new], ["A"]] + [["I", new, q, "2"] for q in parts] + [["V", new, "7.25"]]))
    if len(cells) > 1:
        out.append(("remove-last", [["R", cells[-1], rng.choice(["remove", "del", "pop"])]]))
        out.append(("remove-first", [["R", cells[0], rng.choice(["remove", "del", "pop"])]]))
        out.append(("reverse", [["O", list(reversed(cells))]]))
        out.append(("rotate-append", [["O", cells[1:] + cells[:1]]] + app + [["A"]]))
    edit = []
    for n in {cells[0], cells[-1]}:
        edit += [["I", n, rng.choice(parts), rng.choice(["3", "0"])], ["V", n, rng.choice(VOL_CHOICES)]]
        if univs:
            edit += [["U", n, rng.choice(univs), rng.choice(["set", "claim"])]]
    out.append(("edit-ends", edit))
    out.append(("set-all", [["S", cells[-1], "4"], ["I", cells[0], parts[0], "3"], ["S", cells[0], "0.5"]]))
    # write_to_file in the middle of a history: what a write leaves behind must not show in the next one
    out.append(("write-then-flip", [["Wr"]]))
    if len(cells) > 1:
        out.append(("write-reverse", [["Wr"], ["O", list(reversed(cells))]]))
        out.append(("write-move-first-to-end", [["Wr"], ["O", cells[1:] + cells[:1]], ["Wr"]]))
    out.append(("append-write-edit", app + [["A"], ["Wr"]] + edit))
    # a joint IMP input (imp:n,p ...): an edit that keeps the particles equal, a write, an edit that splits them
    if len(parts) > 1:
        out.append(("equal-edit-write-split",
                    [["I", cells[-1], q, "2"] for q in parts] + [["Wr"]] + [["I", cells[len(cells) // 2], parts[-1], "0.5"]]))
        out.append(("all-write-split", [["S", cells[0], "4"], ["Wr"], ["I", cells[-1], parts[0], "8"], ["Wr"]]))
    # a new cell has a neutron tree only: importance.all has to give it one for every MODE particle
    out.append(("append-then-set-all", [["N", new], ["A"], ["S", new, "2"]]))
    return out


# --------------------------------------------------------------------------- the oracle (independent of the model)
def close(a, b):
    return a == b or abs(a - b) <= 1e-9 * max(abs(a), abs(b))


def oracle(real, reread=True):
    """the sentences of C09 on one real run -> None | dict(kind, detail)"""
    if "read_error" in real:
        return None                                    # reading generated problems is C12/C13's business
    if "write_error" in real:
        if real["write_error"] in REFUSALS:
            return None                                # a documented refusal, no file is produced
        return {"kind": "write-raises", "detail": [real["write_error"], real.get("write_error_text", "")]}
    api = real["api"]
    if api is None:
        return {"kind": "api-raises", "detail": real.get("api_error")}
    if "api_after_write" in real and real["api_after_write"] != api:
        return {"kind": "write-changes-api", "detail": [api, real["api_after_write"]]}
    out = real["out"]
    flags = real["flags"]
    mode = real["mode"]
    _, cells, data, sp = describe(out)
    if any(l.strip() for l in sp["trailing"]):
        return {"kind": "outside-data-block", "detail": [l for l in sp["trailing"] if l.strip()][:3]}
    if [c["num"] for c in cells] != [a[0] for a in api]:
        return {"kind": "cells-differ", "detail": [[c["num"] for c in cells], [a[0] for a in api]]}
    n = len(api)
    vectors = {k: [] for k in CLASSES}                  # class -> list of (particle|None, vector)
    for d in data:
        if d[0] == "o":
            continue
        k, ps, vec = d
        if len(vec) > n:
            return {"kind": "misaligned", "detail": [k, len(vec), n]}
        if any(not (x == "J" or isinstance(x, Fraction)) for x in vec):
            return {"kind": "vector-entry", "detail": [k, [str(x) for x in vec]]}
        vec = list(vec) + ["J"] * (n - len(vec))
        for q in (ps if k == "imp" else [None]):
            vectors[k].append((q, vec))
    for c in cells:
        if c.get("bad_imp_key"):
            return {"kind": "imp-key-unreadable", "detail": c["bad_imp_key"]}
    for i, (c, a) in enumerate(zip(cells, api)):
        num_, imp, vol, u, lat, fl = a
        wanted = [("imp", q, v, v != 0.0, True) for q, v in imp]
        wanted += [("vol", None, vol, vol is not None, False), ("u", None, u, u not in (None, 0), False),
                   ("lat", None, lat, lat is not None, False), ("fill", None, fl, fl is not None, False)]
        for k, q, a_val, must, may in wanted:
            if k == "imp":
                in_cell = [v for ps, v in c["imp"] if q in ps]
                in_cell = [float(num(v[0])) if len(v) == 1 else ("?", v) for v in in_cell]
            else:
                in_cell = []
                for v in c[k]:
                    if k == "lat" and not v and c.get("none_literal"):
                        in_cell.append("None")
                    elif not v:
                        in_cell.append("?")
                    else:
                        x = num(v[0])
                        in_cell.append(float(x) if k == "vol" else abs(int(x)))
            in_data = []
            for qq, vec in vectors[k]:
                if qq == q and vec[i] != "J":
                    x = vec[i]
                    x = float(x) if k in ("imp", "vol") else abs(int(x))
                    if k == "u" and x == 0:
                        continue
                    in_data.append(x)
            total = len(in_cell) + len(in_data)
            where = "cell %d %s%s" % (num_, k, "" if q is None else ":" + pletter(q))
            if total > 1:
                return {"kind": "datum-count", "detail": [where, "cell block", in_cell, "data block", in_data]}
            if total == 0:
                if must:
                    return {"kind": "datum-count", "detail": [where, "api", a_val, "written nowhere"]}
                continue
            if not (must or may):
                return {"kind": "spurious-datum", "detail": [where, "api", a_val, "cell block", in_cell, "data block", in_data]}
            if (len(in_data) == 1) != flags[k]:
                return {"kind": "wrong-block", "detail": [where, "flag", flags[k], "cell block", in_cell, "data block", in_data]}
            w = (in_cell + in_data)[0]
            ok = isinstance(w, (int, float)) and a_val is not None and close(float(w), float(a_val))
            if not ok:
                return {"kind": "value-mismatch", "detail": [where, "api", a_val, "written", w]}
        for ps, v in c["imp"]:
            for q in ps:
                if q not in mode:
                    return {"kind": "spurious-datum", "detail": ["cell %d imp:%s" % (num_, pletter(q)), "particle not in MODE", v]}
    for q, vec in vectors["imp"]:
        if q not in mode:
            return {"kind": "spurious-datum", "detail": ["data block imp:%s" % pletter(q), "particle not in MODE"]}
    # the minus sign of U (cell.not_truncated) goes where the universe goes
    signs = real.get("signs")
    if signs:
        for i, (c, a) in enumerate(zip(cells, api)):
            if a[0] in signs:
                vals = [num(v[0]) for v in c["u"] if v] + [vec[i] for _, vec in vectors["u"] if vec[i] != "J"]
                for x in vals:
                    if x != 0 and (x < 0) != signs[a[0]]:
                        return {"kind": "u-sign", "detail": ["cell %d" % a[0], "not_truncated", signs[a[0]], "written", str(x)]}
    for k in CLASSES:
        qs = [q for q, _ in vectors[k]]
        if len(qs) != len(set(qs)):
            return {"kind": "datum-count", "detail": ["two data-block cards", k, [None if q is None else pletter(q) for q in qs]]}
    if reread:
        fills = {a[5] for a in api if a[5] is not None}
        members = {a[3] for a in api if a[3]}
        if fills <= members:
            try:
                pr2 = mp.read_problem(out, name="c09r.i")
                api2 = api_view(pr2, mode)
            except Exception as e:
                return {"kind": "reread-raises", "detail": [exc_class(e), str(e)[:200]]}

            def norm(v):
                return [(n_, tuple((q, float(x)) for q, x in im), vo, uu or 0, la, fi) for n_, im, vo, uu, la, fi in v]
            if norm(api) != norm(api2):
                return {"kind": "reread-differs", "detail": [norm(api), norm(api2)]}
    return None


def denote_text(text):
    """the per-cell values of an input by MCNP's rule, through the independent reader only:
    cell parameter, else the i-th entry of the data-block vector (not a jump), else the default"""
    mode, cells, data, _ = describe(text)
    vecs = {}
    for d in data:
        if d[0] == "o":
            continue
        k, ps, vec = d
        for q in (ps if k == "imp" else [None]):
            vecs.setdefault((k, q), []).append(vec)
    out = []
    for i, c in enumerate(cells):
        def from_data(k, q):
            for vec in vecs.get((k, q), []):
                if i < len(vec) and vec[i] != "J" and isinstance(vec[i], Fraction):
                    return vec[i]
            return None
        imp = []
        for q in mode:
            v = None
            for ps, toks in c["imp"]:
                if q in ps and toks:
                    v = num(toks[0])
                    break
            if v is None:
                v = from_data("imp", q)
            imp.append((q, float(v) if v is not None else 0.0))

        def one(k, conv):
            if c[k] and c[k][0]:
                return conv(num(c[k][0][0]))
            v = from_data(k, None)
            return None if v is None else conv(v)
        u = one("u", lambda x: abs(int(x)))
        out.append((c["num"], tuple(sorted(imp)), one("vol", float), u or 0, one("lat", lambda x: int(x)),
                    one("fill", lambda x: int(x))))
    return mode, out


def read_oracle(text):
    """either-block equivalence after reading: API values == the input's meaning by the independent reader"""
    try:
        pr = mp.read_problem(text, name="c09in.i")
    except Exception:
        return None                                    # reading is C12/C13's business
    mode = real_mode(pr)
    try:
        api = api_view(pr, mode)
    except Exception as e:
        return {"kind": "api-raises-after-read", "detail": [exc_class(e), str(e)[:200]]}
    smode, want = denote_text(text)
    if sorted(smode) != sorted(mode):
        return None
    got = [(n_, tuple(sorted((q, float(x)) for q, x in im)), vo, uu or 0, la, fi) for n_, im, vo, uu, la, fi in api]
    for g, w in zip(got, want):
        ok = g[0] == w[0] and g[3:] == w[3:] and (g[2] is None) == (w[2] is None) and (g[2] is None or close(g[2], w[2])) \
            and len(g[1]) == len(w[1]) and all(a[0] == b[0] and close(a[1], b[1]) for a, b in zip(g[1], w[1]))
        if not ok:
            return {"kind": "read-differs", "detail": ["cell %d" % g[0], "api after read", g, "input means", w]}
    if len(got) != len(want):
        return {"kind": "read-differs", "detail": ["number of cells", len(got), len(want)]}
    try:
        signs = sign_view(pr)
    except Exception as e:
        return {"kind": "api-raises-after-read", "detail": [exc_class(e), str(e)[:200]]}
    wsign = denote_signs(text)
    for n_, sg in signs.items():
        if n_ in wsign and wsign[n_] != sg:
            return {"kind": "read-differs", "detail": ["cell %d" % n_, "not_truncated", sg, "input sign negative", wsign[n_]]}
    return None


def denote_signs(text):
    """cell number -> the U entry of the input is negative (cell parameter, else the data-block vector)"""
    _, cells, data, _ = describe(text)
    uvec = None
    for d in data:
        if d[0] == "u":
            uvec = d[2]
    out = {}
    for i, c in enumerate(cells):
        if c["u"] and c["u"][0]:
            out[c["num"]] = num(c["u"][0][0]) < 0
        elif uvec is not None and i < len(uvec) and isinstance(uvec[i], Fraction):
            out[c["num"]] = uvec[i] < 0
    return out


def comments_of_text(text):
    """all comment texts (C lines and '$' comments) of the cell and data blocks, by the independent reader"""
    sp = spec.split_file(text)
    out = []
    for bi, block in enumerate(sp["blocks"][:3]):
        if bi == 1:
            continue
        for card in block:
            out += [c.strip().lower() for c in card.comments if c.strip()]
    return out


def comment_oracle(case, real):
    """switching the placement (nothing else) must not lose a comment of the cell block or of the data block"""
    if "out" not in real or any(o[0] not in ("F", "Wr") for o in case["ops"]):
        return None
    try:
        want = comments_of_text(case["text"])
        got = comments_of_text(real["out"])
    except Exception:
        return None
    lost = []
    pool = list(got)
    for c in want:
        if c in pool:
            pool.remove(c)
        else:
            lost.append(c)
    if lost:
        return {"kind": "comment-lost", "detail": lost[:5]}
    return None


def oracle_all(real, reread=True):
    """the oracle on the final file and on every file an intermediate write_to_file made"""
    if real.get("bad_statements"):
        return {"kind": "statement-raises", "detail": real["bad_statements"][0]}
    r = oracle(real, reread=reread)
    if r is None:
        bad = [e for e in real.get("intermediate_write_errors", []) if e not in REFUSALS]
        if bad:
            return {"kind": "write-raises", "detail": [bad[0], "raised by an intermediate write_to_file"]}
    if r is None:
        for j, mid in enumerate(real.get("intermediate", [])):
            if mid.get("api") is None:
                continue
            r = oracle(mid, reread=False)
            if r is not None:
                r = {"kind": r["kind"], "detail": ["intermediate write %d" % j] + list(r["detail"] if isinstance(r["detail"], list) else [r["detail"]])}
                break
    return r


def check_case(case, reread=True):
    real = run_real(case, probe_first=case.get("probe_first", True))
    r = oracle_all(real, reread=reread)
    if r is None and not case.get("ops"):
        r = read_oracle(case["text"])
    if r is None:
        r = comment_oracle(case, real)
    return r


def shrink(case, kind):
    """drop statements (and trailing data lines) while the same kind of failure stays"""
    def failing(c):
        try:
            r = check_case(c, reread=(kind.startswith("reread")))
        except Exception:
            return False
        return r is not None and r["kind"] == kind
    cur = dict(case)
    changed = True
    while changed:
        changed = False
        for i in range(len(cur["ops"]) - 1, -1, -1):
            cand = dict(cur, ops=cur["ops"][:i] + cur["ops"][i + 1:])
            if failing(cand):
                cur = cand
                changed = True
    # try dropping 'other' data inputs
    lines = cur["text"].split("\n")
    for i in range(len(lines) - 1, 0, -1):
        if re.match(r"^(nps|print|sdef|cut|prdmp)", lines[i]):
            cand = dict(cur, text="\n".join(lines[:i] + lines[i + 1:]))
            if failing(cand):
                cur = cand
                lines = cur["text"].split("\n")
    return cur


# --------------------------------------------------------------------------- known findings: neutralising a feature
SHORT = re.compile(r"^(\d*)(r|j|i|ilog|m)$", re.I)


def expand_modifier_shortcuts(text):
    """rewrite the data-block cards of the five classes without shortcuts and without trailing jumps (same
    meaning: omitted trailing entries are defaults)"""
    sp = spec.split_file(text)
    if len(sp["blocks"]) < 3:
        return text
    lines = text.split("\n")
    out = []
    for l in lines:
        t = l.split()
        head = t[0].upper().lstrip("*") if t else ""
        if t and (head.startswith("IMP:") or head in ("VOL", "U", "LAT", "FILL")) and not l.startswith(" ") \
                and "=" not in l and any(SHORT.match(x) for x in t[1:]):
            vec = spec.expand_shortcuts([x.upper() for x in t[1:]])
            if all(x == "J" or isinstance(x, Fraction) for x in vec):
                while len(vec) > 1 and vec[-1] == "J":
                    vec.pop()

                def sh(x):
                    if x == "J":
                        return "j"
                    return str(int(x)) if x.denominator == 1 else repr(float(x))
                l = " ".join([t[0]] + [sh(x) for x in vec])
        out.append(l)
    return "\n".join(out)


def ends_with_jump(text):
    """a data-block card of the five classes whose last token is a jump (j, 2j, ...)"""
    for l in text.split("\n"):
        t = l.split()
        head = t[0].upper().lstrip("*") if t else ""
        if len(t) > 1 and (head.startswith("IMP:") or head in ("VOL", "U", "LAT", "FILL")) and not l.startswith(" ") \
                and "=" not in l and re.match(r"^\d*j$", t[-1], re.I):
            return True
    return False


NEUTRAL = {"P": ["F", "imp", 1], "M": ["F", "imp", 1]}       # "S" (sstruct after read) has no neutralisation


def model_diag(case):
    """the side conditions of the _partial theorems that fail on the final state of the case (from the model)"""
    if "_diag" in case:
        return case["_diag"]
    real = run_real(case)
    req, _ = request_of(case, mode_order=real.get("mode"))
    vlib.coq_make(["Model/Place.vo"])
    return parse_answer(vlib.model_ask("Place", [req])[0]).get("diag", "")


def neutralised(case, diag):
    ops = list(case["ops"])
    for letter in diag:
        if letter in NEUTRAL:
            ops.append(NEUTRAL[letter])
    return {"text": expand_modifier_shortcuts(case["text"]), "ops": ops}


# --------------------------------------------------------------------------- run / replay
def load_cases(d):
    out = []
    p = os.path.join(vlib.VERIF, d)
    if os.path.isdir(p):
        for f in sorted(os.listdir(p)):
            if f.endswith(".json"):
                with open(os.path.join(p, f)) as fh:
                    c = json.load(fh)
                c = c.get("case", c)
                out.append({"text": c["text"], "ops": c["ops"], "name": f, "warnings": c.get("warnings")})
    return out


def replay(ctx, path):
    with open(path) as fh:
        c = json.load(fh)
    c = c.get("case", c)
    if c.get("kind") == "broken-obligation" or "text" not in c:
        print("REPLAY property=C09: this file records a broken obligation, not a failing input; run ./check C09")
        return 1
    case = {"text": c["text"], "ops": c["ops"], "probe_first": c.get("probe_first", True), "warnings": c.get("warnings")}
    r = check_case(case)
    if r is not None:
        print("REPLAY property=C09 still fails: %s %s" % (r["kind"], json.dumps(r["detail"], default=str)[:300]))
        print(f"VIOLATION property=C09 replay={path}")
        return 1
    print("REPLAY property=C09 passes")
    return 0


def run(ctx):
    quick = ctx.tier == "quick"
    n_pairs = 22 if quick else 120
    # the order of write_to_file's steps is taken from the source on every run (Gen/Writer.v); Properties/C09.v
    # compares it with the order Model/Place.v assumes (C09_gen_writer_steps)
    try:
        import translate_writer
        translate_writer.regenerate()
    except Exception as e:
        ctx.broken_obligations.append({"obligation": "translate_writer (Gen/Writer.v from MCNP_Problem.write_to_file)",
                                       "detail": f"{type(e).__name__}: {e}"[:600]})
    ctx.prove()
    ok, log = vlib.coq_make(["Model/Place.vo"])
    if not ok:
        ctx.broken_obligations.append({"obligation": "Model/Place.vo builds", "detail": log[-800:]})
        return ctx.finish(vlib.KERNEL_TB, [], "model did not build")
    dist = {"source": {}, "cells": {}, "particles": {}, "placement_in_file": {k: {"cell": 0, "data": 0} for k in CLASSES},
            "statements": {}, "statement_errors": {}, "write": {}, "flags_at_write": {k: {"cell": 0, "data": 0} for k in CLASSES},
            "oracle_failures": {}, "model_diag": {}, "deepcopy_unsupported": 0, "reread_checked": 0,
            "program_length": {}, "flag_assignment_position": {"start": 0, "end": 0}, "targeted": {},
            "read_oracle_checked": 0, "warnings_always": {}, "second_pass_without_probes": 0, "intermediate_writes": 0,
            "intermediate_write_errors": {}}

    def bump(d, k, n=1):
        d[k] = d.get(k, 0) + n
    cases = []
    for c in load_cases("corpus/C09"):
        c["src"] = "corpus"
        cases.append(c)
    for i in range(n_pairs):
        rng = random.Random(f"{ctx.seed}:C09:{i}")
        r = rng.random()
        if r < 0.6:
            text, meta = gen_c09(rng)
            src = "gen_c09"
        else:
            dm = rng.random() < 0.6
            text, meta = gen_core_problem(rng, data_mods=dm)
            src = "gen.gen_problem data_mods=%s" % dm
        prog = gen_program(rng, meta)
        where = rng.choice(["start", "end"])
        bump(dist["source"], src)
        bump(dist["cells"], len(meta["cells"]))
        bump(dist["particles"], " ".join(meta["particles"]))
        bump(dist["program_length"], len(prog))
        bump(dist["flag_assignment_position"], where)
        for k in CLASSES:
            if k == "imp" or meta["has"].get(k):
                bump(dist["placement_in_file"][k], meta["place"][k])
        for bits in range(32):                      # exhaustive over the 32 assignments
            ops = flag_ops(bits) + prog if where == "start" else prog + flag_ops(bits)
            cases.append({"text": text, "ops": ops, "src": src, "bits": bits, "pair": i})
        # the histories the property names, one at a time: placement as read, everything in the data block,
        # everything in the cell block (thorough: plus five random assignments)
        for name, tprog in targeted_programs(rng, meta):
            bump(dist["targeted"], name)
            for bits in ([None, 31, 0] if quick else [None, 31, 0] + rng.sample(range(1, 31), 5)):
                ops = tprog if bits is None else tprog + flag_ops(bits)
                cases.append({"text": text, "ops": ops, "src": "targeted:" + name, "bits": bits, "pair": i})
        for name, wprog in warning_programs(rng, meta):
            bump(dist["warnings_always"], name.split("-")[1])
            cases.append({"text": text, "ops": wprog, "src": "targeted:" + name, "bits": None, "pair": i,
                          "warnings": None if name.startswith("quiet-") else "always"})
        # either block means the same: the API after reading vs the independent reader's meaning of the input
        if "(" not in "".join(l for l in text.split("\n") if "fill" in l.lower()):
            dist["read_oracle_checked"] += 1
            f = read_oracle(text)
            ctx.count_case(("read", text), nontrivial=True)
            if f is not None:
                bump(dist["oracle_failures"], f["kind"])
                ctx.fail({"kind": f["kind"], "detail": json.loads(json.dumps(f["detail"], default=str)),
                          "case": {"text": text, "ops": []}})
    corr_bad = []
    n_fail = 0
    all_reqs, all_answers = [], []

    def process(cases):
        """one chunk: the real code, the model, the comparison, the oracle"""
        nonlocal n_fail
        # ---- the real code
        reals, reqs, tabs, kept = [], [], [], []
        for c in cases:
            real = run_real(c)
            if any(o[0] == "C" and e == "TypeError" for o, e in zip([x for x in c["ops"] if x[0] != "Wr"], real.get("oplog", []))):
                dist["deepcopy_unsupported"] += 1        # copy.deepcopy of a cell fails for problems with some data inputs
                continue
            req, tab = request_of(c, mode_order=real.get("mode"))
            kept.append(c)
            reals.append(real)
            reqs.append(req)
            tabs.append(tab)
        cases = kept
        # ---- the model
        answers = vlib.model_ask("Place", reqs)
        all_reqs.extend(reqs)
        all_answers.extend(answers)
        for c, real, ans, tab in zip(cases, reals, answers, tabs):
            ctx.cov["programs"] += 1
            ctx.cov["disagreements_checked"] += 1
            m = parse_answer(ans)
            c["_diag"] = m.get("diag", "")
            bump(dist["model_diag"], c["_diag"] or "clean")
            # the hypothesis of C09_safe_histories that is not proved for read: sstruct of the state after reading
            if "S" in c["_diag"] and not any(b.get("obligation", "").startswith("sstruct") for b in ctx.broken_obligations):
                ctx.broken_obligations.append({"obligation": "sstruct (read f) = true for every generated input "
                                               "(start hypothesis of C09_safe_histories)",
                                               "detail": {"text": c["text"]}})
            dist["intermediate_writes"] += sum(1 for x in c["ops"] if x[0] == "Wr")
            for e in real.get("intermediate_write_errors", []):
                bump(dist["intermediate_write_errors"], e)
            for o, e in zip([x for x in c["ops"] if x[0] != "Wr"], real.get("oplog", [])):
                bump(dist["statements"], o[0])
                if e:
                    bump(dist["statement_errors"], e)
            w = "read-error" if "read_error" in real else (real.get("write_error") or "written")
            bump(dist["write"], w)
            if "flags" in real:
                for k in CLASSES:
                    bump(dist["flags_at_write"][k], "data" if real["flags"][k] else "cell")
            ctx.count_case((c["text"], json.dumps(c["ops"])), nontrivial=(w == "written"))
            d = compare(c, real, ans, tab)
            # ---- oracle
            rr = (not quick) or (c.get("bits") or 0) % 8 == 0 or c.get("src") == "corpus" or c.get("src", "").startswith("targeted")
            dist["reread_checked"] += bool(rr and "out" in real)
            f = oracle_all(real, reread=rr)
            if f is None:
                f = comment_oracle(c, real)
            if f is not None:
                n_fail += 1
                bump(dist["oracle_failures"], f["kind"])
                fc = {"kind": f["kind"], "detail": json.loads(json.dumps(f["detail"], default=str)),
                      "case": {"text": c["text"], "ops": c["ops"], "_diag": c["_diag"], "warnings": c.get("warnings")}}
                if ctx.attribute(fc) is not None:
                    ctx.fail(fc)
                    d = None          # the real code's deviation on this case is the known finding's
                elif len(ctx.violations) < 3:
                    small = shrink({"text": c["text"], "ops": c["ops"], "warnings": c.get("warnings")}, f["kind"])
                    f2 = check_case(small) or f
                    ctx.fail({"kind": f2["kind"], "detail": json.loads(json.dumps(f2["detail"], default=str)), "case": small})
            if d:
                corr_bad.append({"case": {"text": c["text"], "ops": c["ops"]}, "first": json.loads(json.dumps(d[0], default=str))})
            # second pass: nothing read from the objects before write_to_file
            if (c.get("bits") or 0) % 4 == 1 or c.get("src") == "corpus":
                dist["second_pass_without_probes"] += 1
                real2 = run_real(c, probe_first=False)
                same = (real2.get("out") == real.get("out") and real2.get("write_error") == real.get("write_error")
                        and real2.get("api") == real.get("api"))
                if not same:
                    bump(dist["oracle_failures"], "probe-changes-outcome")
                    f2 = oracle(real2, reread=True) or {"kind": "probe-changes-outcome",
                                                        "detail": [real.get("write_error") or "written",
                                                                   real2.get("write_error") or "written"]}
                    ctx.fail({"kind": f2["kind"], "detail": json.loads(json.dumps(f2["detail"], default=str)),
                              "case": {"text": c["text"], "ops": c["ops"], "probe_first": False}})
            if len(ctx.cov["samples"]) < 4 and c.get("bits") in (None, 5, 26):
                ctx.sample({"text": c["text"], "statements": c["ops"], "model_answer": ans[:400],
                            "real_written": real.get("out", real.get("write_error"))})

    for k in range(0, len(cases), 1500):
        process(cases[k:k + 1500])
    nx, bad = vlib.vm_crosscheck("Place", all_reqs, all_answers, sample=30 if quick else 200, seed=ctx.seed)
    if bad:
        ctx.broken_obligations.append({"obligation": "extraction cross-check Place", "detail": bad[:2]})
    if corr_bad:
        first = corr_bad[0]
        small = first["case"]

        def still(cc):
            real = run_real(cc)
            req, tab = request_of(cc, mode_order=real.get("mode"))
            return bool(compare(cc, real, vlib.model_ask("Place", [req])[0], tab))
        for i in range(len(small["ops"]) - 1, -1, -1):
            cand = dict(small, ops=small["ops"][:i] + small["ops"][i + 1:])
            try:
                if still(cand):
                    small = cand
            except Exception:
                pass
        ctx.broken_obligations.append({"obligation": "correspondence Place.read/run_ops/write vs MontePy read/API/write_to_file",
                                       "detail": {"n": len(corr_bad), "first": first["first"], "shrunk_case": small}})
        # a disagreement is not a violation by itself: look for a concrete failing input at and around the shrunk case
        # (the case itself, its input alone, the same statements under every placement)
        if not any(not nf for _, nf in ctx.violations):
            around = [small, {"text": small["text"], "ops": []}]
            around += [{"text": small["text"], "ops": small["ops"] + flag_ops(b)} for b in (0, 31, 5, 26, 10, 21)]
            for cand in around:
                try:
                    f = check_case(cand)
                except Exception:
                    f = None
                if f is not None:
                    ctx.fail({"kind": f["kind"], "detail": json.loads(json.dumps(f["detail"], default=str)), "case": cand})
                    break
    # ---- replay the committed findings
    for fd in ctx.findings:
        if fd.get("status") == "open" and fd.get("replay"):
            try:
                with open(os.path.join(vlib.VERIF, fd["replay"])) as fh:
                    fc = json.load(fh)
                cc = fc.get("case", fc)
                r = check_case({"text": cc["text"], "ops": cc["ops"]})
                fd["_reproduced"] = r is not None and r["kind"] == fd.get("failure_kind", r["kind"])
            except Exception:
                fd["_reproduced"] = False
    tb = vlib.KERNEL_TB + [
        "modelled, not verified: montepy/_cell_data_control.py, data_inputs/cell_modifier.py, importance.py, volume.py, "
        "universe_input.py, lattice_input.py, fill.py, cells.py (update_pointers, __setup_blank_cell_modifiers, "
        "_run_children_format_for_mcnp), cell.py (_parse_keyword_modifiers, parameter loop of format_for_mcnp_input, "
        "link_to_problem), mcnp_problem.py (write_to_file order, cells setter) as coq/Model/Place.v; "
        "NOT modelled: card text (shortcut re-compression, padding, wrapping), Importance._try_combine_values (which "
        "particles share one IMP card; checked per case: every MODE particle gets exactly one vector), U's minus sign, "
        "VOL NO, matrix fills",
        "spec.py (independent reader) turns the written file into (cell card parameters, data-block vectors, block order)",
        f"vm_compute cross-check of {nx} requests",
    ]
    assumptions = [
        "C09_exactly_once_partial / C09_every_placement / C09_histories_partial / C09_placement_histories / "
        "C09_safe_histories are proved under "
        "clean: the partition condition on the importance trees of the cells (imp_cell_ok; only when IMP is printed in "
        "the cell block; the model reports per case whether it holds: model_diag) and the two documented refusals "
        "(imp_data_ok: ParticleTypeNotInCell; fill_ok: 'Fill can not be in the data block'); C09_aligned, "
        "C09_inside_data_block, C09_history_invariant, C09_read_wf have no side condition",
        "C09_safe_histories (every kind of statement, only `del importance` restricted to plain cells) assumes sstruct of "
        "the start state; that read establishes it is not proved: the model evaluates it on the state after reading for "
        "every generated input (diagnosis letter S; any occurrence is reported as a broken obligation)",
        "values are opaque: math.isclose is modelled as equality (generated values are equal or far apart)",
        "a write does not change the state in the model (Importance._format_tree edits classifiers in place in "
        "MontePy): every case writes once",
    ]
    return ctx.finish(tb, assumptions,
                      "cases = (generated problem, program, flag assignment): every generated (problem, random program) pair "
                      "under all 32 assignments of print_in_data_block, plus the targeted histories (complete cell appended, "
                      "append then set, first / last cell removed, cells reversed, rotated + appended, both ends edited) under "
                      "the placement as read / all data block / all cell block (thorough: plus five random assignments), plus one read-side case "
                      "per problem; problems: gen_c09 (all five classes, LAT/FILL/U consistent) and gen.gen_problem with "
                      "data_mods on/off; distinct = distinct (text, statements); non-trivial = the problem was written "
                      "(no refusal, no crash)",
                      extra={"input_distribution": dist, "oracle_failures_total": n_fail,
                             "correspondence_disagreements": len(corr_bad)})
