"""C15 — write_to_file never destroys or half-writes the destination.

Obligations: coq/Properties/C15.v over coq/Model/Write.v, instantiated on coq/Gen/Writer.v, the step list
that harness/translate_writer.py regenerates on every run from the source of MCNP_Problem.write_to_file and
MCNP_InputFile.open/__enter__/__exit__/write (guards, which path is opened, format/write order, close,
os.replace, os.remove).

Correspondence (fault injection from this process, nothing in /repo is touched): the real write_to_file is
run in a scratch directory /tmp/C15-*/d with
  * the k-th format_for_mcnp_input call made to raise (IllegalState / ValueError), or a really incomplete
    object (Cell without geometry, Surface without type, Material without components) in the problem,
  * the file object wrapped so that its j-th write, or its close, raises OSError; open(), os.replace and
    os.remove of montepy.input_parser.input_file made to raise OSError; the child-card formatter and the
    warning hand-over made to raise,
for EVERY k and j of the generated problem, on every prior state of the destination; the exception class,
the destination's bytes, the temporary's bytes, the directory listing and the numbers of format and write
calls made are compared with the answer of the extracted model for the same step list / problem lines /
prior state / adversary.

Oracle (independent of the model, the property's sentences on the real file system): a directory is never
written to; an existing file is only replaced with overwrite=True; if the call raises, the destination is
exactly as before or the complete file, and no new entry (stray temporary) is left in the directory; if it
returns, the destination is the complete rendering (which montepy reads back to the same numbers of cells,
surfaces and data inputs), everything else unchanged.
"""
import builtins
import errno
import json
import os
import random
import shutil
import sys
import time
import warnings

import vlib
import gen
import mp

SCRATCH = "/tmp/C15-"
MINIMAL = "minimal problem\n1 0 -1 imp:n=1\n2 0 1 imp:n=0\n\n1 so 5\n\nmode n\n"
OLD = "OLD CONTENT of the user's file\nsecond line\n"
BYSTANDER = "bystander.txt"
STATES_MODEL = ("absent", "file", "emptyfile", "dir", "dir_nonempty")
STATES_LINKS = ("symlink_file", "symlink_dangling", "symlink_dir")
STYLES = ("abs", "rel", "relsub", "dot", "dotdot", "pathlib")
EXIT_FAULTS = ("close", "replace")
try:
    NAME_MAX = os.pathconf("/tmp", "PC_NAME_MAX")
except (OSError, ValueError):
    NAME_MAX = 255


def hx(s):
    if isinstance(s, bytes):
        return s.hex()
    return s.encode("latin-1", "replace").hex()


def unhx(s):
    return bytes.fromhex(s).decode("latin-1")


# ----------------------------------------------------------------------------- injected failures
class InjectedFormat(Exception):
    pass


class InjectedPost(Exception):
    pass


WARNING_CLASSES = ("UserWarning", "LineExpansionWarning")


def exc_class(e, natural=False):
    """canonical exception class, the model's enumeration (natural: the problem holds an object that raises
    by itself; the model has one class for that, whatever the object raises)"""
    if e is None:
        return "ok"
    if isinstance(e, Warning) and not natural:
        return "WarningClass"      # a warning the filters turned into an error, raised by a format call
    if isinstance(e, FileExistsError):
        return "FileExistsError"
    if isinstance(e, IsADirectoryError):
        return "IsADirectoryError"
    if isinstance(e, OSError):
        return "OSError"
    if isinstance(e, InjectedPost):
        return "WarningRaised"
    return "IllegalState"          # an object that cannot be formatted, whatever the class raised


class Injector:
    """faults: list of ["format", k] | ["write", j] | ["child"] | ["open"] | ["close"] | ["replace"] | ["remove"] | ["post"]"""

    def __init__(self, faults, fmt_exc="IllegalState", dest=None):
        self.faults = {tuple(f) for f in faults}
        self.dest = dest            # the destination as given to write_to_file
        self.nf = 0
        self.nw = 0
        self.opened = []
        self.calls = {"replace": 0, "remove": 0, "close": 0}
        self.fmt_exc = fmt_exc
        self.recorded = {}          # id(obj) -> lines (reference run)
        self.children = None

    def has(self, *f):
        return tuple(f) in self.faults

    # --- file object
    def fake_open(self, path, mode="r", *a, **k):
        if any(c in mode for c in "wax+"):
            self.opened.append(os.fspath(path))
            # "open": no NEW file can be made next to the destination (read-only directory, quota, name too long);
            # the destination itself can still be opened.  A directory there fails by itself (EISDIR).
            is_dest = self.dest is not None and os.path.abspath(os.fspath(path)) == os.path.abspath(os.fspath(self.dest))
            if self.has("open") and not os.path.isdir(path) and not is_dest:
                raise PermissionError(errno.EACCES, "injected: open for writing", os.fspath(path))
            return FileProxy(builtins.open(path, mode, *a, **k), self)
        return builtins.open(path, mode, *a, **k)


class FileProxy:
    """the text file object, with its own 8 KiB buffer so that a failing close loses what a real one loses"""
    BUF = 8192

    def __init__(self, fh, inj):
        self.__dict__["_fh"] = fh
        self.__dict__["_inj"] = inj
        self.__dict__["_buf"] = []
        self.__dict__["_n"] = 0

    def __enter__(self):
        self._fh.__enter__()
        return self

    def _drain(self):
        if self._buf:
            self._fh.write("".join(self._buf))
            self.__dict__["_buf"] = []
            self.__dict__["_n"] = 0

    def _close(self):
        self._inj.calls["close"] += 1
        if self._inj.has("close"):
            # what a full disk does: the buffered data cannot be flushed and is lost; the descriptor is closed anyway
            self.__dict__["_buf"] = []
            try:
                self._fh.close()
            finally:
                raise OSError(errno.ENOSPC, "injected: close (flush of buffered data)")
        self._drain()

    def __exit__(self, *a):
        self._close()
        return self._fh.__exit__(*a)

    def close(self):
        self._close()
        return self._fh.close()

    def flush(self):
        if self._inj.has("close"):      # the same failure at an explicit flush
            self.__dict__["_buf"] = []
            raise OSError(errno.ENOSPC, "injected: flush of buffered data")
        self._drain()
        return self._fh.flush()

    def write(self, s):
        j = self._inj.nw
        self._inj.nw += 1
        if self._inj.has("write", j):
            raise OSError(errno.ENOSPC, "injected: write")
        self._buf.append(s)
        self.__dict__["_n"] = self._n + len(s)
        if self._n > self.BUF:
            self._drain()
        return len(s)

    def __iter__(self):
        return iter(self._fh)

    def __getattr__(self, n):
        return getattr(self._fh, n)


class OsProxy:
    """stands in for the `os` module inside montepy.input_parser.input_file only"""

    def __init__(self, inj):
        self._inj = inj

    def __getattr__(self, n):
        return getattr(os, n)

    def replace(self, a, b, **k):
        self._inj.calls["replace"] += 1
        if self._inj.has("replace"):
            raise OSError(errno.EIO, "injected: os.replace", os.fspath(a))
        return os.replace(a, b, **k)

    rename = replace

    def remove(self, a, **k):
        self._inj.calls["remove"] += 1
        if self._inj.has("remove"):
            raise OSError(errno.EIO, "injected: os.remove", os.fspath(a))
        return os.remove(a, **k)

    unlink = remove


class ShutilProxy:
    """stands in for `shutil` inside montepy.input_parser.input_file: a copy that takes the place of os.replace
    fails the way a copy fails — the target already truncated and partly written"""

    def __init__(self, inj):
        self._inj = inj

    def __getattr__(self, n):
        return getattr(shutil, n)

    def _partial(self, src, dst, real):
        self._inj.calls["replace"] += 1
        if self._inj.has("replace"):
            if os.path.isdir(dst):
                dst = os.path.join(dst, os.path.basename(src))
            with builtins.open(src, "rb") as f:
                data = f.read()
            with builtins.open(dst, "wb") as f:
                f.write(data[:len(data) // 2])
            raise OSError(errno.ENOSPC, "injected: copy over the destination", os.fspath(dst))
        return real(src, dst)

    def copyfile(self, src, dst, **k):
        return self._partial(src, dst, shutil.copyfile)

    def copy(self, src, dst, **k):
        return self._partial(src, dst, shutil.copy)

    def copy2(self, src, dst, **k):
        return self._partial(src, dst, shutil.copy2)

    def move(self, src, dst, **k):
        # a move to another file system is copy + unlink
        return self._partial(src, dst, shutil.move)


def object_sequence(problem):
    """objects in the order write_to_file formats them, by section"""
    secs = {"M": [problem.message] if problem.message else [], "T": [problem.title],
            "C": list(problem.cells), "S": list(problem.surfaces), "D": list(problem.data_inputs)}
    return secs


class Patched:
    """install the injector around one write_to_file call"""

    def __init__(self, problem, inj, record=False):
        self.problem, self.inj, self.record = problem, inj, record
        self.undo = []

    def __enter__(self):
        import montepy.input_parser.input_file as IF
        import montepy.mcnp_problem as MP
        inj = self.inj
        for mod in (IF, MP):
            had = "open" in mod.__dict__
            old = mod.__dict__.get("open")
            mod.open = inj.fake_open
            self.undo.append((lambda m=mod, h=had, o=old: setattr(m, "open", o) if h else delattr(m, "open")))
        old_os = IF.os
        IF.os = OsProxy(inj)
        self.undo.append(lambda: setattr(IF, "os", old_os))
        if "shutil" in IF.__dict__:
            old_sh = IF.shutil
            IF.shutil = ShutilProxy(inj)
            self.undo.append(lambda: setattr(IF, "shutil", old_sh))
        secs = object_sequence(self.problem)
        for sec in "MTCSD":
            for obj in secs[sec]:
                self._wrap_format(obj)
        cells = self.problem.cells
        orig_children = cells._run_children_format_for_mcnp

        def children(*a, **k):
            if inj.has("child"):
                raise InjectedFormat("injected: child cards")
            out = list(orig_children(*a, **k))
            if self.record:
                inj.children = out
            return out

        cells.__dict__["_run_children_format_for_mcnp"] = children
        self.undo.append(lambda: cells.__dict__.pop("_run_children_format_for_mcnp", None))
        if inj.has("post"):
            def post(*a, **k):
                raise InjectedPost("injected: warning hand-over")
            self.problem.__dict__["_handle_warnings"] = post
            self.undo.append(lambda: self.problem.__dict__.pop("_handle_warnings", None))
        return self

    def _wrap_format(self, obj):
        inj = self.inj
        orig = obj.format_for_mcnp_input

        def fmt(*a, **k):
            kk = inj.nf
            inj.nf += 1
            if inj.has("format", kk):
                if inj.fmt_exc == "ValueError":
                    raise ValueError("injected: format")
                if inj.fmt_exc == "UserWarning":
                    raise UserWarning("injected: format (a warning turned into an error)")
                if inj.fmt_exc == "LineExpansionWarning":
                    from montepy.errors import LineExpansionWarning
                    raise LineExpansionWarning("injected: format (a warning turned into an error)")
                from montepy.errors import IllegalState
                raise IllegalState("injected: format")
            out = orig(*a, **k)
            if self.record:
                inj.recorded[id(obj)] = list(out)
            return out

        obj.__dict__["format_for_mcnp_input"] = fmt
        self.undo.append(lambda: obj.__dict__.pop("format_for_mcnp_input", None))

    def __exit__(self, *a):
        for u in reversed(self.undo):
            try:
                u()
            except Exception:
                pass
        return False


# ----------------------------------------------------------------------------- problems
_PROBLEMS = {}


def get_problem(text, incomplete):
    """(problem, reference) for a case; cached per process.  reference = {"secs": {sec: [lines|None]},
    "children": lines|None, "bytes": complete rendering or None, "counts": (cells, surfaces, data)}"""
    key = (text, incomplete)
    if key in _PROBLEMS:
        return _PROBLEMS[key]
    import montepy
    pr = mp.read_problem(text, name=f"c15_{os.getpid()}_{len(_PROBLEMS)}.i")
    if incomplete == "cell":
        c = montepy.Cell()
        c.number = max([x.number for x in pr.cells] + [0]) + 1
        pr.cells.append(c)
    elif incomplete == "surface":
        from montepy.surfaces.surface import Surface
        s = Surface()
        s.number = max([x.number for x in pr.surfaces] + [0]) + 1
        pr.surfaces.append(s)
    elif incomplete == "expand_cell":
        # not incomplete, but edited so that its text expands: under warnings.simplefilter("error") formatting it
        # raises LineExpansionWarning in the middle of the write sequence
        cells = list(pr.cells)
        c = cells[-1] if len(cells) > 1 else cells[0]
        c.number = 9000000 + c.number
    elif incomplete == "material":
        from montepy.data_inputs.material import Material
        m = Material()
        m.number = max([x.number for x in pr.materials] + [0]) + 1
        pr.materials.append(m)
        pr.data_inputs.append(m)
    # reference run: no fault, fresh scratch destination, everything recorded
    d = SCRATCH + f"{os.getpid()}-ref"
    shutil.rmtree(d, ignore_errors=True)
    os.makedirs(d)
    inj = Injector([])
    exc = None
    try:
        with Patched(pr, inj, record=True), warnings.catch_warnings():
            warnings.simplefilter(warning_filter(incomplete))
            try:
                pr.write_to_file(os.path.join(d, "ref.i"), overwrite=True)
            except Exception as e:       # an incomplete object: expected for those cases
                exc = e
        data = None
        if exc is None:
            with open(os.path.join(d, "ref.i"), "rb") as f:
                data = f.read()
    finally:
        shutil.rmtree(d, ignore_errors=True)
    secs = {}
    for sec, objs in object_sequence(pr).items():
        secs[sec] = [inj.recorded.get(id(o)) for o in objs]
    # objects after a naturally failing one are never reached: their lines are irrelevant (empty);
    # the failing one itself is None
    if exc is not None:
        seen_fail = False
        for sec in "MTCSD":
            for i, l in enumerate(secs[sec]):
                if l is None and not seen_fail:
                    seen_fail = True
                elif seen_fail:
                    secs[sec][i] = []
    ref = {"secs": secs, "children": inj.children if inj.children is not None else [],
           "bytes": data, "exc": type(exc).__name__ if exc else None,
           "counts": (len(pr.cells), len(pr.surfaces), len(pr.data_inputs)),
           # crash points to sweep: the format and write calls the fault-free run makes
           "nf": inj.nf, "nw": inj.nw}
    _PROBLEMS[key] = (pr, ref)
    return pr, ref


def warning_filter(incomplete):
    """expand_* problems are written the way `python -W error` / pytest filterwarnings=error writes them"""
    return "error" if incomplete and incomplete.startswith("expand") else "ignore"


def wire_object(lines):
    if lines is None:
        return "!"
    if not lines:
        return "_"
    return ".".join("x" + hx(l) for l in lines)


def wire_problem(ref):
    segs = []
    for sec in "MTCSD":
        segs.append(",".join(wire_object(l) for l in ref["secs"][sec]) or "-")
    segs.append(wire_object(ref["children"]))
    return "/".join(segs)


def wire_adv(faults, fmt_exc="IllegalState"):
    code = {"child": "c", "open": "o", "close": "x", "replace": "r", "remove": "m", "post": "p"}
    out = []
    for f in faults:
        if f[0] == "format":
            out.append(("g%d" if fmt_exc in WARNING_CLASSES else "f%d") % f[1])
        elif f[0] == "write":
            out.append("w%d" % f[1])
        else:
            out.append(code[f[0]])
    return ",".join(out) or "-"


# ----------------------------------------------------------------------------- file system snapshots
def snapshot(d):
    """name -> ["F", hex] | ["D", {..}] | ["L", target]   (one level of nesting is enough here)"""
    out = {}
    for n in sorted(os.listdir(d)):
        p = os.path.join(d, n)
        if os.path.islink(p):
            # what the link is, and what is seen through it
            if os.path.isdir(p):
                seen = ["D", snapshot(p)]
            elif os.path.isfile(p):
                with open(p, "rb") as f:
                    seen = ["F", f.read().hex()]
            else:
                seen = None
            out[n] = ["L", os.readlink(p), seen]
        elif os.path.isdir(p):
            out[n] = ["D", snapshot(p)]
        else:
            with open(p, "rb") as f:
                out[n] = ["F", f.read().hex()]
    return out


def temp_name(parts, base, pid):
    return "".join(p[1] if p[0] == "L" else (base if p[0] == "B" else str(pid)) for p in parts)


def setup_state(root, case, temp_parts):
    """creates root/d with the prior state; returns (directory, path argument, cwd or None)"""
    d = os.path.join(root, "d")
    os.makedirs(d)
    with open(os.path.join(d, BYSTANDER), "w") as f:
        f.write("keep me\n")
    os.makedirs(os.path.join(root, "elsewhere"))
    base = case.get("base", "out.i")
    dest = os.path.join(d, base)
    st = case["state"]
    if st == "file":
        with open(dest, "w") as f:
            f.write(OLD)
        os.chmod(dest, 0o640)
    elif st == "emptyfile":
        open(dest, "w").close()
    elif st == "dir":
        os.makedirs(dest)
    elif st == "dir_nonempty":
        os.makedirs(dest)
        with open(os.path.join(dest, "inside.txt"), "w") as f:
            f.write("inside\n")
    elif st == "symlink_file":
        with open(os.path.join(root, "elsewhere", "target.i"), "w") as f:
            f.write(OLD)
        os.symlink(os.path.join(root, "elsewhere", "target.i"), dest)
    elif st == "symlink_dangling":
        os.symlink(os.path.join(root, "elsewhere", "nothing-here.i"), dest)
    elif st == "symlink_dir":
        os.makedirs(os.path.join(root, "elsewhere", "adir"))
        os.symlink(os.path.join(root, "elsewhere", "adir"), dest)
    stale = case.get("stale")
    if stale and temp_parts:
        tp = os.path.join(d, temp_name(temp_parts, base, os.getpid()))
        if stale == "file":
            with open(tp, "w") as f:
                f.write("stale temporary of an earlier crash\n")
        else:
            os.makedirs(tp)
    style = case.get("style", "abs")
    cwd = None
    if style == "abs":
        arg = dest
    elif style == "rel":
        cwd, arg = d, base
    elif style == "relsub":
        cwd, arg = root, os.path.join("d", base)
    elif style == "dot":
        cwd, arg = d, "./" + base
    elif style == "dotdot":
        arg = os.path.join(d, "..", "d", base)
    elif style == "pathlib":
        import pathlib
        arg = pathlib.Path(dest)
    else:
        raise ValueError(style)
    return d, arg, cwd


_COUNTER = [0]


def run_real(case, temp_parts=None):
    """one real write_to_file call under fault injection -> observation"""
    pr, ref = get_problem(case["text"], case.get("incomplete"))
    _COUNTER[0] += 1
    root = SCRATCH + f"{os.getpid()}-{_COUNTER[0]}"
    shutil.rmtree(root, ignore_errors=True)
    os.makedirs(root)
    old_cwd = os.getcwd()
    try:
        d, arg, cwd = setup_state(root, case, temp_parts)
        pre = snapshot(d)
        pre_else = snapshot(os.path.join(root, "elsewhere"))
        if case.get("readonly_dir"):
            os.chmod(d, 0o555)
        inj = Injector(case.get("faults", []), case.get("fmt_exc", "IllegalState"), dest=arg)
        exc = None
        if cwd:
            os.chdir(cwd)
        try:
            with Patched(pr, inj), warnings.catch_warnings():
                warnings.simplefilter(warning_filter(case.get("incomplete")))
                try:
                    pr.write_to_file(arg, overwrite=True) if case["ov"] else pr.write_to_file(arg)
                except Exception as e:
                    exc = e
        finally:
            os.chdir(old_cwd)
            if case.get("readonly_dir"):
                os.chmod(d, 0o755)
        post = snapshot(d)
        post_else = snapshot(os.path.join(root, "elsewhere"))
        cwd_left = sorted(os.listdir(root))
    finally:
        os.chdir(old_cwd)
        shutil.rmtree(root, ignore_errors=True)
    return {"exc": type(exc).__name__ if exc is not None else None, "exc_msg": str(exc)[:200] if exc else None,
            "cls": exc_class(exc, natural=exc is not None and not str(exc).startswith("injected")),
            "pre": pre, "post": post, "pre_else": pre_else, "post_else": post_else,
            "root_listing": cwd_left, "nf": inj.nf, "nw": inj.nw, "pid": os.getpid(),
            "opened": [os.path.basename(p) for p in inj.opened], "calls": inj.calls,
            "ref_bytes": ref["bytes"].hex() if ref["bytes"] is not None else None, "counts": ref["counts"]}


# ----------------------------------------------------------------------------- oracle
_READBACK = {}
READBACK_LOG = []


def complete_problem(data_hex, counts):
    """the bytes are a complete, readable problem with the expected numbers of objects"""
    key = (data_hex, tuple(counts))
    if key not in _READBACK:
        why = None
        for attempt in (1, 2):
            try:
                pr = mp.read_problem(bytes.fromhex(data_hex).decode("latin-1"),
                                     name=f"c15_rb_{os.getpid()}_{len(_READBACK)}_{attempt}.i")
                got = (len(pr.cells), len(pr.surfaces), len(pr.data_inputs))
                if got == tuple(counts):
                    why = None
                    break
                why = f"read back to {got} cells/surfaces/data inputs, expected {tuple(counts)}"
            except Exception as e:
                why = f"{type(e).__name__}: {str(e)[:300]}"
            READBACK_LOG.append({"attempt": attempt, "why": why})
        _READBACK[key] = why
    return _READBACK[key]


def oracle(case, obs, temp_parts=None):
    """the property's sentences on one observation -> list of {"kind", "detail"}"""
    out = []
    base = case.get("base", "out.i")
    pre, post = obs["pre"], obs["post"]
    st = case["state"]
    fault_kinds = {f[0] for f in case.get("faults", [])}
    planted = set()
    if case.get("stale") and temp_parts:
        planted.add(temp_name(temp_parts, base, obs["pid"]))
    def through(node):      # what open(path) sees
        return node[2] if node is not None and node[0] == "L" else node
    before = through(pre.get(base))
    after = through(post.get(base))
    ref = obs["ref_bytes"]

    def is_complete(node):
        if node is None or node[0] != "F":
            return False
        if ref is not None:
            return node[1] == ref
        return False        # a problem with an incomplete object has no complete rendering

    # things outside the destination's directory, the bystander, the content of a destination directory
    if obs["pre_else"] != obs["post_else"] and st not in STATES_LINKS:
        out.append({"kind": "other-path-changed", "detail": "another directory changed"})
    for n in pre:
        if n != base and n not in planted and pre[n] != post.get(n):
            out.append({"kind": "other-path-changed", "detail": n})
    new = [n for n in post if n not in pre and n != base]
    if obs["root_listing"] != ["d", "elsewhere"]:
        new += ["../" + n for n in obs["root_listing"] if n not in ("d", "elsewhere")]
    # guards
    # (which exception is raised is compared with the model, not demanded here: the property only says
    #  that a directory is never written to and an existing file never replaced without the flag)
    if st in ("dir", "dir_nonempty", "symlink_dir"):
        if obs["exc"] is None:
            out.append({"kind": "directory-guard", "detail": "returned normally although the destination is a directory"})
        if after != before:
            out.append({"kind": "directory-written", "detail": "the directory at the destination changed"})
    elif st in ("file", "emptyfile", "symlink_file") and not case["ov"]:
        if obs["exc"] is None:
            out.append({"kind": "exists-guard", "detail": "returned normally although the file exists and overwrite=False"})
        if after != before:
            out.append({"kind": "replaced-without-overwrite", "detail": "existing file changed although overwrite=False"})
    elif obs["exc"] is not None:
        # it raised: destination exactly as before, or a complete problem
        if after != before and not is_complete(after):
            out.append({"kind": "destination-destroyed",
                        "detail": {"before": None if before is None else [before[0], unhx(before[1])[:80] if before[0] == "F" else ""],
                                   "after": None if after is None else [after[0], unhx(after[1])[:200] if after[0] == "F" else ""],
                                   "raised": obs["exc"]}})
    else:
        # it returned: complete rendering
        if not is_complete(after):
            out.append({"kind": "incomplete-after-success",
                        "detail": None if after is None else [after[0], unhx(after[1])[:200] if after[0] == "F" else ""]})
        elif complete_problem(after[1], obs["counts"]) is not None:
            out.append({"kind": "unreadable-after-success",
                        "detail": "montepy does not read the written file back: " + complete_problem(after[1], obs["counts"])})
    # no truncated or partial file left anywhere (a failing os.remove itself cannot be cleaned up after)
    if new and "remove" not in fault_kinds:
        out.append({"kind": "leftover-temp" if obs["exc"] is not None else "leftover-after-success",
                    "detail": {"new_entries": new, "raised": obs["exc"],
                               "destination_intact": after == before}})
    return out


# ----------------------------------------------------------------------------- model side
def model_request(case, obs, wire, temp_parts, ref):
    if case["state"] not in STATES_MODEL:
        return None
    base = case.get("base", "out.i")
    ents = []
    for n, v in obs["pre"].items():
        if v[0] == "F":
            ents.append(hx(n) + ":F" + v[1])
        elif v[0] == "D":
            ents.append(hx(n) + ":D")
        else:
            return None
    adv = wire_adv(case.get("faults", []), case.get("fmt_exc"))
    # a temporary whose name does not fit the file system, or a directory in which nothing can be created, is the
    # crash point "open" of the model
    if (temp_parts and len(temp_name(temp_parts, base, obs["pid"])) > NAME_MAX) or case.get("readonly_dir"):
        if "o" not in adv.split(","):
            adv = "o" if adv == "-" else adv + ",o"
    return " ".join(["run", wire, "1" if case["ov"] else "0", hx(str(obs["pid"])), hx(base),
                     ",".join(ents) or "-", wire_problem(ref), adv])


def node_wire(node):
    if node is None:
        return "A"
    if node[0] == "F":
        return "F" + node[1]
    if node[0] == "D":
        return "D"
    return "L"


def compare_model(case, obs, answer):
    """-> None or a description of the disagreement"""
    parts = answer.split(" ")
    if len(parts) != 7:
        return {"model_answer": answer[:200]}
    res = parts[0]
    kv = dict(p.split("=", 1) for p in parts[1:])
    base = case.get("base", "out.i")
    tn = unhx(kv["tn"])
    real = {"result": obs["cls"], "d": node_wire(obs["post"].get(base)), "t": node_wire(obs["post"].get(tn)),
            "nf": str(obs["nf"]), "nw": str(obs["nw"])}
    others = all(obs["pre"][n] == obs["post"].get(n) for n in obs["pre"] if n not in (base, tn)) \
        and all(n in obs["pre"] or n in (base, tn) for n in obs["post"])
    real["o"] = "1" if others else "0"
    model = {"result": res, "d": kv["d"], "t": kv["t"], "nf": kv["nf"], "nw": kv["nw"], "o": kv["o"]}
    if any(f[0] == "close" for f in case.get("faults", [])) and real["t"][:1] == "F" and model["t"][:1] == "F":
        # a failing close loses the buffered text (not modelled): only the presence of the temporary is compared
        real["t"] = model["t"] = "F"
    if real != model:
        diff = {k: {"real": real[k][:120], "model": model[k][:120]} for k in real if real[k] != model[k]}
        return {"differs": diff, "temp_name": tn, "raised": obs["exc"], "msg": obs["exc_msg"]}
    return None


# ----------------------------------------------------------------------------- case generation
def gen_text(rng, big=False):
    P = gen.gen_problem(rng, dict(max_cells=rng.choice([10, 25, 60]) if big else 3))
    return gen.render(rng, P, gen.layout_opts(rng))


def synthetic_text(rng, n):
    """a large but simple problem: about n objects (cells + surfaces + a few data inputs)"""
    k = max(2, (n - 4) // 2)
    lines = ["synthetic problem with %d cells" % k]
    for c in range(1, k + 1):
        m = rng.choice([0, 0, 1])
        lines.append(("%d %s %s%d imp:n=%d" % (c, "1 -%.3f" % rng.uniform(0.5, 19) if m else "0",
                                               rng.choice(["-", "", "+"]), c, rng.choice([0, 1, 1])))
                     + rng.choice(["", "", " $ cell %d" % c]))
    lines.append("")
    for c in range(1, k + 1):
        lines.append("%d %s %s" % (c, rng.choice(["so", "cz", "px", "py", "pz"]), gen.fmt_real(rng, positive=True, style="fixed")))
    lines.append("")
    lines += ["mode n", "m1 1001.70c 2 8016.70c 1", "nps 1000"]
    return "\n".join(lines) + "\n"


def fault_sweep(ref, rng, tier):
    """every single crash point of the problem + combinations"""
    out = [[]]
    nf = ref["nf"]
    nw = ref["nw"]
    for k in range(nf):
        out.append([["format", k]])
    for j in range(nw):
        out.append([["write", j]])
    out += [[["child"]], [["open"]], [["close"]], [["replace"]], [["post"]]]
    # os.remove is only reached after another failure
    out.append([["format", rng.randrange(nf)], ["remove"]])
    if nw:
        out.append([["write", rng.randrange(nw)], ["remove"]])
        out.append([["write", rng.randrange(nw)], ["close"]])
        out.append([["write", nw], ["close"]])      # one past the last write: never reached
    out.append([["format", rng.randrange(nf)], ["close"]])
    out.append([["child"], ["close"], ["remove"]])
    out.append([["close"], ["post"]])
    out.append([["replace"], ["remove"]])
    out.append([["format", nf]])                    # one past the last format call: never reached
    # the temporary cannot be created AND the write sequence fails part-way, at every position
    for k in range(nf):
        out.append([["open"], ["format", k]])
    for j in sorted(set(rng.randrange(nw) for _ in range(3))) if nw else []:
        out.append([["open"], ["write", j]])
    out.append([["open"], ["close"]])
    out.append([["open"], ["child"]])
    n_extra = 3 if tier == "quick" else 12
    kinds = [["child"], ["open"], ["close"], ["replace"], ["remove"], ["post"]]
    for _ in range(n_extra):
        fs = []
        for _ in range(rng.choice([2, 2, 3])):
            r = rng.random()
            if r < 0.3:
                fs.append(["format", rng.randrange(nf + 1)])
            elif r < 0.6 and nw:
                fs.append(["write", rng.randrange(nw + 1)])
            else:
                fs.append(rng.choice(kinds))
        uniq = []
        for f in fs:
            if f not in uniq:
                uniq.append(f)
        out.append(uniq)
    return out


def cases_for_problem(i, seed, tier):
    """all cases of the i-th generated problem (called inside the worker: needs the reference run)"""
    rng = random.Random(f"{seed}:C15:{i}")
    big = tier == "thorough" and i % 10 == 9
    if i in (0, 1):
        text = MINIMAL
    elif tier == "thorough" and i % 50 == 49:
        text = synthetic_text(rng, rng.choice([60, 120, 200]))
    else:
        text = gen_text(rng, big)
    inc = None
    if i == 1:
        inc = "expand_cell"     # every seed has the `-W error` + expanding number case on the minimal problem
    elif i % 4 == 3:
        inc = rng.choice(["cell", "surface", "material", "expand_cell"])
    try:
        pr, ref = get_problem(text, inc)
    except Exception as e:
        return text, None, [], f"{type(e).__name__}: {e}"
    cases = []
    base = rng.choice(["out.i", "out.i", "new problem.mcnp", ".hidden", "a.b.c", "out"])
    sweep = fault_sweep(ref, rng, tier)
    exhaustive_states = [("absent", False), ("file", True)]
    if rng.random() < 0.5:
        exhaustive_states.append(("absent", True))
    if rng.random() < 0.3:
        exhaustive_states.append(("emptyfile", True))
    if big:       # a big problem: one state exhaustively
        exhaustive_states = [rng.choice([("absent", False), ("file", True)])]
    styles = list(STYLES)
    for st, ov in exhaustive_states:
        for faults in sweep:
            cases.append({"text": text, "incomplete": inc, "state": st, "ov": ov, "base": base,
                          "style": rng.choice(styles), "faults": faults,
                          "fmt_exc": rng.choice(["IllegalState", "ValueError"])})
            if any(f[0] == "format" for f in faults):
                # the same position failing with a Warning subclass (a warning turned into an error)
                cases.append({"text": text, "incomplete": inc, "state": st, "ov": ov, "base": base,
                              "style": rng.choice(styles), "faults": faults,
                              "fmt_exc": rng.choice(list(WARNING_CLASSES))})
    # destination names within 3 characters of NAME_MAX: the temporary's longer name does not fit (ENAMETOOLONG,
    # a real OSError, nothing injected) while the destination's does — with a failure at every format position;
    # for a non-root user also a directory in which no new file can be created
    fsweep = [[]] + [[["format", k]] for k in range(ref["nf"])] + ([[["write", rng.randrange(ref["nw"])]]] if ref["nw"] else [])
    for st, ov in (("absent", False), ("file", True)):
        L = rng.randint(NAME_MAX - 3, NAME_MAX)
        long_base = "L" * (L - 2) + ".i"
        for faults in fsweep:
            cases.append({"text": text, "incomplete": inc, "state": st, "ov": ov, "base": long_base,
                          "style": rng.choice(styles), "faults": faults, "fmt_exc": rng.choice(["IllegalState", "ValueError"])})
        if os.geteuid() != 0:
            for faults in fsweep:
                cases.append({"text": text, "incomplete": inc, "state": st, "ov": ov, "base": base, "readonly_dir": True,
                              "style": rng.choice(styles), "faults": faults, "fmt_exc": "IllegalState"})
    # guard states: the adversary is irrelevant there, a few faults each
    for st, ov in (("dir", True), ("dir", False), ("dir_nonempty", True), ("file", False), ("emptyfile", False)):
        for faults in [[]] + rng.sample(sweep, min(3, len(sweep))):
            cases.append({"text": text, "incomplete": inc, "state": st, "ov": ov, "base": base,
                          "style": rng.choice(styles), "faults": faults, "fmt_exc": "IllegalState"})
    # a stale temporary of the same name (an earlier crash of a process with the same pid), file or directory
    for stale in ("file", "dir"):
        for faults in [[]] + rng.sample(sweep, min(3, len(sweep))):
            cases.append({"text": text, "incomplete": inc, "state": rng.choice(["absent", "file"]), "ov": True,
                          "base": base, "style": rng.choice(styles), "faults": faults, "stale": stale,
                          "fmt_exc": "IllegalState"})
    # symbolic links at the destination: oracle only (the model's file system has no links)
    link_states = STATES_LINKS if (tier == "thorough" or i % 3 == 0) else ()
    for st in link_states:
        for ov in (True, False):
            for faults in [[]] + rng.sample(sweep, min(4 if tier == "quick" else 12, len(sweep))):
                cases.append({"text": text, "incomplete": inc, "state": st, "ov": ov, "base": base,
                              "style": rng.choice(styles), "faults": faults, "fmt_exc": "IllegalState"})
    return text, ref, cases, None


def eval_problem(args):
    """worker: every case of one problem -> list of results"""
    i, seed, tier, wire, temp_parts = args
    warnings.simplefilter("ignore")
    del READBACK_LOG[:]
    text, ref, cases, err = cases_for_problem(i, seed, tier)
    if err:
        return {"i": i, "error": err, "results": []}
    results = []
    for c in cases:
        obs = run_real(c, temp_parts)
        req = model_request(c, obs, wire, temp_parts, ref) if wire else None
        results.append({"case": c, "obs": slim(obs), "req": req, "fails": oracle(c, obs, temp_parts),
                        "cmp": {"cls": obs["cls"], "nf": obs["nf"], "nw": obs["nw"], "pid": obs["pid"],
                                "exc": obs["exc"], "exc_msg": obs["exc_msg"], "pre": obs["pre"], "post": obs["post"]}})
    nobj = ref["nf"]
    return {"i": i, "error": None, "results": results, "nobj": nobj, "nw": ref["nw"], "readback_log": list(READBACK_LOG),
            "incomplete": cases[0].get("incomplete") if cases else None,
            "text": text, "render_problem": wire_problem(ref) if ref["bytes"] is not None else None,
            "ref_bytes": ref["bytes"].hex() if ref["bytes"] is not None else None}


def slim(obs):
    return {"exc": obs["exc"], "nf": obs["nf"], "nw": obs["nw"], "opened": obs["opened"], "calls": obs["calls"]}


# ----------------------------------------------------------------------------- single case helpers (replay, shrink, findings)
def current_wire():
    import translate_writer as TW
    try:
        ir = TW.translate()
        return ir["wire"], ir["temp"]
    except Exception:
        return None, None


def oracle_failures(case, temp_parts=None):
    """run one case on the real code and return the oracle's failures"""
    if temp_parts is None:
        _, temp_parts = current_wire()
    obs = run_real(case, temp_parts)
    return oracle(case, obs, temp_parts)


def shrink(case, kind, temp_parts):
    def failing(c):
        try:
            return any(f["kind"] == kind for f in oracle_failures(c, temp_parts))
        except Exception:
            return False
    cur = dict(case)
    # fewer faults
    for i in range(len(cur.get("faults", [])) - 1, -1, -1):
        cand = dict(cur, faults=cur["faults"][:i] + cur["faults"][i + 1:])
        if failing(cand):
            cur = cand
    for k, v in (("incomplete", None), ("stale", None), ("style", "abs"), ("base", "out.i"), ("fmt_exc", "IllegalState"),
                 ("readonly_dir", None)):
        if cur.get(k) != v:
            cand = dict(cur, **{k: v})
            if failing(cand):
                cur = cand
    if cur["state"] not in ("absent", "file"):
        for st in ("absent", "file"):
            cand = dict(cur, state=st)
            if failing(cand):
                cur = cand
                break
    # the smallest problem, fault positions moved to the front
    if cur["text"] != MINIMAL:
        for pos in (0, 1, 2, 3):
            fl = [[f[0], min(f[1], pos)] if f[0] in ("format", "write") else f for f in cur.get("faults", [])]
            cand = dict(cur, text=MINIMAL, faults=fl)
            if failing(cand):
                cur = cand
                break
    else:
        for pos in (0, 1):
            fl = [[f[0], pos] if f[0] in ("format", "write") else f for f in cur.get("faults", [])]
            cand = dict(cur, faults=fl)
            if fl != cur.get("faults") and failing(cand):
                cur = cand
                break
    return cur


def replay(ctx, path):
    with open(path) as f:
        case = json.load(f)
    c = case.get("case", case)
    kind = case.get("kind")
    fails = oracle_failures(c)
    bad = [f for f in fails if kind is None or f["kind"] == kind] or fails
    if bad:
        print(f"REPLAY property=C15 still fails: {bad[0]['kind']}")
        print(f"VIOLATION property=C15 replay={path}")
        return 1
    print("REPLAY property=C15 passes")
    return 0


# ----------------------------------------------------------------------------- the check
def run(ctx):
    import translate_writer as TW
    t0 = time.time()
    quick = ctx.tier == "quick"
    n_problems = 24 if quick else 400
    # ---- 1. translate the current source, prove
    wire = None
    temp_parts = None
    try:
        ir = TW.regenerate()
        wire, temp_parts = ir["wire"], ir["temp"]
        digest = ir["digest"]
    except Exception as e:
        digest = None
        ctx.broken_obligations.append({
            "obligation": "translate_writer: write_to_file / MCNP_InputFile.open/__exit__ are in the shape the model understands",
            "detail": f"{type(e).__name__}: {e}"})
    if wire is not None:
        ctx.prove()
    else:
        ctx.cov["obligations"] += len(vlib.property_theorems("Properties/C15.v"))
    ok, log = vlib.coq_make(["Model/Write.vo"])
    if not ok:
        ctx.broken_obligations.append({"obligation": "Model/Write.vo builds", "detail": log[-800:]})
        wire = None
    diag = {}
    if wire is not None:
        ans = vlib.model_ask("Write", ["check " + wire])[0]
        for item in ans.split(" "):
            if "=" in item:
                name, rest = item.split("=", 1)
                val, _, wit = rest.partition(":")
                diag[name] = {"holds": val == "1", "witness": wit}
        # when the proof build broke, say which reflective condition of the generated list is false
        if ctx.broken_obligations:
            falses = {k: v["witness"] for k, v in diag.items()
                      if not v["holds"] and k not in ("cleanup_total", "all_formats_precede_open", "w_strips")}
            ctx.broken_obligations.append({"obligation": "reflective conditions of Gen/Writer.v (vm_compute)",
                                           "detail": {"false": falses, "wire": wire}})
    # ---- 2. corpus + generated problems through the workers
    corpus = []
    cdir = os.path.join(vlib.VERIF, "corpus", "C15")
    if os.path.isdir(cdir):
        for f in sorted(os.listdir(cdir)):
            if f.endswith(".json"):
                with open(os.path.join(cdir, f)) as fh:
                    c = json.load(fh)
                corpus.append((f, c.get("case", c), c.get("kind")))
    dist = {"problems": 0, "problem_read_failed": 0, "objects_per_problem": {}, "write_calls_per_problem": {},
            "state": {}, "style": {}, "overwrite": {"True": 0, "False": 0}, "fault_kind": {}, "faults_per_case": {},
            "outcome": {}, "incomplete_object": {}, "stale_temp": 0, "model_compared": 0, "oracle_only": 0,
            "corpus": len(corpus), "max_objects": 0, "max_write_calls": 0}
    for name, c, kind in corpus:
        fails = oracle_failures(c, temp_parts)
        ctx.count_case(("corpus", name), nontrivial=True)
        for f in fails:
            ctx.fail({"kind": f["kind"], "case": c, "detail": f["detail"], "corpus": name})
    tasks = [(i, ctx.seed, ctx.tier, wire, temp_parts) for i in range(n_problems)]
    nproc = 3 if quick else 4
    import multiprocessing as mpc
    pool = mpc.get_context("fork").Pool(nproc)
    try:
        outs = pool.map(eval_problem, tasks, chunksize=1)
    finally:
        pool.close()
        pool.join()
    reqs, where = [], []
    fail_cases = {}
    for o in outs:
        if o["error"]:
            dist["problem_read_failed"] += 1
            continue
        dist["problems"] += 1
        b = str(min(o["nobj"] // 4 * 4, 200))
        dist["objects_per_problem"][b] = dist["objects_per_problem"].get(b, 0) + 1
        dist["max_objects"] = max(dist["max_objects"], o["nobj"])
        b = str(o["nw"] // 10 * 10)
        dist["write_calls_per_problem"][b] = dist["write_calls_per_problem"].get(b, 0) + 1
        dist["max_write_calls"] = max(dist["max_write_calls"], o["nw"])
        dist["incomplete_object"][str(o["incomplete"])] = dist["incomplete_object"].get(str(o["incomplete"]), 0) + 1
        if o.get("readback_log"):
            dist.setdefault("readback_retries", []).extend(o["readback_log"][:3])
        for r in o["results"]:
            c = r["case"]
            ctx.cov["programs"] += 1
            kinds = sorted({f[0] for f in c["faults"]}) or ["none"]
            ctx.count_case((o["i"], c["state"], c["ov"], c["style"], str(c["faults"]), c.get("stale")),
                           nontrivial=bool(c["faults"]) or c["state"] != "absent")
            dist["state"][c["state"]] = dist["state"].get(c["state"], 0) + 1
            if len(c.get("base", "")) >= NAME_MAX - 3:
                dist["name_within_3_of_NAME_MAX"] = dist.get("name_within_3_of_NAME_MAX", 0) + 1
            if c.get("readonly_dir"):
                dist["readonly_dir"] = dist.get("readonly_dir", 0) + 1
            dist["style"][c["style"]] = dist["style"].get(c["style"], 0) + 1
            dist["overwrite"][str(c["ov"])] += 1
            for k in kinds:
                dist["fault_kind"][k] = dist["fault_kind"].get(k, 0) + 1
            n = str(len(c["faults"]))
            dist["faults_per_case"][n] = dist["faults_per_case"].get(n, 0) + 1
            oc = r["obs"]["exc"] or "returned"
            dist["outcome"][oc] = dist["outcome"].get(oc, 0) + 1
            dist["stale_temp"] += bool(c.get("stale"))
            if r["req"] is not None:
                reqs.append(r["req"])
                where.append(r)
            else:
                dist["oracle_only"] += 1
            for f in r["fails"]:
                fail_cases.setdefault(f["kind"], []).append((c, f))
    if len(ctx.cov["samples"]) < 3 and outs and outs[0]["results"]:
        for r in outs[0]["results"][:3]:
            ctx.sample({"case": dict(r["case"], text=r["case"]["text"][:200]), "observed": r["obs"]})
    # ---- 3. model answers, cross-check inside Coq, comparison
    corr_bad = []
    nx = 0
    if wire is not None and reqs:
        answers = vlib.model_ask("Write", reqs)
        small = [k for k, q in enumerate(reqs) if len(q) < 6000]
        sample_reqs = [reqs[k] for k in small]
        sample_ans = [answers[k] for k in small]
        nx, bad = vlib.vm_crosscheck("Write", sample_reqs, sample_ans, sample=40 if quick else 200, seed=ctx.seed)
        if bad:
            ctx.broken_obligations.append({"obligation": "extraction cross-check Write", "detail": bad[:2]})
        for r, a in zip(where, answers):
            dist["model_compared"] += 1
            ctx.cov["disagreements_checked"] += 1
            obs = dict(r["cmp"])
            d = compare_model(r["case"], obs, a)
            if d is not None:
                corr_bad.append({"case": dict(r["case"], text=r["case"]["text"][:300]), "disagreement": d})
        if corr_bad:
            ctx.broken_obligations.append({
                "obligation": "correspondence: run_writer (Gen/Writer.v step list) vs the real write_to_file under fault injection",
                "detail": {"n": len(corr_bad), "first": corr_bad[0]}})
    # ---- 3b. the complete file has MCNP's block structure: the bytes of a fault-free real write are the
    #          model's spec_render of the recorded lines (what C15_success promises about the model)
    if wire is not None or ok:
        # (whether lines are right-stripped is read off the generated step list: C15 does not care)
        strip = "1" if (not diag or diag.get("w_strips", {}).get("holds")) else "0"
        rr = [o for o in outs if not o["error"] and o.get("render_problem")]
        rans = vlib.model_ask("Write", [f"render {strip} " + o["render_problem"] for o in rr]) if rr else []
        for o, a in zip(rr, rans):
            ctx.cov["disagreements_checked"] += 1
            if a != o["ref_bytes"]:
                exp = unhx(a) if not a.startswith("parse:") else a
                got = unhx(o["ref_bytes"])
                k = next((x for x in range(min(len(exp), len(got))) if exp[x] != got[x]), min(len(exp), len(got)))
                ctx.fail({"kind": "block-structure", "case": {"text": o["text"], "incomplete": None, "state": "absent",
                                                             "ov": False, "style": "abs", "faults": []},
                          "detail": {"first_difference_at": k, "written": got[max(0, k - 80):k + 80],
                                     "expected": exp[max(0, k - 80):k + 80]}})
                if len(ctx.violations) >= 5:
                    break
    # ---- 4. oracle failures: shrink the first of each kind, hand every one to the findings filter
    for kind, lst in fail_cases.items():
        shrunk_done = 0
        for c, f in lst:
            if shrunk_done < 2:
                small = shrink(c, kind, temp_parts)
                fs = [x for x in oracle_failures(small, temp_parts) if x["kind"] == kind]
                if fs:
                    c, f = small, fs[0]
                shrunk_done += 1
            new_violation = ctx.fail({"kind": kind, "case": c, "detail": f["detail"]})
            if new_violation and len(ctx.violations) >= 5:
                break
    dist["oracle_failures_by_kind"] = {k: len(v) for k, v in fail_cases.items()}
    # ---- 5. known findings: replay the committed ones
    for fd in ctx.findings:
        if fd.get("status") == "open" and fd.get("replay"):
            try:
                with open(os.path.join(vlib.VERIF, fd["replay"])) as fh:
                    c = json.load(fh)
                kind = c.get("kind")
                fs = oracle_failures(c.get("case", c), temp_parts)
                fd["_reproduced"] = any(f["kind"] == kind for f in fs)
            except Exception:
                fd["_reproduced"] = False
    # scratch directories of this run's processes, should a worker have died half-way
    pids = {os.getpid()} | {r["cmp"]["pid"] for o in outs for r in o["results"]}
    for n in os.listdir("/tmp"):
        if n.startswith("C15-") and n.split("-")[1].isdigit() and int(n.split("-")[1]) in pids:
            shutil.rmtree(os.path.join("/tmp", n), ignore_errors=True)
    tb = vlib.KERNEL_TB + [
        "harness/translate_writer.py (AST walk of MCNP_Problem.write_to_file and MCNP_InputFile.__init__/path/open/"
        "__enter__/__exit__/write; fails closed on any statement it does not know) decides which steps Gen/Writer.v lists; "
        f"digest of the translated functions {digest}",
        "modelled, not verified: the meaning of the steps (Model/Write.v): os.path.isfile/isdir, open(..., 'w') creating or "
        "truncating, file.write appending, close, os.replace, os.remove over one flat directory path -> Absent|File|Dir; "
        "NOT modelled: permission bits (shutil.copymode is a no-op), symbolic links (oracle only), buffering inside the file "
        "object, fsync / power loss, other processes; the lines of each object are an input of the model (recorded from a "
        "fault-free real run), not computed by it",
        "fault injection: format_for_mcnp_input / _run_children_format_for_mcnp / _handle_warnings wrapped per instance, "
        "the names `open` and `os` of montepy.input_parser.input_file rebound to proxies for the duration of one call",
        f"vm_compute cross-check of {nx} model requests",
    ]
    assumptions = [
        "C15_atomic / C15_no_leftover: the temporary's name is not taken before the call (f (tmp pid d) = Absent); "
        "C15_guards / C15_success / C15_frame / C15_atomic_any_adversary: none",
        "C15_no_leftover assumes that os.remove of the temporary itself does not fail (nothing could clean up after that)",
        "complete problem = the bytes of a fault-free write of the same problem (which montepy reads back to the same "
        "numbers of cells, surfaces and data inputs)",
    ]
    extra = {"input_distribution": dist,
             "generated_step_list": wire,
             "reflective_conditions": {k: v["holds"] for k, v in diag.items()},
             "all_formats_precede_open_note": "false on the current source by design: objects are formatted one by one "
             "while the TEMPORARY is open; harmless because no step writes to the destination before os.replace "
             "(writes_go_to_temp_then_replace), so the order is not an obligation",
             "wall_breakdown_s": {"total": round(time.time() - t0, 1)}}
    return ctx.finish(
        tb, assumptions,
        "cases = (generated problem of G_core, <= 12 objects quick / up to ~200 thorough, every 4th with a really incomplete "
        "object) x (prior state: absent, file, empty file, directory, non-empty directory, stale temporary, symbolic links) x "
        "(overwrite flag) x (path style: absolute, relative, ./, ../, pathlib) x (EVERY single format call k, EVERY single "
        "write call j, child cards, open, close, os.replace, os.remove, warning hand-over, and random combinations); "
        "distinct = distinct (problem, state, flag, style, fault set); non-trivial = at least one fault or a destination that exists",
        extra=extra)
