"""C14 — a rejected edit leaves the problem unchanged.

Obligations: coq/Properties/C14.v (theorems over coq/Model/Setter.v, applied to coq/Gen/Setters.v, which
harness/translate_setters.py regenerates from the source of MontePy on every run; collection mutators:
Model/Coll.v, property C06).

Real side.  Two problems A and B are read from the same text and driven in lock step through a program
of valid edits (harness/edits.py) and observations.  At random points an *invalid* call is made on A
only.  After it:
  * the call must have raised (model says rejected  <=>  code rejects);
  * snapshot(A) == snapshot(B): every public attribute read of every object reachable from the problem,
    normalised, plus str/repr/len/iteration — and write_to_file(A) == write_to_file(B) byte for byte;
  * the program goes on (later valid edits on both): every later comparison is the sentence "later valid
    edits behave as if the rejected call had not happened".
B is the control: whatever observation itself changes (C19's business) happens to both.

Correspondence.  Every real call of a translated setter is traced (sys.settrace, line events of the
frames of the functions the IR was translated from); the trace is walked along the IR: it yields the
adversary's choices (which statement raised, branch decisions, iteration counts, kinds of rebound
arguments) and validates the translator's claims (an exception may only surface at a statement the IR
says may raise; a statement that executed must be where the IR expects it).  The extracted model
`Setter.exec` is then run with that oracle: result (ok / error statement and class) and executed
mutation statements must agree with the real call; the kind-determined checks (isinstance, iteration)
are decided by the model alone.  A changed snapshot after a raise requires an executed mutation
statement in the IR, and for a checks-first setter (theorem C14_checks_first) cannot happen at all.
"""
import enum
import json
import math
import os
import random
import re
import sys
import time
import warnings

import vlib
import gen
import edits as ED
import mp
import translate_setters as TS

PROP = "C14"

# setters that Properties/C14.v excludes from C14_all_setters (failing checks_first on the unchanged tree) -> finding.
# Empty since the six repairs of findings/C14.fixed.json were applied to /repo: every setter is checks-first.
EXCLUDED = {}

RICH = """C14 rich base problem
1 1 -2.5 -1 2 -3 imp:n=1 imp:p=1 vol=3.0 u=2
2 2 0.05 (1:-2) -4 imp:n=2 imp:p=1 u=2
3 0 4 -5 #1 imp:n=1 imp:p=0.5 fill=2 (1)
4 0 -6 7 -8 imp:n=1 imp:p=1 lat=1 u=3 fill=0:1 0:0 0:0 2 2
5 1 -1.0 5 -9 imp:n=1 imp:p=1 fill=3
6 0 9 imp:n=0 imp:p=0

1 so 5.0
2 px 1.5
3 c/z 1.0 2.0 3.5
4 1 cz 8.0
5 so 20.0
*6 px -10
7 -8 py -3.0
8 py 3.0
+9 so 30.0
10 k/z 0 0 1 0.5 1

mode n p
m1 1001.80c 0.6 8016.80c 0.4
mt1 lwtr.10t
m2 92235.80c 0.05 92238.80c 0.95
tr1 1.0 2.0 3.0
*tr2 0 0 0 30 60 90 120 30 90 90 90 0
nps 1000
"""


# =================================================================================================
# snapshot: every public attribute read of every object reachable from the problem
# =================================================================================================
_HEX = re.compile(r"0x[0-9a-fA-F]+")


def _is_problem_object(o):
    """MontePy objects that make up a problem (not syntax-tree nodes, not enum members, not classes)"""
    t = type(o)
    m = getattr(t, "__module__", "") or ""
    if not m.startswith("montepy"):
        return False
    if isinstance(o, (enum.Enum, type)):
        return False
    if m.startswith("montepy.input_parser"):
        return False
    return True


def _is_syntax_node(o):
    m = getattr(type(o), "__module__", "") or ""
    return m.startswith("montepy.input_parser")


SKIP_ATTRS = {
    # not reads of the problem: class-level constants / bookkeeping of the parser objects
    "allowed_keywords",
}


class Snap:
    """snapshot of a problem: label -> {attribute -> normalised value}; label -> object"""

    def __init__(self, problem, extra_roots=(), probes=()):
        self.probes = list(probes)      # numbers to look up in every collection, members or not
        self.data = {}
        self.objs = {}
        self._label = {}
        self._queue = []
        self._enqueue(problem, "problem")
        for i, r in enumerate(extra_roots):
            if _is_problem_object(r):
                self._enqueue(r, "arg%d" % i)
        with warnings.catch_warnings():
            warnings.simplefilter("ignore")
            while self._queue:
                o, lab = self._queue.pop(0)
                self.data[lab] = self._read(o, lab)

    def _enqueue(self, o, lab):
        if id(o) in self._label:
            return self._label[id(o)]
        self._label[id(o)] = lab
        self.objs[lab] = o
        self._queue.append((o, lab))
        return lab

    def _norm(self, v, path, depth=0):
        if v is None or isinstance(v, bool):
            return v
        if isinstance(v, str):
            return _HEX.sub("0x", v) if "0x" in v else v     # str(object()) of an accepted odd argument
        if isinstance(v, int):
            return ("int", str(v))
        if isinstance(v, float):
            return ("float", "nan" if math.isnan(v) else v.hex())
        if isinstance(v, complex):
            return ("complex", repr(v))
        if isinstance(v, enum.Enum):
            return ("enum", type(v).__name__, v.name)
        if isinstance(v, type):
            return ("class", v.__name__)
        try:
            import numpy as np
            if isinstance(v, np.ndarray):
                return ("array", list(v.shape), str(v.dtype.kind),
                        [self._norm(x, path + "[%d]" % i, depth + 1) for i, x in enumerate(v.flatten().tolist())]
                        if v.dtype.kind != "O" else
                        [self._norm(x, path + "[%d]" % i, depth + 1) for i, x in enumerate(v.flatten())])
            if isinstance(v, np.generic):
                return self._norm(v.item(), path, depth)
        except ImportError:
            pass
        if depth > 6:
            return ("deep", type(v).__name__)
        if isinstance(v, (list, tuple)):
            return [type(v).__name__] + [self._norm(x, path + "[%d]" % i, depth + 1) for i, x in enumerate(v)]
        if isinstance(v, (set, frozenset)):
            items = [self._norm(x, path + "{}", depth + 1) for x in v]
            return ["set"] + sorted(items, key=repr)
        if isinstance(v, dict):
            items = [(self._norm(k, path + ".key%d" % i, depth + 1), self._norm(x, path + "[%s]" % _keystr(k), depth + 1))
                     for i, (k, x) in enumerate(v.items())]
            return ["dict"] + [list(kv) for kv in items]      # insertion order is observable
        if _is_problem_object(v):
            return ("ref", self._enqueue(v, path))
        if _is_syntax_node(v):
            try:
                txt = v.format()
            except Exception as e:
                txt = "format raises " + type(e).__name__
            return ("node", type(v).__name__, _HEX.sub("0x", txt))
        if hasattr(v, "__next__") or type(v).__name__ in ("generator", "dict_keys", "dict_values", "dict_items",
                                                           "map", "filter", "zip"):
            try:
                return ["iter"] + [self._norm(x, path + "[%d]" % i, depth + 1) for i, x in enumerate(list(v))]
            except Exception as e:
                return ("iter raises", type(e).__name__)
        return ("repr", type(v).__name__, _HEX.sub("0x", repr(v))[:200])

    def _read(self, o, lab):
        out = {"__class__": type(o).__name__}
        names = set()
        for c in type(o).__mro__:
            names.update(n for n in c.__dict__ if not n.startswith("_"))
        names.update(n for n in getattr(o, "__dict__", {}) if not n.startswith("_"))
        for n in sorted(names - SKIP_ATTRS):
            static = None
            for c in type(o).__mro__:
                if n in c.__dict__:
                    static = c.__dict__[n]
                    break
            if static is not None and not isinstance(static, property) and (
                    callable(static) or isinstance(static, (staticmethod, classmethod))):
                continue       # methods are not attribute reads
            try:
                v = getattr(o, n)
            except Exception as e:
                out[n] = ("raises", type(e).__name__)
                continue
            if callable(v) and not _is_problem_object(v):
                continue
            out[n] = self._norm(v, lab + "." + n)
        # the other zero-argument observations: str, repr, len, iteration, membership keys
        for fn, key in ((str, "str()"), (repr, "repr()")):
            try:
                txt = fn(o)
                if key == "repr()" and "\nNumber cache:" in txt:
                    # NumberedObjectCollection.__repr__ prints its private number cache, which no look-up trusts
                    # (C06_lookup) and which look-ups refresh: not a read of the problem
                    txt = txt[:txt.index("\nNumber cache:")]
                out[key] = _HEX.sub("0x", txt)[:400]
            except Exception as e:
                out[key] = ("raises", type(e).__name__)
        if hasattr(type(o), "__len__"):
            try:
                out["len()"] = len(o)
            except Exception as e:
                out["len()"] = ("raises", type(e).__name__)
        if hasattr(type(o), "__iter__"):
            try:
                out["iter()"] = [self._norm(x, lab + "[%d]" % i) for i, x in enumerate(list(o))]
            except Exception as e:
                out["iter()"] = ("raises", type(e).__name__)
        # what the importance object answers for every particle of the mode (and that others are refused)
        if type(o).__name__ == "Importance":
            import montepy
            vals = []
            for p in montepy.particle.Particle:
                try:
                    vals.append((p.name, self._norm(o[p], lab)))
                except Exception as e:
                    vals.append((p.name, type(e).__name__))
            out["[particle]"] = vals
        # the modifier inputs of a cell are public classes with public setters, held in private attributes
        if type(o).__name__ in ("Cell", "Cells"):
            for n in ("_volume", "_universe", "_lattice"):
                v = getattr(o, n, None)
                if v is not None and _is_problem_object(v):
                    out["(held) " + n] = ("ref", self._enqueue(v, lab + "." + n))
        # look-ups by number, also for numbers that are not members (a rejected call must not leave an object
        # behind that get(n) / [n] / a slice hands out): the numbers that appeared in the arguments of the calls so far
        if self.probes and hasattr(type(o), "append_renumber") and hasattr(type(o), "get"):
            looks = []
            for n in self.probes:
                row = [n]
                try:
                    row.append(self._norm(o.get(n), lab + ".get(%d)" % n))
                except Exception as e:
                    row.append(("raises", type(e).__name__))
                try:
                    row.append(self._norm(o[n], lab + ".get(%d)" % n))
                except Exception as e:
                    row.append(("raises", type(e).__name__))
                try:
                    row.append([self._norm(x, lab + ".get(%d)" % x.number) for x in o[n - 1:n + 2]])
                except Exception as e:
                    row.append(("raises", type(e).__name__))
                looks.append(row)
            out["get(n) [n] [n-1:n+2]"] = looks
        if type(o).__name__ == "CellDataPrintController":
            out["[key]"] = []
            for k in ("imp", "vol", "u", "lat", "fill"):
                try:
                    out["[key]"].append((k, o[k]))
                except Exception as e:
                    out["[key]"].append((k, type(e).__name__))
        return out

    def diff(self, other, limit=6):
        """first differences: list of (label, attribute, mine, theirs)"""
        out = []
        for lab in sorted(set(self.data) | set(other.data)):
            a, b = self.data.get(lab), other.data.get(lab)
            if a is None or b is None:
                out.append((lab, "<object>", "present" if a is not None else "absent", "present" if b is not None else "absent"))
            elif a != b:
                for k in sorted(set(a) | set(b)):
                    if a.get(k, "<no attribute>") != b.get(k, "<no attribute>"):
                        out.append((lab, k, _short(a.get(k, "<no attribute>")), _short(b.get(k, "<no attribute>"))))
                        if len(out) >= limit:
                            return out
            if len(out) >= limit:
                break
        return out


def _keystr(k):
    return k.name if isinstance(k, enum.Enum) else str(k)


def _short(v):
    s = repr(v)
    return s if len(s) < 300 else s[:300] + "..."


def written(problem, name):
    """bytes write_to_file produces, or the class of the exception"""
    try:
        return _HEX.sub("0x", mp.write_problem(problem, name))
    except Exception as e:
        return "WRITE RAISES " + type(e).__name__


# =================================================================================================
# argument specifications (JSON-able) and the kind of a value as the model sees it
# =================================================================================================
def kind_of(v):
    """kind token of a Python value (coq/Model/Setter.v: rd_kind_tok)"""
    import numbers
    import numpy as np
    if isinstance(v, bool):
        return "b"
    if isinstance(v, int):
        return "i"
    if isinstance(v, float):
        return "f"
    if v is None:
        return "n"
    if isinstance(v, str):
        return "s"
    if isinstance(v, complex):
        return "c"
    if type(v) is list:
        return "l"
    if type(v) is tuple:
        return "t"
    if type(v) is set:
        return "e"
    if type(v) is dict:
        return "d"
    if isinstance(v, np.ndarray):
        return "a"
    if isinstance(v, numbers.Number):
        return "r"
    m = getattr(type(v), "__module__", "") or ""
    if m.startswith("montepy"):
        return "o" + type(v).__name__.encode().hex()
    return "x"


def L(v):
    return {"t": "lit", "v": v}


def O(label):
    return {"t": "obj", "label": label}


def build(spec, objs):
    """spec -> Python value; objs: label -> object of the problem the value is built for"""
    import numpy as np
    import montepy
    t = spec["t"]
    if t == "lit":
        return spec["v"]
    if t == "float":
        return float(spec["v"])
    if t == "bigint":
        return int(spec["sign"]) * 10 ** int(spec["exp"])
    if t == "complex":
        return complex(spec["re"], spec["im"])
    if t == "fraction":
        import fractions
        return fractions.Fraction(spec["n"], spec["d"])
    if t == "decimal":
        import decimal
        return decimal.Decimal(spec["v"])
    if t == "npfloat":
        return np.float64(float(spec["v"]))
    if t == "npint":
        return np.int64(spec["v"])
    if t == "object":
        return object()
    if t == "obj":
        return objs[spec["label"]]
    if t == "list":
        return [build(x, objs) for x in spec["items"]]
    if t == "tuple":
        return tuple(build(x, objs) for x in spec["items"])
    if t == "set":
        return set(build(x, objs) for x in spec["items"])
    if t == "dict":
        return {build(k, objs): build(v, objs) for k, v in spec["items"]}
    if t == "array":
        items = [build(x, objs) for x in spec["items"]]
        dt = {"float": float, "int": int, "object": object, "str": str}[spec.get("dtype", "float")]
        a = np.array(items, dtype=dt) if dt is not object else _obj_array(items)
        return a.reshape(spec["shape"]) if spec.get("shape") is not None else a
    if t == "particle":
        return montepy.particle.Particle[spec["name"]]
    if t == "enum":
        cls = {"Lattice": montepy.data_inputs.lattice.Lattice, "SurfaceType": montepy.surfaces.surface_type.SurfaceType,
               "Operator": montepy.geometry_operators.Operator}[spec["cls"]]
        return cls[spec["name"]]
    if t == "new":
        return _new_object(spec)
    if t == "cells":
        from montepy.cells import Cells
        members = [build(x, objs) for x in spec["items"]]
        c = Cells(members)
        for i, n in spec.get("renumber", []):      # free-standing cells: the number setter has no collection to ask
            members[i].number = n
        return c
    if t == "hs":
        return _build_hs(spec, objs)
    raise ValueError("spec " + t)


def _obj_array(items):
    import numpy as np
    a = np.empty(len(items), dtype=object)
    for i, x in enumerate(items):
        a[i] = x
    return a


def _new_object(spec):
    import montepy
    from montepy.input_parser.mcnp_input import Input
    from montepy.input_parser.block_type import BlockType
    k, n = spec["kind"], spec["number"]
    if k == "cell":
        c = montepy.Cell()
        c.number = n
        return c
    if k == "surface":
        from montepy.surfaces.surface_builder import surface_builder
        return surface_builder(Input([f"{n} {spec.get('mnemonic', 'so')} {spec.get('consts', '7.5')}"], BlockType.SURFACE))
    if k == "material":
        from montepy.data_inputs.material import Material
        return Material(Input([f"m{n} 1001.80c 0.25"], BlockType.DATA))
    if k == "transform":
        from montepy.data_inputs.transform import Transform
        return Transform(Input([f"tr{n} 1.5 0 0"], BlockType.DATA))
    if k == "universe":
        return montepy.Universe(n)
    raise ValueError(k)


def _build_hs(spec, objs):
    op = spec["op"]
    if op == "leaf":
        d = build(spec["div"], objs)
        return +d if spec["side"] else -d
    if op == "comp":                       # the complement of a cell: ~cell
        return ~build(spec["div"], objs)
    if op == "not":
        return ~_build_hs(spec["a"], objs)
    a, b = _build_hs(spec["a"], objs), _build_hs(spec["b"], objs)
    return (a & b) if op == "and" else (a | b)


def spec_of(v, labels, depth=0):
    """Python value (the current value of a property) -> spec; None when it cannot be expressed"""
    import numpy as np
    if v is None or isinstance(v, (bool, str)):
        return L(v)
    if isinstance(v, int):
        return L(int(v))
    if isinstance(v, float):
        return L(v) if math.isfinite(v) else {"t": "float", "v": repr(v)}
    if isinstance(v, enum.Enum):
        n = type(v).__name__
        if n == "Particle":
            return {"t": "particle", "name": v.name}
        if n in ("Lattice", "SurfaceType", "Operator"):
            return {"t": "enum", "cls": n, "name": v.name}
        return None
    if id(v) in labels:
        return O(labels[id(v)])
    if depth > 3:
        return None
    if isinstance(v, np.ndarray):
        if v.dtype.kind == "O":
            items = [spec_of(x, labels, depth + 1) for x in v.flatten()]
            dt = "object"
        else:
            items = [spec_of(x, labels, depth + 1) for x in v.flatten().tolist()]
            dt = "int" if v.dtype.kind in "iu" else "float"
        if any(i is None for i in items):
            return None
        return {"t": "array", "items": items, "shape": list(v.shape), "dtype": dt}
    if type(v) in (list, tuple, set):
        seq = sorted(v, key=repr) if type(v) is set else v
        items = [spec_of(x, labels, depth + 1) for x in seq]
        if any(i is None for i in items):
            return None
        return {"t": type(v).__name__, "items": items}
    if type(v) is dict:
        items = [[spec_of(k, labels, depth + 1), spec_of(x, labels, depth + 1)] for k, x in v.items()]
        if any(a is None or b is None for a, b in items):
            return None
        return {"t": "dict", "items": items}
    return None


def spec_kind(spec):
    """short description of a spec for the statistics"""
    t = spec["t"]
    if t == "lit":
        return type(spec["v"]).__name__
    if t == "obj":
        return "obj"
    return t


# values of every kind, for the wrong-type class
def type_pool(rng, snap):
    pool = [L(5), L(-3), L(2.5), L("abc"), L(""), L(None), L(True), {"t": "list", "items": []},
            {"t": "list", "items": [L(1), L(2)]}, {"t": "tuple", "items": [L(1.0), L(2.0)]},
            {"t": "dict", "items": []}, {"t": "set", "items": []}, {"t": "complex", "re": 1.0, "im": 2.0},
            {"t": "object"}, {"t": "array", "items": [L(1.0), L(2.0)], "shape": [2], "dtype": "float"},
            {"t": "particle", "name": "NEUTRON"}, {"t": "enum", "cls": "Lattice", "name": "HEXAHEDRA"},
            {"t": "fraction", "n": 1, "d": 3}, {"t": "npfloat", "v": "1.5"}, {"t": "npint", "v": 3}]
    by_cls = {}
    for lab, o in snap.objs.items():
        by_cls.setdefault(type(o).__name__, []).append(lab)
    for cls in sorted(by_cls):
        if cls in ("MCNP_Problem",):
            continue
        pool.append(O(rng.choice(by_cls[cls])))
    return pool


def range_pool():
    return [L(-1), L(0), L(-2.5), L(-1e-300), {"t": "float", "v": "nan"}, {"t": "float", "v": "inf"},
            {"t": "float", "v": "-inf"}, {"t": "bigint", "sign": 1, "exp": 400}, {"t": "bigint", "sign": -1, "exp": 400},
            {"t": "fraction", "n": -1, "d": 3}, {"t": "decimal", "v": "-1.5"}, {"t": "npfloat", "v": "-1.0"},
            {"t": "npint", "v": -4}, L(2 ** 70), L(False)]


BAD_ELEMS = [L(None), L("x"), L(-1.0), {"t": "object"}, L(True), {"t": "list", "items": []}, {"t": "float", "v": "nan"},
             {"t": "complex", "re": 0.0, "im": 1.0}]


def corruptions(rng, cur):
    """structurally illegal variants of the current value (a spec of a list / tuple / array / set / str)"""
    out = []
    t = cur["t"]
    if t in ("list", "tuple", "set", "array"):
        items = list(cur["items"])
        n = len(items)

        def mk(new_items, shape="same"):
            d = dict(cur, items=new_items)
            if t == "array":
                d["shape"] = [len(new_items)] if shape != "same" else cur["shape"]
                if shape == "same" and len(new_items) != n:
                    d["shape"] = [len(new_items)]
            return d
        def bump(i):
            # another valid element: a rejected call that has already stored some elements must show
            if i["t"] == "lit" and isinstance(i["v"], float):
                return L(i["v"] + 1.5)
            if i["t"] == "lit" and isinstance(i["v"], int) and not isinstance(i["v"], bool):
                return L(i["v"] + 1)
            return i
        if n >= 2:
            changed = [bump(i) for i in items]
            for pos in sorted({n - 1, rng.randrange(1, n)}):     # new valid values, then a bad element
                d = mk(changed[:pos] + [rng.choice(BAD_ELEMS)] + changed[pos + 1:])
                if t == "array":
                    d["dtype"] = "object"
                out.append(d)
            out.append(mk(changed[:-1], "flat"))
            out.append(mk(changed + [changed[0]], "flat"))
        if n:
            out.append(mk(items[:-1], "flat"))                    # one element short
            for pos in sorted({0, n - 1, rng.randrange(n)}):    # a bad element at the start / end / somewhere
                bad = rng.choice(BAD_ELEMS)
                new = items[:pos] + [bad] + items[pos + 1:]
                d = mk(new)
                if t == "array":
                    d["dtype"] = "object"
                out.append(d)
        out.append(mk(items + [rng.choice(items) if items else L(1.0)], "flat"))   # one element too many
        out.append(mk([], "flat"))
        if t == "array" and n >= 2:
            out.append(dict(cur, shape=[n, 1]))                   # same data, another shape
            out.append(dict(cur, items=items + items, shape=[2, n]))
        if t == "list":
            out.append(dict(cur, t="tuple"))
            out.append(dict(cur, t="set") if all(i["t"] in ("lit", "particle") for i in items) else L(None))
        if t == "tuple":
            out.append(dict(cur, t="list"))
    elif t == "lit" and isinstance(cur["v"], str):
        out += [L(cur["v"] + " zz"), L(""), L("zz")]
    elif t == "dict":
        out.append({"t": "list", "items": [k for k, _ in cur["items"]]})
    return out


# =================================================================================================
# the translated setters (coq/Gen/Setters.v, _build/gen/setters.json) as callable entries
# =================================================================================================
class Entry:
    def __init__(self, key, cls, name, kind, ir, file, first_line, params, ndefaults=0, fixed=None, base=None):
        self.key, self.cls, self.name, self.kind, self.ir = key, cls, name, kind, ir
        self.file, self.first_line, self.params, self.ndefaults = file, first_line, params, ndefaults
        self.fixed = fixed          # alias entries: the first argument is fixed by the property (a Particle)
        self.base = base or key     # the translated program this entry runs

    def nargs(self):
        if self.kind in ("deleter", "alias_del"):
            return 0
        if self.kind in ("alias_set",):
            return 1
        return len(self.params)


def load_entries(G):
    out = {}
    for s in G["setters"]:
        key = f"{s['cls']}.{s['name']}" + (".del" if s["kind"] == "deleter" else "")
        out[key] = Entry(key, s["cls"], s["name"], s["kind"], s["ir"], s["file"], s["first_line"], s["params"],
                         s.get("ndefaults", 0))
    settable = [d for d in G["props"] if d["types"][0] != "none"]
    assert len(settable) == len(G["generated"])
    for d, g in zip(settable, G["generated"]):
        tm = G["templates"]["make_prop_val_node" if d["kind"] == "val" else "make_prop_pointer"]
        key = f"{d['cls']}.{d['name']}"
        e = Entry(key, d["cls"], d["name"], "generated", g["ir"], "utilities.py", tm["setter_line"], ["value"])
        e.decl = d
        out[key] = e
    # Importance.<particle> properties are created at import time by a loop over Particle: closures that
    # do obj[particle] = value / del obj[particle]
    import montepy
    for p in montepy.particle.Particle:
        for kind, base in (("alias_set", "Importance.__setitem__"), ("alias_del", "Importance.__delitem__")):
            b = out[base]
            key = f"Importance.{p.name.lower()}" + (".del" if kind == "alias_del" else "")
            out[key] = Entry(key, "Importance", p.name.lower(), kind, b.ir, b.file, b.first_line, b.params, 0,
                             fixed={"t": "particle", "name": p.name}, base=base)
    return out


def ir_functions(G):
    """(file, first line) of every function an IR was translated from (roots and inlined callees)"""
    keys = set()

    def walk(ir):
        for s in ir:
            if s["op"] == "inline":
                keys.add((s["callee"]["file"], s["callee"]["first_line"]))
            for k in ("body", "b1", "b2"):
                if k in s:
                    walk(s[k])
    for s in G["setters"]:
        keys.add((s["file"], s["first_line"]))
        walk(s["ir"])
    for g in G["generated"]:
        walk(g["ir"])
    for n in ("make_prop_val_node", "make_prop_pointer"):
        keys.add(("utilities.py", G["templates"][n]["setter_line"]))
    return keys


def defining_class(obj, name):
    for c in type(obj).__mro__:
        if name in c.__dict__:
            return c.__name__
    return None


def receivers(entry, snap):
    out = []
    for lab, o in snap.objs.items():
        if lab.startswith("arg"):
            continue
        if any(c.__name__ == entry.cls for c in type(o).__mro__) and defining_class(o, entry.name) == entry.cls:
            out.append(lab)
    return out


def invoke(entry, obj, args):
    k = entry.kind
    if k in ("setter", "generated", "alias_set"):
        setattr(obj, entry.name, args[-1])
    elif k in ("deleter", "alias_del"):
        delattr(obj, entry.name)
    else:
        getattr(obj, entry.name)(*args)


def latch_state(obj, name):
    """the class a `types=()` property accepts right now: the closure cell, or type(obj) when it is still ()"""
    prop = None
    for c in type(obj).__mro__:
        if name in c.__dict__:
            prop = c.__dict__[name]
            break
    f = prop.fset
    for n, cell in zip(f.__code__.co_freevars, f.__closure__ or ()):
        if n == "types":
            v = cell.cell_contents
            if isinstance(v, tuple) and len(v) == 0:
                return type(obj).__name__
            return v.__name__ if isinstance(v, type) else None
    return type(obj).__name__          # repaired form: a local default


# =================================================================================================
# tracing a real call and walking the trace along the IR
# =================================================================================================
_SRC = None


def _rel(filename):
    global _SRC
    if _SRC is None:
        import montepy
        _SRC = os.path.dirname(os.path.abspath(montepy.__file__)) + os.sep
    f = os.path.abspath(filename) if not filename.startswith("/") else filename
    return f[len(_SRC):] if f.startswith(_SRC) else None


class FrameRec:
    __slots__ = ("key", "name", "events", "frame", "exc_line", "ret_kind", "primary", "exc_origin")

    def __init__(self, key, name, frame, primary):
        self.key, self.name, self.frame, self.primary = key, name, frame, primary
        self.events = []
        self.exc_line = None
        self.exc_origin = False     # the exception was raised by this frame itself, not by something it called
        self.ret_kind = None


class Tracer:
    def __init__(self, ir_keys):
        self.ir_keys = ir_keys
        self.roots = []
        self.stack = []
        self.by_frame = {}
        self._rel_cache = {}

    def _global(self, frame, event, arg):
        if event != "call":
            return None
        code = frame.f_code
        rel = self._rel_cache.get(code.co_filename)
        if rel is None:
            rel = _rel(code.co_filename) or ""
            self._rel_cache[code.co_filename] = rel
        if not rel:
            return None
        key = (rel, code.co_firstlineno)
        is_ir = key in self.ir_keys
        primary = code.co_varnames[1] if (is_ir and code.co_argcount >= 2) else None
        rec = FrameRec(key, code.co_name, frame, primary)
        self.by_frame[id(frame)] = rec
        (self.stack[-1].events if self.stack else self.roots).append(("call", rec))
        self.stack.append(rec)
        if not is_ir:
            frame.f_trace_lines = False
        return self._local

    def _local(self, frame, event, arg):
        rec = self.by_frame.get(id(frame))
        if rec is None:
            return self._local
        if event == "line":
            k = None
            if rec.primary is not None:
                try:
                    k = kind_of(frame.f_locals.get(rec.primary))
                except Exception:
                    k = "x"
            rec.events.append(("line", frame.f_lineno, k))
        elif event == "return":
            if rec.primary is not None:
                try:
                    rec.ret_kind = kind_of(frame.f_locals.get(rec.primary))
                except Exception:
                    rec.ret_kind = "x"
            while self.stack and self.stack[-1] is not rec:
                self.stack.pop()
            if self.stack:
                self.stack.pop()
        return self._local

    def run(self, fn):
        """-> exception or None"""
        exc = None
        old = sys.gettrace()
        sys.settrace(self._global)
        try:
            fn()
        except Exception as e:      # noqa: the class of the exception is data here
            exc = e
        finally:
            sys.settrace(old)
        if exc is not None:
            tb = exc.__traceback__
            while tb is not None:
                rec = self.by_frame.get(id(tb.tb_frame))
                if rec is not None:
                    rec.exc_line = tb.tb_lineno
                    rec.exc_origin = tb.tb_next is None
                tb = tb.tb_next
        return exc

    def find(self, key):
        todo = list(self.roots)
        while todo:
            ev = todo.pop(0)
            if ev[0] == "call":
                if ev[1].key == key:
                    return ev[1]
                todo = [e for e in ev[1].events if e[0] == "call"] + todo
        return None


MAY_RAISE_OPS = ("checkinst", "check", "raise", "convert", "iter")


class Replay:
    """walks the trace of one real call along the IR: the adversary's choices and the expected result"""

    def __init__(self):
        self.raises, self.branches, self.iters, self.unk = {}, {}, {}, {}
        self.occ = {}
        self.targets = []
        self.problems = []
        self.err_ids = None         # ids of the statements one of which raised (None: the call returned)
        self.err_declared = None    # the raise statement of a check executed: the class must be the declared one
        self.err_site = None
        self.err_origin = True      # False: the exception came out of a call made by the raising statement
                                    # (e.g. str(value) inside the message of a `raise`)

    def tick(self, s):
        o = self.occ.get(s["id"], 0)
        self.occ[s["id"]] = o + 1
        return o

    # ---- event helpers --------------------------------------------------------------------------
    @staticmethod
    def _span(s):
        return s["line"], max(s.get("end_line", s["line"]), s.get("raise_end") or 0)

    def walk_function(self, rec, body):
        st = {"ev": rec.events, "p": 0, "rec": rec}
        out = self.walk_block(st, body, 0, 10 ** 9)
        if rec.exc_line is not None and out != "raise":
            self.problems.append(f"exception passed through {rec.key[0]}:{rec.exc_line} ({rec.name}) but the IR has no "
                                 f"statement there that may raise")
            return "raise-unattributed"
        return out

    def walk_block(self, st, stmts, lo, hi):
        i = 0
        n = len(stmts)
        while i < n:
            a, b = self._span(stmts[i])
            j = i + 1
            while j < n and stmts[j]["line"] == stmts[i]["line"] and stmts[j].get("file") == stmts[i].get("file") \
                    and stmts[i]["op"] not in ("branch", "loop", "return"):
                b = max(b, self._span(stmts[j])[1])
                j += 1
            out = self.walk_group(st, stmts[i:j], a, b, lo, hi)
            if out != "normal":
                return out
            i = j
        return "normal"

    def walk_group(self, st, group, a, b, lo, hi):
        ev, rec = st["ev"], st["rec"]
        # statements the IR dropped (no effect): their lines and calls are skipped
        while st["p"] < len(ev):
            e = ev[st["p"]]
            if e[0] == "call" or (lo <= e[1] < a):
                st["p"] += 1
            else:
                break
        if not (st["p"] < len(ev) and ev[st["p"]][0] == "line" and a <= ev[st["p"]][1] <= b):
            return "lost"
        calls = []
        while st["p"] < len(ev):
            e = ev[st["p"]]
            if e[0] == "call":
                calls.append(e[1])
            elif not (a <= e[1] <= b):
                break
            st["p"] += 1
        ended = st["p"] == len(ev) and rec.exc_line is not None and a <= rec.exc_line <= b
        # which member raised?
        raiser = None
        if ended:
            for k, s in enumerate(group):
                if s["op"] == "inline":
                    c = self._callee(calls, s, consume=False)
                    if c is not None and c.exc_line is not None:
                        raiser = k
                        break
            if raiser is None:
                cands = [s for s in group if s["op"] in MAY_RAISE_OPS or (s["op"] == "call" and s["r"])]
                if not cands:
                    self.problems.append(f"exception at {rec.key[0]}:{rec.exc_line}: no statement of the IR there may raise "
                                         f"(ops {[s['op'] for s in group]})")
                    self.err_ids = set()
                    return "raise"
                self.err_ids = {s["id"] for s in cands}
                self.err_site = (rec.key[0], rec.exc_line)
                self.err_origin = rec.exc_origin
                for s in cands:
                    o = self.occ.get(s["id"], 0)
                    if s["op"] == "check":
                        in_raise = s.get("raise_line") and s["raise_line"] <= rec.exc_line <= s["raise_end"]
                        self.raises[(s["id"], o)] = "" if in_raise else "?"
                        if in_raise:
                            self.err_declared = s["exc"]
                    elif s["op"] in ("convert", "call"):
                        self.raises[(s["id"], o)] = "?"
                # members before the first candidate did execute
                first = min(k for k, s in enumerate(group) if s in cands)
                for s in group[:first]:
                    self.exec_simple(st, s, calls)
                return "raise"
        for k, s in enumerate(group):
            if raiser is not None and k == raiser:
                o = self.tick(s)
                c = self._callee(calls, s)
                self._unk_inline(s, o, c)
                sub = self.walk_function(c, s["body"])
                if sub not in ("raise",):
                    self.problems.append(f"exception inside inlined {s['f']} not attributed")
                return "raise"
            out = self.exec_simple(st, s, calls)
            if out != "normal":
                return out
        return "normal"

    def _callee(self, calls, s, consume=True):
        key = (s["callee"]["file"], s["callee"]["first_line"])
        for c in calls:
            if c.key == key:
                if consume:
                    calls.remove(c)
                return c
            # the callee may be entered through a wrapper (property -> closure -> method)
            sub = self._find_in(c, key)
            if sub is not None:
                if consume:
                    calls.remove(c)
                return sub
        return None

    def _find_in(self, rec, key, depth=0):
        if depth > 3:
            return None
        for e in rec.events:
            if e[0] == "call":
                if e[1].key == key:
                    return e[1]
                r = self._find_in(e[1], key, depth + 1)
                if r is not None:
                    return r
        return None

    def _unk_inline(self, s, o, c):
        if s["src"][0] == "unknown" and c is not None:
            k = None
            for e in c.events:
                if e[0] == "line":
                    k = e[2]
                    break
            self.unk[(s["id"], o)] = k or "x"

    def exec_simple(self, st, s, calls):
        ev = st["ev"]
        op = s["op"]
        o = self.tick(s)
        if op in ("checkinst", "check", "convert", "iter"):
            return "normal"
        if op == "raise":
            self.problems.append(f"raise statement {s['id']} executed but the frame went on")
            return "normal"
        if op == "call":
            if s["m"]:
                self.targets.append("call:" + s["f"][:60])
            return "normal"
        if op == "mutate":
            self.targets.append(s["target"])
            return "normal"
        if op == "forget":
            k = None
            for e in ev[st["p"]:]:
                if e[0] == "line":
                    k = e[2]
                    break
            self.unk[(s["id"], o)] = k or st["rec"].ret_kind or "x"
            return "normal"
        if op == "return":
            return "return"
        if op == "inline":
            c = self._callee(calls, s)
            if c is None:
                self.problems.append(f"inlined callee {s['f']} ({s['callee']['file']}:{s['callee']['line']}) was not entered")
                return "normal"
            self._unk_inline(s, o, c)
            sub = self.walk_function(c, s["body"])
            if sub in ("raise", "raise-unattributed"):
                return "raise"
            return "normal"
        if op == "branch":
            nxt = self._next_line(st)
            if nxt is not None and s["b1_line"] <= nxt <= s["b1_end"]:
                self.branches[(s["id"], o)] = True
                return self._sub_block(st, s["b1"], s["b1_line"], s["b1_end"])
            self.branches[(s["id"], o)] = False
            if s.get("b2_line") and nxt is not None and s["b2_line"] <= nxt <= s["b2_end"]:
                return self._sub_block(st, s["b2"], s["b2_line"], s["b2_end"])
            return "normal"
        if op == "loop":
            a, b = s["line"], s["end_line"]
            n = 0
            out = "normal"
            while True:
                nxt = self._next_line(st)
                if nxt is None or not (s["body_line"] <= nxt <= s["body_end"]):
                    break
                n += 1
                out = self._sub_block(st, s["body"], s["body_line"], s["body_end"])
                if out != "normal":
                    break
                while st["p"] < len(ev) and (ev[st["p"]][0] == "call" or a <= ev[st["p"]][1] <= b):
                    st["p"] += 1
            self.iters[(s["id"], o)] = n
            return out
        raise ValueError(op)

    def _next_line(self, st):
        for e in st["ev"][st["p"]:]:
            if e[0] == "line":
                return e[1]
        return None

    def _sub_block(self, st, stmts, lo, hi):
        out = self.walk_block(st, stmts, lo, hi)
        ev, rec = st["ev"], st["rec"]
        if out in ("normal", "lost"):
            # trailing statements of the block that the IR dropped
            while st["p"] < len(ev) and (ev[st["p"]][0] == "call" or lo <= ev[st["p"]][1] <= hi):
                st["p"] += 1
            if st["p"] == len(ev) and rec.exc_line is not None and lo <= rec.exc_line <= hi:
                self.problems.append(f"exception at {rec.key[0]}:{rec.exc_line} inside a block, at no may-raise statement of the IR")
                self.err_ids = set()
                return "raise"
            return "normal"
        return out


# =================================================================================================
# requests to the extracted model (coq/Model/Setter.v : run_Setter)
# =================================================================================================
def hx(s):
    return s.encode("utf-8", "replace").hex() or "-"


def env_words(G):
    w = [str(len(G["classes"]))]
    for c, anc in G["classes"].items():
        w += [hx(c), str(len(anc))] + [hx(a) for a in anc]
    w += [str(len(G["iter_classes"]))] + [hx(c) for c in G["iter_classes"]]
    return " ".join(w)


def oracle_words(kind, rp, excname):
    w = [kind or "x"]
    w.append(str(len(rp.raises)))
    for (i, o), e in sorted(rp.raises.items()):
        w += [str(i), str(o), "-" if e == "" else hx(excname if e == "?" else e)]
    w.append(str(len(rp.branches)))
    for (i, o), b in sorted(rp.branches.items()):
        w += [str(i), str(o), "1" if b else "0"]
    w.append(str(len(rp.iters)))
    for (i, o), n in sorted(rp.iters.items()):
        w += [str(i), str(o), str(n)]
    w.append(str(len(rp.unk)))
    for (i, o), k in sorted(rp.unk.items()):
        w += [str(i), str(o), k]
    return " ".join(w)


def subst_self(ir, cls):
    """IR of a `types=()` property with the class the closure cell holds now"""
    out = json.loads(json.dumps(ir))

    def walk(l):
        for s in l:
            if s["op"] == "checkinst":
                s["ts"] = [cls if t == "@self" else t for t in s["ts"]]
            for k in ("body", "b1", "b2"):
                if k in s:
                    walk(s[k])
    walk(out)
    return out


def parse_answer(a):
    """'ok | t1,t2' / 'err ID HEX | ...' -> (None | (id, exc), [targets])"""
    head, _, tail = a.partition(" | ")
    targets = [] if tail.strip() in ("-", "") else [bytes.fromhex(x).decode("utf-8", "replace") for x in tail.strip().split(",")]
    if head.startswith("err"):
        _, i, e = head.split()
        return (int(i), bytes.fromhex(e).decode() if e != "-" else ""), targets
    if head.strip() == "ok":
        return None, targets
    raise ValueError("model answer: " + a[:200])


# =================================================================================================
# collection mutators (model: coq/Model/Coll.v, property C06; here: the snapshot oracle)
# =================================================================================================
COLL_KIND = {"Cells": "cell", "Surfaces": "surface", "Materials": "material", "Transforms": "transform",
             "Universes": "universe"}


def coll_invoke(op, coll, args):
    if op == "append":
        coll.append(*args)
    elif op == "append_renumber":
        coll.append_renumber(*args)
    elif op == "extend":
        coll.extend(*args)
    elif op == "__iadd__":
        coll.__iadd__(*args)
    elif op == "__setitem__":
        coll[args[0]] = args[1]
    elif op == "__delitem__":
        del coll[args[0]]
    elif op == "remove":
        coll.remove(*args)
    elif op == "pop":
        coll.pop(*args)
    elif op == "clear":
        coll.clear()
    else:
        raise ValueError(op)


def coll_candidates(rng, op, coll, lab, snap, blind):
    """-> list of (invalid-argument class, [arg specs])"""
    kind = COLL_KIND[type(coll).__name__]
    other = "surface" if kind != "surface" else "cell"
    nums = [o.number for o in coll._objects] if not blind else []
    members = [l for l, o in snap.objs.items() if any(o is m for m in coll._objects)] if not blind else []
    free = 900 + rng.randrange(90)
    new_ok = {"t": "new", "kind": kind, "number": free}
    new_ok2 = {"t": "new", "kind": kind, "number": free + 100}
    wrong = {"t": "new", "kind": other, "number": free + 1}
    out = []
    coll_num = rng.choice(nums) if nums else None
    new_coll = {"t": "new", "kind": kind, "number": coll_num} if coll_num is not None else None
    lit_bad = rng.choice([L(5), L("a"), L(None), L(2.5), {"t": "list", "items": []}])
    if op in ("append", "remove"):
        out += [("wrong type", [wrong]), ("wrong type", [lit_bad])]
        if op == "append":
            if new_coll:
                out.append(("collision", [new_coll]))
            if members:
                out.append(("collision", [O(rng.choice(members))]))
        else:
            out.append(("structurally illegal", [new_ok]))          # not a member
    elif op == "append_renumber":
        out += [("wrong type", [wrong]), ("wrong type", [lit_bad]), ("wrong type", [new_ok, L("a")]),
                ("out of range", [new_ok, L(0)]), ("out of range", [new_ok, L(-1)]), ("wrong type", [new_ok, L(1.5)])]
        if members:
            out.append(("collision", [O(rng.choice(members))]))
    elif op in ("extend", "__iadd__"):
        out += [("wrong type", [lit_bad]), ("wrong type", [L(5)]),
                ("structurally illegal", [{"t": "list", "items": [new_ok, wrong]}]),
                ("structurally illegal", [{"t": "list", "items": [new_ok, lit_bad]}]),
                ("collision", [{"t": "list", "items": [new_ok, {"t": "new", "kind": kind, "number": free}]}]),
                ("collision", [{"t": "list", "items": [new_ok, new_ok2, {"t": "new", "kind": kind, "number": free + 100}]}])]
        if new_coll:
            out.append(("collision", [{"t": "list", "items": [new_ok, new_coll]}]))
            out.append(("collision", [{"t": "list", "items": [new_coll, new_ok]}]))
        if members:
            out.append(("collision", [{"t": "list", "items": [new_ok, O(rng.choice(members))]}]))
    elif op == "__setitem__":
        key = L(coll_num if coll_num is not None else 1)
        out += [("wrong type", [key, wrong]), ("wrong type", [key, lit_bad]), ("wrong type", [L("a"), new_ok]),
                ("wrong type", [L(1.5), new_ok])]
        if new_coll and len(nums) > 1:
            othern = rng.choice([n for n in nums if n != coll_num])
            out.append(("collision", [key, {"t": "new", "kind": kind, "number": othern}]))
    elif op in ("__delitem__", "pop"):
        if op == "__delitem__":
            out += [("out of range", [L(987654)]), ("wrong type", [L("a")]), ("wrong type", [L(1.5)]), ("wrong type", [L(None)])]
        else:
            out += [("wrong type", [L("a")]), ("wrong type", [L(1.5)]), ("wrong type", [new_ok])]
    elif op == "clear":
        out.append(("no-argument", []))
    return out


# =================================================================================================
# invalid-argument generators for the translated setters
# =================================================================================================
def _labels_of(snap, cls):
    return [l for l, o in snap.objs.items() if type(o).__name__ == cls or any(c.__name__ == cls for c in type(o).__mro__)]


def _mode_particles(snap):
    pr = snap.objs["problem"]
    return sorted(p.name for p in pr.mode.particles)


def special_candidates(rng, e, lab, snap, blind):
    import montepy
    key = e.base
    obj = snap.objs[lab]
    out = []
    P = lambda n: {"t": "particle", "name": n}        # noqa: E731
    LIST = lambda *xs: {"t": "list", "items": list(xs)}   # noqa: E731
    cells = _labels_of(snap, "Cell")
    surfs = _labels_of(snap, "Surface")
    if key in ("Mode.set", "MCNP_Problem.set_mode"):
        out += [("structurally illegal", [LIST(L("n"), L("zz"))]), ("structurally illegal", [LIST(L("zz"))]),
                ("structurally illegal", [L("n zz")]), ("structurally illegal", [LIST(L("n"), L(5))]),
                ("structurally illegal", [LIST(P("NEUTRON"), L("p"))]), ("structurally illegal", [LIST(L("p"), P("NEUTRON"))]),
                ("structurally illegal", [{"t": "set", "items": [L("n"), L("qq")]}]),
                ("structurally illegal", [LIST(P("NEUTRON"), L(None))]), ("wrong type", [{"t": "tuple", "items": [L("n")]}]),
                ("valid", [LIST(L("n"), L("p"))]), ("valid", [L("n")])]
    elif key == "Mode.add":
        out += [("structurally illegal", [L("zz")]), ("structurally illegal", [L("")]), ("valid", [L("e")])]
    elif key == "Mode.remove":
        out += [("structurally illegal", [L("zz")]), ("particle not in mode", [L("h")]), ("particle not in mode", [P("PROTON")])]
    elif key == "Universe.claim":
        if cells and surfs:
            out += [("structurally illegal", [LIST(O(rng.choice(cells)), O(rng.choice(surfs)))]),
                    ("structurally illegal", [LIST(O(rng.choice(cells)), L(5))]),
                    ("wrong type", [O(rng.choice(surfs))]), ("valid", [LIST(O(rng.choice(cells)))])]
    elif key == "Cells.set_equal_importance":
        c = O(rng.choice(cells)) if cells else L(1)
        out += [("out of range", [L(-1.0), LIST()]), ("wrong type", [L("x"), LIST()]), ("wrong type", [L(2.0), L(5)]),
                ("structurally illegal", [L(2.0), LIST(c, L("x"))]), ("out of range", [L(2.0), LIST(L(987654))]),
                ("structurally illegal", [L(2.0), LIST(L(987654), c)]), ("out of range", [L(-2.0), LIST(c)]),
                ("out of range", [{"t": "float", "v": "nan"}, LIST()]), ("wrong type", [L(None), LIST(c)]),
                ("valid", [L(2.0), LIST(c)])]
    elif key == "MCNP_Problem.cells":
        n = 800 + rng.randrange(50)
        out += [("collision", [{"t": "cells", "items": [{"t": "new", "kind": "cell", "number": n},
                                                        {"t": "new", "kind": "cell", "number": n + 1}],
                                "renumber": [[1, n]]}])]
        if cells:
            c = O(rng.choice(cells))
            out += [("collision", [LIST(c, c)])]
            if surfs:
                out += [("structurally illegal", [LIST(c, O(rng.choice(surfs)))])]
            out += [("structurally illegal", [LIST(c, L(5))])]
    elif key == "MCNP_Problem.materials":
        mats = _labels_of(snap, "Material")
        if mats:
            m = O(rng.choice(mats))
            out += [("collision", [LIST(m, m)]), ("structurally illegal", [LIST(m, L(5))])]
            if cells:
                out += [("structurally illegal", [LIST(m, O(rng.choice(cells)))])]
    elif key == "UnitHalfSpace.divider" and not blind:
        cell = getattr(obj, "_cell", None)
        if cell is not None:
            if not obj.is_cell:
                others = [s.number for s in cell.surfaces if s is not obj.divider]
                if others:
                    out.append(("collision", [{"t": "new", "kind": "surface", "number": rng.choice(others)}]))
                if cells:
                    out.append(("wrong type", [O(rng.choice(cells))]))
            else:
                others = [c.number for c in cell.complements if c is not obj.divider]
                if others:
                    out.append(("collision", [{"t": "new", "kind": "cell", "number": rng.choice(others)}]))
                if surfs:
                    out.append(("wrong type", [O(rng.choice(surfs))]))
    elif key in ("Cell.geometry", "HalfSpace.left", "HalfSpace.right") and not blind:
        cell = obj if key == "Cell.geometry" else getattr(obj, "_cell", None)
        nums = [s.number for s in cell.surfaces] if cell is not None else []
        if nums:
            # a tree that brings a cell the target does not complement yet AND a foreign surface numbered like one
            # of the target's own surfaces: the two collections of the cell are filled one after the other
            fresh_cells = [l for l in cells if snap.objs[l] is not cell
                           and not any(snap.objs[l] is c for c in cell.complements)]
            foreign = {"t": "hs", "op": "leaf", "side": True,
                       "div": {"t": "new", "kind": "surface", "number": rng.choice(nums), "consts": "123.25"}}
            for l in rng.sample(fresh_cells, min(2, len(fresh_cells))):
                comp = {"t": "hs", "op": "comp", "div": O(l)}
                out += [("collision", [{"t": "hs", "op": "and", "a": comp, "b": foreign}]),
                        ("collision", [{"t": "hs", "op": "or", "a": foreign, "b": comp}])]
            out.append(("collision", [{"t": "hs", "op": "and", "a": {"t": "hs", "op": "comp", "div": {"t": "new", "kind": "cell", "number": 940 + rng.randrange(40)}},
                                       "b": foreign}]))
        if nums and key == "Cell.geometry":
            free = 700 + rng.randrange(90)
            leaf = lambda spec, side=True: {"t": "hs", "op": "leaf", "side": side, "div": spec}   # noqa: E731
            good = leaf({"t": "new", "kind": "surface", "number": free}, False)
            for k in range(1, rng.choice([1, 3, 4])):
                good = {"t": "hs", "op": "and", "a": good, "b": leaf({"t": "new", "kind": "surface", "number": free + 100 * k}, False)}
            bad = leaf({"t": "new", "kind": "surface", "number": rng.choice(nums)})
            out += [("collision", [{"t": "hs", "op": "and", "a": good, "b": bad}]),
                    ("collision", [{"t": "hs", "op": "or", "a": bad, "b": good}]),
                    ("collision", [bad])]
    elif key == "Importance.__setitem__":
        mode = _mode_particles(snap) if not blind else ["NEUTRON"]
        outside = [p.name for p in montepy.particle.Particle if p.name not in mode]
        inm = P(rng.choice(mode)) if mode else P("NEUTRON")
        if e.kind == "alias_set":
            out += [("out of range", [L(-1.0)]), ("wrong type", [L("x")]), ("wrong type", [L(None)]),
                    ("out of range", [{"t": "float", "v": "nan"}]), ("valid", [L(2.0)])]
        else:
            out += [("particle not in mode", [P(rng.choice(outside)), L(1.0)]), ("out of range", [inm, L(-1.0)]),
                    ("wrong type", [inm, L("x")]), ("wrong type", [L("n"), L(1.0)]), ("wrong type", [L(None), L(1.0)]),
                    ("out of range", [inm, {"t": "float", "v": "-inf"}]), ("wrong type", [inm, {"t": "complex", "re": 1.0, "im": 1.0}]),
                    ("valid", [inm, L(3.0)])]
    elif key == "Importance.__delitem__":
        if e.kind != "alias_del":
            out += [("wrong type", [L("n")]), ("wrong type", [L(5)]), ("particle not in mode", [P("PROTON")])]
    elif key == "CellDataPrintController.__setitem__":
        out += [("wrong type", [L("imp"), L(5)]), ("structurally illegal", [L("zzz"), L(True)]), ("wrong type", [L(5), L(True)]),
                ("wrong type", [L(None), L(False)]), ("valid", [L("vol"), L(True)])]
    elif key == "ThermalScatteringLaw.thermal_scattering_laws":
        out += [("structurally illegal", [LIST(L("lwtr.10t"), L(5))]), ("structurally illegal", [LIST(L(None))]),
                ("valid", [LIST(L("grph.20t"))])]
    elif key == "MCNP_Problem.mcnp_version":
        out += [("out of range", [{"t": "tuple", "items": [L(5), L(1), L(0)]}]), ("wrong type", [L("6.2")]),
                ("structurally illegal", [{"t": "tuple", "items": [L(6), L(2)]}]), ("valid", [{"t": "tuple", "items": [L(6), L(2), L(0)]}])]
    elif key == "Fill.universes":
        out += [("structurally illegal", [{"t": "array", "items": [L(1), L(2)], "shape": [2], "dtype": "int"}]),
                ("structurally illegal", [{"t": "array", "items": [L(1.0)] * 8, "shape": [2, 2, 2], "dtype": "float"}]),
                ("structurally illegal", [{"t": "array", "items": [L(None)] * 8, "shape": [2, 2, 2], "dtype": "object"}])]
    elif key in ("Transform.displacement_vector", "Transform.rotation_matrix"):
        out += [("structurally illegal", [{"t": "array", "items": [L(1.0), L(2.0)], "shape": [2], "dtype": "float"}]),
                ("structurally illegal", [{"t": "array", "items": [L(1.0)] * 12, "shape": [12], "dtype": "float"}]),
                ("structurally illegal", [{"t": "array", "items": [L("a"), L("b"), L("c")], "shape": [3], "dtype": "str"}])]
    return out


def candidates(rng, e, lab, snapA, snapB, blind):
    out = list(special_candidates(rng, e, lab, snapA, blind))
    n = e.nargs()
    if n == 0:
        return [("no-argument", [])]
    if n == 1 or (n == 2 and e.ndefaults == 1):
        for s in rng.sample(type_pool(rng, snapA), 3):
            out.append(("wrong type", [s]))
        for s in rng.sample(range_pool(), 2):
            out.append(("out of range", [s]))
        if e.name == "number" and not blind:
            obj = snapA.objs[lab]
            pr = snapA.objs["problem"]
            for coll in (pr.cells, pr.surfaces, pr.materials, pr.transforms, pr.universes):
                if any(o is obj for o in coll):
                    for o in coll:
                        if o is not obj:
                            out.append(("collision", [L(o.number)]))
        if not blind and e.kind in ("setter", "generated"):
            cur = _read_both(e.name, lab, snapA, snapB)
            if cur is not None:
                out.append(("valid", [cur]))
                for c in corruptions(rng, cur):
                    out.append(("structurally illegal", [c]))
    return out


def _read_both(name, lab, snapA, snapB):
    """current value of the attribute, read on A and on B alike (a read is an observation)"""
    vals = []
    for snap in (snapA, snapB):
        o = snap.objs.get(lab)
        if o is None:
            return None
        try:
            with warnings.catch_warnings():
                warnings.simplefilter("ignore")
                vals.append(getattr(o, name))
        except Exception:
            return None
    labels = {id(o): l for l, o in snapA.objs.items()}
    try:
        return spec_of(vals[0], labels)
    except Exception:
        return None


class Meta(dict):
    """keys a later version of edits.gen_program may ask for and this module does not know: empty"""

    def __missing__(self, k):
        return {}


def meta_of(pr):
    """what edits.gen_program needs to know about a problem"""
    unis, fills, laws = {}, {}, {}
    for c in pr.cells:
        try:
            if c.universe is not None and c.universe.number != 0:
                unis[c.number] = c.universe.number
            if c.fill.universe is not None:
                fills[c.number] = c.fill.universe.number
        except Exception:
            pass
    for m in pr.materials:
        try:
            if m.thermal_scattering is not None:
                laws[m.number] = list(m.thermal_scattering.thermal_scattering_laws)
        except Exception:
            pass
    return Meta({"cells": [c.number for c in pr.cells], "surfaces": [s.number for s in pr.surfaces],
                 "materials": [m.number for m in pr.materials], "transforms": [t.number for t in pr.transforms],
                 "universes": unis, "fills": fills, "material_laws": laws,
                 "particles": [p.value.lower() for p in sorted(pr.mode.particles, key=lambda p: p.name)],
                 "surface_constants": {s.number: list(s.surface_constants) for s in pr.surfaces}})


# =================================================================================================
# a pair of problems driven in lock step
# =================================================================================================
class Desync(Exception):
    pass


class Session:
    def __init__(self, text, env):
        self.text = text
        self.env = env                      # dict(G, E, keys, envw)
        with warnings.catch_warnings():
            warnings.simplefilter("ignore")
            self.A = mp.read_problem(text, "c14.i")
            self.B = mp.read_problem(text, "c14.i")
        self.hA, self.hB = ED.Handles(self.A), ED.Handles(self.B)
        self.probes = []
        self.snapA, self.snapB = Snap(self.A), Snap(self.B)
        self.steps = []
        self.pending = []                   # model requests of the traced calls
        self.n_rejected = 0
        self.edits_after_reject = 0

    # ---- steps -----------------------------------------------------------------------------------
    def apply_edit(self, edit):
        res = []
        for h in (self.hA, self.hB):
            try:
                with warnings.catch_warnings():
                    warnings.simplefilter("ignore")
                    ok, _ = ED.apply(h, edit)
                res.append("applied" if ok else "skipped")
            except Exception as e:
                res.append(type(e).__name__)
        self.steps.append({"op": "edit", "edit": edit, "result": res[0]})
        if res[0] != res[1]:
            raise Desync(f"valid edit {edit} behaves differently on A and B: {res}")
        if self.n_rejected:
            self.edits_after_reject += 1
        return res[0]

    def apply_bynum(self, st):
        """a valid edit that reaches its object THROUGH the collection, by number: renumber cell `orig` to `new`, look
        the cell up again under its new number, give it a volume.  On both problems; the results must agree."""
        res = []
        for pr in (self.A, self.B):
            try:
                with warnings.catch_warnings():
                    warnings.simplefilter("ignore")
                    c = pr.cells[st["orig"]]
                    c.number = st["new"]
                    d = pr.cells[st["new"]]
                    d.volume = st["volume"]
                res.append("member" if any(d is x for x in pr.cells) else "NOT A MEMBER")
            except Exception as e:
                res.append(type(e).__name__)
        self.steps.append(dict(st, result=res[0]))
        if res[0] != res[1]:
            raise Desync(f"by-number edit {st} behaves differently: with the rejected calls {res[0]}, control {res[1]}")
        if self.n_rejected:
            self.edits_after_reject += 1
        return res[0]

    def _call_on(self, step, snap, trace):
        """-> (exception or None, Tracer or None, values)"""
        objs = snap.objs
        obj = objs[step["label"]]
        vals = [build(a, objs) for a in step["args"]]
        tr = None
        if step["op"] == "coll":
            fn = lambda: coll_invoke(step["mut"], obj, vals)      # noqa: E731
        else:
            e = self.env["E"][step["entry"]]
            if e.fixed is not None:
                vals = [build(e.fixed, objs)] + vals
            fn = lambda: invoke(e, obj, vals)                     # noqa: E731
            if trace:
                tr = Tracer(self.env["keys"])
        with warnings.catch_warnings():
            warnings.simplefilter("ignore")
            if tr is not None:
                exc = tr.run(fn)
            else:
                exc = None
                try:
                    fn()
                except Exception as e2:       # noqa
                    exc = e2
        return exc, tr, vals

    def note_numbers(self, spec):
        """numbers that appear in an argument: probed in every collection by the snapshots that follow"""
        if isinstance(spec, dict):
            if spec.get("t") == "new" and isinstance(spec.get("number"), int):
                self._probe(spec["number"])
            if spec.get("t") == "lit" and isinstance(spec.get("v"), int) and not isinstance(spec.get("v"), bool) \
                    and 0 < spec["v"] < 10 ** 8:
                self._probe(spec["v"])
            for v in spec.values():
                self.note_numbers(v)
        elif isinstance(spec, list):
            for v in spec:
                self.note_numbers(v)

    def _probe(self, n):
        if n in self.probes:
            self.probes.remove(n)
        self.probes.append(n)
        del self.probes[:-6]

    def call(self, step, trace=True):
        """the call on A; when A accepts it, on B too.  -> class name of the exception or None"""
        self.note_numbers(step.get("args"))
        latch = None
        if step["op"] == "call":
            e = self.env["E"][step["entry"]]
            if e.kind == "generated" and e.decl["types"][0] == "latch":
                latch = latch_state(self.snapA.objs[step["label"]], e.name)
        try:
            exc, tr, vals = self._call_on(step, self.snapA, trace)
        except (KeyError, ValueError, TypeError, AttributeError) as e0:
            return "unbuildable:" + type(e0).__name__
        name = type(exc).__name__ if exc is not None else None
        step = dict(step, raised=name)
        if tr is not None:
            self._correspond(step, tr, exc, vals, latch)
        if exc is None:
            try:
                excB, _, _ = self._call_on(step, self.snapB, False)
            except Exception as e0:
                raise Desync(f"accepted call cannot be repeated on B: {type(e0).__name__}")
            if excB is not None:
                raise Desync(f"call accepted on A raises {type(excB).__name__} on B")
        else:
            self.n_rejected += 1
        self.steps.append(step)
        return name

    def _correspond(self, step, tr, exc, vals, latch):
        e = self.env["E"][step["entry"]]
        root = tr.find((e.file, e.first_line))
        rp = Replay()
        if root is None:
            rp.problems.append(f"the function of {e.base} ({e.file}:{e.first_line}) was not entered")
            walked = "noroot"
        else:
            walked = rp.walk_function(root, e.ir)
        ir = subst_self(e.ir, latch) if latch else e.ir
        kind = kind_of(vals[0]) if vals else "n"
        req = ("exec " + self.env["envw"] + " " + oracle_words(kind, rp, type(exc).__name__ if exc is not None else "")
               + " " + " ".join(TS.wire_block(ir)))
        self.pending.append({"req": req, "step": step, "prior": len(self.steps), "real": type(exc).__name__ if exc is not None else None,
                             "walk": walked, "err_ids": sorted(rp.err_ids) if rp.err_ids is not None else None,
                             "declared": rp.err_declared, "targets": rp.targets, "problems": rp.problems, "text": self.text,
                             "site": rp.err_site, "origin": rp.err_origin})

    # ---- comparison --------------------------------------------------------------------------------
    def compare(self, do_write=True):
        """-> None or a difference.

        The write comes first, on both problems: formatting refreshes syntax-tree internals that public attributes
        show (old_*number, raw node texts: `_update_values`), and a rejected call may have formatted one of its
        arguments for its error message (`f"... {value} given"` calls `__str__`, which formats) — an observation that
        the control has not made yet.  After the write both problems have been observed alike; what a rejected call
        really changed is still different afterwards (values, membership, look-ups, links)."""
        beforeA = self.snapA
        wd = None
        if do_write:
            wa, wb = written(self.A, "c14a.o"), written(self.B, "c14b.o")
            if wa != wb:
                import difflib
                dl = [l for l in difflib.unified_diff(wb.splitlines(), wa.splitlines(), "without the rejected call",
                                                      "with the rejected call", lineterm="", n=0)][:12]
                wd = {"kind": "written-bytes", "diff": dl}
        self.snapA, self.snapB = Snap(self.A, probes=self.probes), Snap(self.B, probes=self.probes)
        d = self.snapA.diff(self.snapB)
        if d:
            return {"kind": "attribute-reads", "diff": [list(x) for x in d] + ([["<written file>", "diff", wd["diff"], ""]] if wd else [])}
        if wd:
            return wd
        self.direct_equal = beforeA.data == self.snapA.data
        return None


def replay_case(case, env, want_pending=False):
    """re-run a case: the prior steps, then the call, then the comparison.  -> (difference or None, info)"""
    ses = Session(case["text"], env)
    blind = case.get("blind", False)
    try:
        for st in case["steps"]:
            if st["op"] == "edit":
                ses.apply_edit(st["edit"])
            elif st["op"] == "bynum":
                ses.apply_bynum({k: v for k, v in st.items() if k != "result"})
            else:
                ses.call({k: v for k, v in st.items() if k != "raised"}, trace=False)
            if not blind:
                ses.compare()
        name = ses.call({k: v for k, v in case["call"].items() if k != "raised"}, trace=want_pending)
    except Desync as e:
        return None, {"desync": str(e)}
    info = {"raised": name, "pending": ses.pending}
    if name is None or (isinstance(name, str) and name.startswith("unbuildable")):
        return None, info
    for st in case.get("after_calls", []):
        try:
            ses.call({k: v for k, v in st.items() if k != "raised"}, trace=False)
        except Desync as e:
            return {"kind": "later-call", "diff": [str(e)]}, info
    for st in case.get("after", []):
        try:
            if st["op"] == "bynum":
                ses.apply_bynum({k: v for k, v in st.items() if k != "result"})
            else:
                ses.apply_edit(st["edit"])
        except Desync as e:
            return {"kind": "later-edit", "diff": [str(e)]}, info
    return ses.compare(), info


def shrink_case(case, env):
    cur = dict(case)
    changed = True
    while changed:
        changed = False
        for i in range(len(cur["steps"]) - 1, -1, -1):
            cand = dict(cur, steps=cur["steps"][:i] + cur["steps"][i + 1:])
            try:
                d, _ = replay_case(cand, env)
            except Exception:
                d = None
            if d is not None:
                cur = cand
                changed = True
                break
    if cur.get("after"):
        cand = dict(cur, after=[])
        try:
            d, _ = replay_case(cand, env)
        except Exception:
            d = None
        if d is not None:
            cur = cand
    return cur


# =================================================================================================
# independent enumeration of the public setters (introspection of the imported package)
# =================================================================================================
def runtime_setters():
    """(class, property, 'set'|'del') -> (file, first line, function name) for every public property with a
    setter / deleter defined by a class of montepy outside input_parser"""
    import importlib
    import pkgutil
    import inspect
    import montepy
    out = {}
    for m in pkgutil.walk_packages(montepy.__path__, "montepy."):
        if ".input_parser" in m.name or m.name.endswith("__main__") or "._scripts" in m.name:
            continue
        try:
            mod = importlib.import_module(m.name)
        except Exception:
            continue
        for _, cls in inspect.getmembers(mod, inspect.isclass):
            if cls.__module__ != m.name:
                continue
            for name, attr in cls.__dict__.items():
                if isinstance(attr, property) and not name.startswith("_"):
                    for kind, f in (("set", attr.fset), ("del", attr.fdel)):
                        if f is not None:
                            out[(cls.__name__, name, kind)] = (_rel(f.__code__.co_filename), f.__code__.co_firstlineno,
                                                               f.__code__.co_name)
    return out


def enumeration_check(G, E):
    """every runtime setter / deleter is a translated entry, a generated deleter, or an Importance alias"""
    rt_ = runtime_setters()
    missing = []
    classes = {"translated": 0, "generated": 0, "generated deleter": 0, "importance alias": 0}
    tmpl_del = {G["templates"][n]["deleter_line"] for n in G["templates"]}
    for (cls, name, kind), (file, line, fname) in sorted(rt_.items()):
        key = f"{cls}.{name}" + (".del" if kind == "del" else "")
        e = E.get(key)
        if e is not None and e.kind in ("setter", "deleter") and (e.file, e.first_line) == (file, line):
            classes["translated"] += 1
        elif e is not None and e.kind == "generated" and kind == "set" and (file, line) == (e.file, e.first_line):
            classes["generated"] += 1
        elif kind == "del" and file == "utilities.py" and line in tmpl_del:
            classes["generated deleter"] += 1
        elif e is not None and e.kind in ("alias_set", "alias_del") and file == "data_inputs/importance.py" and fname == "closure":
            classes["importance alias"] += 1
        else:
            missing.append(f"{key} ({file}:{line} {fname})")
    return rt_, classes, missing


# =================================================================================================
# the check
# =================================================================================================
def gen_text(rng):
    if rng.random() < 0.35:
        return RICH, "rich"
    P = gen.gen_problem(rng, dict(max_cells=6))
    Lo = gen.layout_opts(rng, wild=False, width=78)
    return gen.render(rng, P, Lo), "generated"


def make_env():
    G = TS.load()
    E = load_entries(G)
    return {"G": G, "E": E, "keys": ir_functions(G), "envw": env_words(G)}


def schedule_of(env, rng, focus=()):
    E = env["E"]
    sched = []
    for key, e in E.items():
        if e.kind in ("alias_set", "alias_del"):
            continue
        sched.append(("call", key))
    aliases = [k for k, e in E.items() if e.kind in ("alias_set", "alias_del")]
    sched += [("call", k) for k in rng.sample(aliases, 10)]
    for cls in COLL_KIND:
        for op in env["G"]["coll_mutators"]:
            sched.append(("coll", cls + "." + op))
    rng.shuffle(sched)
    # setters the analysis newly rejects are searched first and more often (lesson iii)
    front = [("call", k) for k in focus if k in E] * 6
    return front + sched


class Stats:
    def __init__(self):
        self.by_entry = {}
        self.classes = {}
        self.exceptions = {}
        self.argkinds = {}
        self.rounds = {"rich": 0, "generated": 0, "blind": 0, "probe": 0}
        self.sizes = {}
        self.n = {"steps": 0, "edits": 0, "rejected": 0, "accepted": 0, "unbuildable": 0, "comparisons": 0,
                  "written_compared": 0, "later_comparisons": 0, "direct_before_after_equal": 0,
                  "direct_before_after_differs_but_control_agrees": 0, "desync": 0, "traced": 0, "no_receiver": 0}

    def call(self, key, cls, name, args):
        d = self.by_entry.setdefault(key, {"rejected": 0, "accepted": 0, "classes": {}})
        if name is None:
            d["accepted"] += 1
            self.n["accepted"] += 1
        else:
            d["rejected"] += 1
            d["classes"][cls] = d["classes"].get(cls, 0) + 1
            self.n["rejected"] += 1
            self.classes[cls] = self.classes.get(cls, 0) + 1
            self.exceptions[name] = self.exceptions.get(name, 0) + 1
        for a in args:
            k = spec_kind(a)
            self.argkinds[k] = self.argkinds.get(k, 0) + 1


def one_round(ctx, env, rng, sched, stats, failures, seen_fail, deadline):
    text, origin = gen_text(rng)
    blind = rng.random() < 0.3
    try:
        ses = Session(text, env)
    except Exception:
        return None
    stats.rounds[origin] += 1
    stats.rounds["blind" if blind else "probe"] += 1
    nobj = len(ses.snapA.data)
    stats.sizes[nobj // 25 * 25] = stats.sizes.get(nobj // 25 * 25, 0) + 1
    if ses.snapA.data != ses.snapB.data:
        ctx.broken_obligations.append({"obligation": "two reads of one text give equal snapshots", "detail": ses.snapA.diff(ses.snapB)[:3]})
        return ses
    meta = meta_of(ses.A)
    nsteps = rng.choice([6, 10, 14, 20])
    E = env["E"]
    try:
        for _ in range(nsteps):
            if time.time() > deadline:
                break
            stats.n["steps"] += 1
            if ses.n_rejected and ses.probes and rng.random() < 0.08:
                members = [c.number for c in ses.A.cells]
                free = [n for n in ses.probes if n not in members]
                if members and free:
                    try:
                        ses.apply_bynum({"op": "bynum", "orig": rng.choice(members), "new": rng.choice(free),
                                         "volume": rng.choice([42.5, 7.0, 0.125])})
                    except Desync as e:
                        _report_later(ctx, env, ses, {"kind": "later-edit", "diff": [str(e)]}, failures, seen_fail, stats, blind=blind)
                        return ses
                    stats.n["edits"] += 1
                    stats.n["by_number_edits"] = stats.n.get("by_number_edits", 0) + 1
                    if not blind:
                        d = ses.compare(do_write=True)
                        stats.n["comparisons"] += 1
                        stats.n["later_comparisons"] += 1
                        if d is not None:
                            _report_later(ctx, env, ses, d, failures, seen_fail, stats)
                            return ses
                    continue
            if rng.random() < 0.25:
                try:
                    prog = ED.gen_program(rng, meta, n=1)
                except (KeyError, IndexError, ValueError):
                    prog = []
                if prog:
                    ses.apply_edit(prog[0])
                    stats.n["edits"] += 1
                    if not blind:
                        d = ses.compare(do_write=True)
                        stats.n["comparisons"] += 1
                        if ses.n_rejected:
                            stats.n["later_comparisons"] += 1
                        if d is not None:
                            # A and B differ after a valid edit: an earlier rejected call shows only now
                            _report_later(ctx, env, ses, d, failures, seen_fail, stats)
                            return ses
                continue
            # a call with an invalid argument
            step = None
            for _try in range(8):
                if not sched:
                    break
                op, key = sched.pop(0)
                sched.append((op, key))
                if op == "call":
                    e = E[key]
                    labs = receivers(e, ses.snapA)
                    if not labs:
                        stats.n["no_receiver"] += 1
                        continue
                    lab = rng.choice(labs)
                    cands = candidates(rng, e, lab, ses.snapA, ses.snapB, blind)
                    if not cands:
                        continue
                    inval = [c for c in cands if c[0] != "valid"]
                    pick = rng.choice(inval if (inval and rng.random() < 0.85) else cands)
                    step = {"op": "call", "entry": key, "label": lab, "args": pick[1], "cls": pick[0]}
                else:
                    cname, mut = key.split(".", 1)
                    labs = [l for l, o in ses.snapA.objs.items() if type(o).__name__ == cname]
                    if not labs:
                        stats.n["no_receiver"] += 1
                        continue
                    lab = rng.choice(labs)
                    cands = coll_candidates(rng, mut, ses.snapA.objs[lab], lab, ses.snapA, blind)
                    if not cands:
                        continue
                    pick = rng.choice(cands)
                    step = {"op": "coll", "mut": mut, "entry": key, "label": lab, "args": pick[1], "cls": pick[0]}
                break
            if step is None:
                continue
            prior = list(ses.steps)
            name = ses.call(step, trace=True)
            if isinstance(name, str) and name.startswith("unbuildable"):
                stats.n["unbuildable"] += 1
                continue
            if step["op"] == "call":
                stats.n["traced"] += 1
            stats.call(step["entry"], step["cls"], name, step["args"])
            ctx.count_case((step["entry"], step["cls"], [spec_kind(a) for a in step["args"]], name), nontrivial=name is not None)
            if name is None:
                if not blind:
                    ses.snapA, ses.snapB = Snap(ses.A, probes=ses.probes), Snap(ses.B, probes=ses.probes)     # labels of new members
                continue
            if blind:
                continue
            d = ses.compare(do_write=True)
            stats.n["comparisons"] += 1
            stats.n["written_compared"] += 1
            if d is None:
                if ses.direct_equal:
                    stats.n["direct_before_after_equal"] += 1
                else:
                    stats.n["direct_before_after_differs_but_control_agrees"] += 1
                if len(ctx.cov["samples"]) < 6 and rng.random() < 0.05:
                    ctx.sample({"call": ses.steps[-1], "outcome": "raised, problem unchanged"})
                continue
            case = {"text": text, "blind": False, "steps": prior, "call": ses.steps[-1] if ses.steps and ses.steps[-1].get("entry") == step["entry"] else step}
            _report(ctx, env, case, d, failures, seen_fail)
            return ses
        if blind and ses.n_rejected:
            d = ses.compare(do_write=True)
            stats.n["comparisons"] += 1
            stats.n["written_compared"] += 1
            stats.n["later_comparisons"] += 1 if ses.edits_after_reject else 0
            if d is not None:
                _report_later(ctx, env, ses, d, failures, seen_fail, stats, blind=True)
    except Desync as e:
        stats.n["desync"] += 1
        failures.setdefault("_desync", []).append(str(e))
    return ses


def _report(ctx, env, case, d, failures, seen_fail):
    key = (case["call"].get("entry"), case["call"].get("cls"))
    n = seen_fail.get(key, 0)
    seen_fail[key] = n + 1
    if n < 2:
        try:
            case = shrink_case(case, env)
            d2, _ = replay_case(case, env)
            if d2 is not None:
                d = d2
        except Exception:
            pass
    fail = {"kind": d["kind"], "case": case, "diff": d["diff"], "entry": case["call"].get("entry"),
            "class": case["call"].get("cls"), "raised": case["call"].get("raised")}
    failures.setdefault(key[0], []).append(fail)
    ctx.fail(fail)


def _report_later(ctx, env, ses, d, failures, seen_fail, stats, blind=False):
    """A and B differ at a point where no call was just rejected: find the rejected call that did it"""
    steps = ses.steps
    idx = [i for i, s in enumerate(steps) if s["op"] != "edit" and s.get("raised")]
    for i in idx:
        case = {"text": ses.text, "blind": blind, "steps": steps[:i], "call": steps[i],
                "after": [s for s in steps[i + 1:] if s["op"] in ("edit", "bynum")]}
        try:
            dd, _ = replay_case(case, env)
        except Exception:
            dd = None
        if dd is not None:
            _report(ctx, env, case, dd, failures, seen_fail)
            return
    if idx:
        case = {"text": ses.text, "blind": blind, "steps": steps[:idx[-1]], "call": steps[idx[-1]],
                "after": [s for s in steps[idx[-1] + 1:] if s["op"] in ("edit", "bynum")], "note": "not reproduced by any single rejected call"}
        _report(ctx, env, case, d, failures, seen_fail)


def focus_search(ctx, env, key, stats, failures, seen_fail, deadline):
    """the analysis names `key` as a setter that mutates before a statement that may raise: look for a concrete
    failing input near it — every receiver, every candidate argument, and after a rejected call the other
    setters of the same object (a value stored by the rejected call may only show after a neighbouring edit)"""
    E = env["E"]
    e = E[key]
    rng = random.Random(f"{ctx.seed}:{PROP}:focus:{key}")
    texts = [RICH] + [gen_text(rng)[0] for _ in range(3)]
    found = 0
    for text in texts:
        try:
            ses0 = Session(text, env)
        except Exception:
            continue
        for lab in receivers(e, ses0.snapA):
            cands = []
            for _ in range(3):
                cands += candidates(rng, e, lab, ses0.snapA, ses0.snapB, False)
            if e.nargs() >= 1:
                cands += [("wrong type", [sp]) for sp in type_pool(rng, ses0.snapA)]
                cands += [("out of range", [sp]) for sp in range_pool()]
            seen = set()
            ses = None
            for cls, args in cands:
                k = json.dumps(args, sort_keys=True, default=str)
                if k in seen or time.time() > deadline:
                    continue
                seen.add(k)
                try:
                    if ses is None:
                        ses = Session(text, env)
                    step = {"op": "call", "entry": key, "label": lab, "args": args, "cls": cls}
                    npend = len(ses.pending)
                    name = ses.call(step, trace=True)
                    if name is None:
                        ses = None          # accepted: the problems have changed, start again
                        continue
                    if name.startswith("unbuildable"):
                        continue
                    stats.call(key, cls, name, args)
                    ctx.count_case(("focus", key, cls, k[:80], name))
                    pend = ses.pending[npend:]
                    if not (pend and pend[-1]["targets"]):
                        continue            # the trace shows no mutation statement before the raise
                    d = ses.compare()
                    case = {"text": text, "blind": False, "steps": [], "call": ses.steps[-1]}
                    if d is None:
                        # neighbouring valid edits on the same object, on both problems
                        obj = ses.snapA.objs.get(lab)
                        for k2, e2 in E.items():
                            if e2.kind not in ("setter", "generated") or k2 == key or obj is None:
                                continue
                            if not any(c.__name__ == e2.cls for c in type(obj).__mro__) or defining_class(obj, e2.name) != e2.cls:
                                continue
                            cur = _read_both(e2.name, lab, ses.snapA, ses.snapB)
                            if cur is None:
                                continue
                            vals = [cur]
                            if cur["t"] == "lit" and isinstance(cur["v"], bool):
                                vals = [L(not cur["v"]), cur]
                            for v in vals:
                                st2 = {"op": "call", "entry": k2, "label": lab, "args": [v], "cls": "valid"}
                                n2 = ses.call(st2, trace=False)
                                if n2 is None:
                                    d = ses.compare()
                                    if d is not None:
                                        case = {"text": text, "blind": False, "steps": [], "call": step,
                                                "after_calls": [st2]}
                                        break
                            if d is not None:
                                break
                        ses = None
                    if d is not None:
                        ses = None
                        fail = {"kind": d["kind"], "case": case, "diff": d["diff"], "entry": key, "class": cls, "raised": name,
                                "note": "found by the search around a setter the analysis rejects"}
                        failures.setdefault(key, []).append(fail)
                        ctx.fail(fail)
                        found += 1
                        if found >= 3:
                            return found
                except Desync:
                    ses = None
                    continue
                except Exception:
                    ses = None
                    continue
    return found


def check_pending(ctx, env, pending, failing, stats, sample):
    """the model against the traced real calls"""
    if not pending:
        return {"requests": 0}
    reqs = [p["req"] for p in pending]
    answers = vlib.model_ask("Setter", reqs)
    bad = []
    agree = 0
    E = env["E"]
    for p, a in zip(pending, answers):
        ctx.cov["programs"] += 1
        ctx.cov["disagreements_checked"] += 1
        why = []
        try:
            res, targets = parse_answer(a)
        except Exception:
            why.append("model answer unreadable: " + a[:100])
            res, targets = None, []
        if p["problems"]:
            why += p["problems"]
        real = p["real"]
        if (res is None) != (real is None):
            why.append(f"model says {'rejected at statement %d with %s' % res if res else 'accepted'}, the code "
                       f"{'raises ' + real if real else 'accepts'}")
        elif res is not None:
            if p["err_ids"] is not None and res[0] not in p["err_ids"]:
                why.append(f"model raises at statement {res[0]}, the code at one of {p['err_ids']} ({p['site']})")
            if res[1] != real:
                if p.get("origin", True):
                    why.append(f"model raises {res[1]}, the code {real}")
                else:
                    stats.n["raise_message_failed"] = stats.n.get("raise_message_failed", 0) + 1
        if res is not None:
            st = _find_stmt(E[p["step"]["entry"]].ir, res[0])
            if st is not None and st["op"] == "call" and st["m"] and not st["a"] and targets and targets[-1] == "call:" + st["f"][:60]:
                targets = targets[:-1]       # a non-atomic call that raises: the model counts it as having written
        if targets != p["targets"]:
            why.append(f"model executes mutations {targets}, the trace shows {p['targets']}")
        base = E[p["step"]["entry"]].base
        if real is not None and base not in failing and (targets or p["targets"]):
            why.append("a checks-first setter raised after a mutation statement (contradicts C14_checks_first)")
        if why:
            bad.append({"entry": p["step"]["entry"], "why": why[:4], "step": p["step"], "prior_steps": p["prior"],
                        "text": p["text"]})
        else:
            agree += 1
    nx, xbad = vlib.vm_crosscheck("Setter", [q for q in reqs if len(q) < 20000], [a for q, a in zip(reqs, answers) if len(q) < 20000],
                                  sample=sample, seed=ctx.seed)
    if xbad:
        ctx.broken_obligations.append({"obligation": "extraction cross-check Setter", "detail": [x[:300] for x in xbad[:2]]})
    if bad:
        ctx.broken_obligations.append({"obligation": "correspondence Setter.exec vs traced real setter calls",
                                       "detail": {"n": len(bad), "entries": sorted({b["entry"] for b in bad})[:12], "first": bad[0]}})
    return {"requests": len(reqs), "agree": agree, "disagree": len(bad), "vm_crosschecked": nx}


def _find_stmt(ir, i):
    for s in ir:
        if s["id"] == i:
            return s
        for k in ("body", "b1", "b2"):
            if k in s:
                r = _find_stmt(s[k], i)
                if r is not None:
                    return r
    return None


def analysis_of(env):
    """checks_first of every table entry, by the extracted model"""
    G = env["G"]
    names, reqs = [], []
    for s in G["setters"]:
        names.append(f"{s['cls']}.{s['name']}" + (".del" if s["kind"] == "deleter" else ""))
        reqs.append("an " + env["envw"] + " " + s["wire"])
    for g in G["generated"]:
        names.append(f"{g['cls']}.{g['name']}")
        reqs.append("an " + env["envw"] + " " + g["wire"])
    ans = vlib.model_ask("Setter", reqs)
    return {n for n, a in zip(names, ans) if a != "1"}, reqs, ans


def may_raise_entry(ir):
    for s in ir:
        if s["op"] in MAY_RAISE_OPS or (s["op"] == "call" and s["r"]):
            return True
        for k in ("body", "b1", "b2"):
            if k in s and may_raise_entry(s[k]):
                return True
    return False


def run(ctx):
    t0 = time.time()
    quick = ctx.tier == "quick"
    try:
        env = make_env()
    except TS.TranslateError as e:
        ctx.broken_obligations.append({"obligation": "translate_setters: the source has a shape the translator does not know "
                                                     "(fail closed)", "detail": str(e)})
        ctx.prove()
        return ctx.finish(TRUSTED, ASSUMPTIONS, RULE)
    marks = {"translate": round(time.time() - t0, 1)}
    proved = ctx.prove()
    marks["prove"] = round(time.time() - t0, 1)
    G, E = env["G"], env["E"]
    # the analysis on the tables of the working tree: which setters fail it (names the witnesses when the
    # obligation C14_excluded_exact does not hold any more)
    failing, an_reqs, an_ans = analysis_of(env)
    new_failing = sorted(failing - set(EXCLUDED))
    stale = sorted(set(EXCLUDED) - failing)
    if new_failing:
        ctx.broken_obligations.append({"obligation": "C14_all_setters (forallb checks_first Gen.setter_table)",
                                       "detail": {"setters that mutate before a statement that may raise": new_failing}})
    if stale and not proved:
        ctx.broken_obligations.append({"obligation": "C14_excluded_exact", "detail": {"excluded setters that are checks-first now "
                                       "(repaired? remove them from Properties/C14.v and close their finding)": stale}})
    # the source enumerated twice
    rt_, enum_classes, missing = enumeration_check(G, E)
    if missing:
        ctx.broken_obligations.append({"obligation": "every public property setter / deleter of the package is translated",
                                       "detail": missing[:10]})
    stats = Stats()
    failures, seen_fail = {}, {}
    pending = []
    # corpus first
    corpus_failed = []
    cdir = os.path.join(vlib.VERIF, "corpus", PROP)
    if os.path.isdir(cdir):
        for f in sorted(os.listdir(cdir)):
            if f.endswith(".json"):
                with open(os.path.join(cdir, f)) as fh:
                    case = json.load(fh)
                c = case.get("case", case)
                try:
                    d, info = replay_case(c, env, want_pending=True)
                    pending += info.get("pending", [])
                except Exception as e:
                    d = {"kind": "replay-error", "diff": [type(e).__name__ + ": " + str(e)[:200]]}
                ctx.count_case(("corpus", f))
                if d is not None:
                    corpus_failed.append(f)
                    ctx.fail({"kind": d["kind"], "case": c, "diff": d["diff"], "entry": c["call"].get("entry"),
                              "class": c["call"].get("cls"), "corpus": f})
    focus_found = {}
    for key in new_failing:
        if key in E:
            focus_found[key] = focus_search(ctx, env, key, stats, failures, seen_fail, time.time() + (20 if quick else 120))
    budget = 40 if quick else 780
    deadline = time.time() + budget
    max_rounds = 10 ** 9
    i = 0
    sched = None
    while time.time() < deadline and i < max_rounds:
        rng = random.Random(f"{ctx.seed}:{PROP}:{i}")
        if sched is None:
            sched = schedule_of(env, rng, focus=new_failing)
        ses = one_round(ctx, env, rng, sched, stats, failures, seen_fail, deadline)
        if ses is not None:
            pending += ses.pending
        i += 1
    marks["search"] = round(time.time() - t0, 1)
    corr = check_pending(ctx, env, pending, failing, stats, sample=12 if quick else 100)
    marks["model"] = round(time.time() - t0, 1)
    # replay of the committed findings
    for fd in ctx.findings:
        if fd.get("status") != "open":
            continue
        try:
            with open(os.path.join(vlib.VERIF, fd["replay"])) as fh:
                c = json.load(fh)
            # some of the defects depend on the iteration order of a set of objects: a few attempts
            d = None
            for _attempt in range(5):
                d, _ = replay_case(c.get("case", c), env)
                if d is not None:
                    break
            fd["_reproduced"] = d is not None
        except Exception:
            fd["_reproduced"] = False
    marks["findings"] = round(time.time() - t0, 1)
    # coverage of the enumeration
    uncovered, cannot = [], []
    for key, e in E.items():
        if e.kind in ("alias_set", "alias_del"):
            continue
        n = stats.by_entry.get(key, {}).get("rejected", 0)
        if n == 0:
            (uncovered if may_raise_entry(e.ir) else cannot).append(key)
    coll_keys = [c + "." + m for c in COLL_KIND for m in G["coll_mutators"]]
    extra = {
        "enumeration": {"runtime property setters/deleters": len(rt_), "by kind": enum_classes,
                        "hand-written setters/deleters/mutators translated": len(G["setters"]),
                        "generated settable properties": len(G["generated"]), "decorator uses": len(G["props"]),
                        "collection mutators x collection classes": len(coll_keys),
                        "excluded from scope (translator)": G["excluded"]},
        "analysis": {"fail checks_first": sorted(failing), "expected (Properties/C14.v)": sorted(EXCLUDED)},
        "rounds": stats.rounds, "problem sizes (objects, bucket of 25)": stats.sizes, "counts": stats.n,
        "rejected by invalid-argument class": stats.classes, "exception classes": stats.exceptions,
        "argument kinds": stats.argkinds,
        "per entry": {k: v for k, v in sorted(stats.by_entry.items())},
        "entries never rejected although the IR has a statement that may raise": sorted(uncovered),
        "entries that cannot be rejected (no may-raise statement in the IR; none observed)": sorted(cannot),
        "collection entries exercised": sorted(k for k in stats.by_entry if k in coll_keys),
        "correspondence": corr, "corpus_failed": corpus_failed,
        "translator claims used": len(G["notes"]), "time marks (s)": marks, "focus search": focus_found,
    }
    return ctx.finish(TRUSTED, ASSUMPTIONS, RULE, extra=extra)


TRUSTED = vlib.KERNEL_TB + [
    "harness/translate_setters.py (Python ast -> Gen/Setters.v): which functions are setters (property setters/deleters outside "
    "input_parser/, the METHODS list, fail closed on any other public mutating method), statement recognition, inlining, and the "
    "facts CALL_FACTS / CTOR_FACTS / SUBSCRIPT_FACTS about callees it does not translate; each use is validated at run time by "
    "the trace walk (an exception at a statement claimed not to raise, or a mutation the IR does not show, is a disagreement)",
    "harness/props/C14.py: snapshot (public attribute reads, str, repr, len, iteration of every object reachable from the problem), "
    "sys.settrace walk of real calls along the IR, control problem B",
]
ASSUMPTIONS = [
    "object state is abstracted to the list of executed mutation statements: `unchanged` in the theorems means no mutation "
    "statement of the IR was executed; that the real objects are unchanged is what the snapshot oracle checks",
    "calls into code the translator does not inline are opaque with (may_raise, may_mutate, atomic) flags claimed by the translator",
    "collection mutators: Model/Coll.v (C06), not re-translated here",
    "closure-cell latching of `types=()` properties (D16) is C17's subject: C14_later_edits holds for non-latching calls",
]
RULE = ("a call that raises leaves snapshot(A) == snapshot(B) and write(A) == write(B), B being the same problem driven through "
        "the same program without the rejected call; model: Setter.exec with the traced oracle reproduces result, raise site and "
        "mutation statements of every real call; Properties/C14.v: checks_first programs are atomic, every table entry is "
        "checks_first or refuted")


def replay(ctx, path):
    env = make_env()
    with open(path) as fh:
        c = json.load(fh)
    case = c.get("case", c)
    if "call" not in case:
        print("not a C14 case (broken-obligation record?)")
        print(json.dumps(c, indent=1)[:3000])
        return 1
    d, info = replay_case(case, env)
    print("call:", json.dumps(case["call"]))
    print("raised:", info.get("raised"))
    if d is None:
        print("problem unchanged: the case passes")
        return 0
    print("DIFFERENCE", d["kind"])
    for x in d["diff"]:
        print("  ", x)
    return 1
