"""C14 — a rejected edit leaves the problem unchanged.

Obligations: coq/Properties/C14.v (theorems over coq/Model/Setter.v, applied to coq/Gen/Setters.v, which
harness/translate_setters.py regenerates from the source of MontePy on every run; collection mutators:
Model/Coll.v, property C06).

Real side.  Two problems A and B are read from the same text and driven in lock step through a program
of valid edits (harness/edits.py) and observations.  At random points an *invalid* call is made on A
only.  After it:
  * the call must have raised (model says rejected  <=>  code rejects);
  * snapshot(A) == snapshot(B): every public attribute read of every object reachable from the problem,
    normalised, plus str/repr/len/iteration — and write_to_file(A) == write_to_file(B) byte for byte;
  * the program goes on (later valid edits on both): every later comparison is the sentence "later valid
    edits behave as if the rejected call had not happened".
B is the control: whatever observation itself changes (C19's business) happens to both.

Correspondence.  Every real call of a translated setter is traced (sys.settrace, line events of the
frames of the functions the IR was translated from); the trace is walked along the IR: it yields the
adversary's choices (which statement raised, branch decisions, iteration counts, kinds of rebound
arguments) and validates the translator's claims (an exception may only surface at a statement the IR
says may raise; a statement that executed must be where the IR expects it).  The extracted model
`Setter.exec` is then run with that oracle: result (ok / error statement and class) and executed
mutation statements must agree with the real call; the kind-determined checks (isinstance, iteration)
are decided by the model alone.  A changed snapshot after a raise requires an executed mutation
statement in the IR, and for a checks-first setter (theorem C14_checks_first) cannot happen at all.
"""
import enum
import json
import math
import os
import random
import re
import sys
import time
import warnings

import vlib
import gen
import edits as ED
import mp
import translate_setters as TS

PROP = "C14"

# setters excluded in Properties/C14.v (failing checks_first on the unchanged tree) -> finding
EXCLUDED = {
    "Cell.atom_density": "F-C14-density-overflow",
    "Cell.mass_density": "F-C14-density-overflow",
    "Importance.all": "F-C14-importance-all-keyerror",
    "Cells.set_equal_importance": "F-C14-importance-all-keyerror",
    "MCNP_Problem.cells": "F-C14-cells-setter-clears",
    "UnitHalfSpace.divider": "F-C14-divider-assigned-before-append",
    "Mode.set": "F-C14-mode-set-clears",
    "MCNP_Problem.set_mode": "F-C14-mode-set-clears",
    "Cell.geometry": "F-C14-geometry-partial-link",
}

RICH = """C14 rich base problem
1 1 -2.5 -1 2 -3 imp:n=1 imp:p=1 vol=3.0 u=2
2 2 0.05 (1:-2) -4 imp:n=2 imp:p=1 u=2
3 0 4 -5 #1 imp:n=1 imp:p=0.5 fill=2 (1)
4 0 -6 7 -8 imp:n=1 imp:p=1 lat=1 u=3 fill=0:1 0:0 0:0 2 2
5 1 -1.0 5 -9 imp:n=1 imp:p=1 fill=3
6 0 9 imp:n=0 imp:p=0

1 so 5.0
2 px 1.5
3 c/z 1.0 2.0 3.5
4 1 cz 8.0
5 so 20.0
*6 px -10
7 -8 py -3.0
8 py 3.0
+9 so 30.0
10 k/z 0 0 1 0.5 1

mode n p
m1 1001.80c 0.6 8016.80c 0.4
mt1 lwtr.10t
m2 92235.80c 0.05 92238.80c 0.95
tr1 1.0 2.0 3.0
*tr2 0 0 0 30 60 90 120 30 90 90 90 0
nps 1000
"""


# =================================================================================================
# snapshot: every public attribute read of every object reachable from the problem
# =================================================================================================
_HEX = re.compile(r"0x[0-9a-fA-F]+")


def _is_problem_object(o):
    """MontePy objects that make up a problem (not syntax-tree nodes, not enum members, not classes)"""
    t = type(o)
    m = getattr(t, "__module__", "") or ""
    if not m.startswith("montepy"):
        return False
    if isinstance(o, (enum.Enum, type)):
        return False
    if m.startswith("montepy.input_parser"):
        return False
    return True


def _is_syntax_node(o):
    m = getattr(type(o), "__module__", "") or ""
    return m.startswith("montepy.input_parser")


SKIP_ATTRS = {
    # not reads of the problem: class-level constants / bookkeeping of the parser objects
    "allowed_keywords",
}


class Snap:
    """snapshot of a problem: label -> {attribute -> normalised value}; label -> object"""

    def __init__(self, problem, extra_roots=()):
        self.data = {}
        self.objs = {}
        self._label = {}
        self._queue = []
        self._enqueue(problem, "problem")
        for i, r in enumerate(extra_roots):
            if _is_problem_object(r):
                self._enqueue(r, "arg%d" % i)
        with warnings.catch_warnings():
            warnings.simplefilter("ignore")
            while self._queue:
                o, lab = self._queue.pop(0)
                self.data[lab] = self._read(o, lab)

    def _enqueue(self, o, lab):
        if id(o) in self._label:
            return self._label[id(o)]
        self._label[id(o)] = lab
        self.objs[lab] = o
        self._queue.append((o, lab))
        return lab

    def _norm(self, v, path, depth=0):
        if v is None or isinstance(v, (bool, str)):
            return v
        if isinstance(v, int):
            return ("int", str(v))
        if isinstance(v, float):
            return ("float", "nan" if math.isnan(v) else v.hex())
        if isinstance(v, complex):
            return ("complex", repr(v))
        if isinstance(v, enum.Enum):
            return ("enum", type(v).__name__, v.name)
        if isinstance(v, type):
            return ("class", v.__name__)
        try:
            import numpy as np
            if isinstance(v, np.ndarray):
                return ("array", list(v.shape), str(v.dtype.kind),
                        [self._norm(x, path + "[%d]" % i, depth + 1) for i, x in enumerate(v.flatten().tolist())]
                        if v.dtype.kind != "O" else
                        [self._norm(x, path + "[%d]" % i, depth + 1) for i, x in enumerate(v.flatten())])
            if isinstance(v, np.generic):
                return self._norm(v.item(), path, depth)
        except ImportError:
            pass
        if depth > 6:
            return ("deep", type(v).__name__)
        if isinstance(v, (list, tuple)):
            return [type(v).__name__] + [self._norm(x, path + "[%d]" % i, depth + 1) for i, x in enumerate(v)]
        if isinstance(v, (set, frozenset)):
            items = [self._norm(x, path + "{}", depth + 1) for x in v]
            return ["set"] + sorted(items, key=repr)
        if isinstance(v, dict):
            items = [(self._norm(k, path + ".key", depth + 1), self._norm(x, path + "[%s]" % _keystr(k), depth + 1))
                     for k, x in v.items()]
            return ["dict"] + [list(kv) for kv in items]      # insertion order is observable
        if _is_problem_object(v):
            return ("ref", self._enqueue(v, path))
        if _is_syntax_node(v):
            try:
                txt = v.format()
            except Exception as e:
                txt = "format raises " + type(e).__name__
            return ("node", type(v).__name__, txt)
        if hasattr(v, "__next__") or type(v).__name__ in ("generator", "dict_keys", "dict_values", "dict_items",
                                                           "map", "filter", "zip"):
            try:
                return ["iter"] + [self._norm(x, path + "[%d]" % i, depth + 1) for i, x in enumerate(list(v))]
            except Exception as e:
                return ("iter raises", type(e).__name__)
        return ("repr", type(v).__name__, _HEX.sub("0x", repr(v))[:200])

    def _read(self, o, lab):
        out = {"__class__": type(o).__name__}
        names = set()
        for c in type(o).__mro__:
            names.update(n for n in c.__dict__ if not n.startswith("_"))
        names.update(n for n in getattr(o, "__dict__", {}) if not n.startswith("_"))
        for n in sorted(names - SKIP_ATTRS):
            static = None
            for c in type(o).__mro__:
                if n in c.__dict__:
                    static = c.__dict__[n]
                    break
            if static is not None and not isinstance(static, property) and (
                    callable(static) or isinstance(static, (staticmethod, classmethod))):
                continue       # methods are not attribute reads
            try:
                v = getattr(o, n)
            except Exception as e:
                out[n] = ("raises", type(e).__name__)
                continue
            if callable(v) and not _is_problem_object(v):
                continue
            out[n] = self._norm(v, lab + "." + n)
        # the other zero-argument observations: str, repr, len, iteration, membership keys
        for fn, key in ((str, "str()"), (repr, "repr()")):
            try:
                out[key] = _HEX.sub("0x", fn(o))[:400]
            except Exception as e:
                out[key] = ("raises", type(e).__name__)
        if hasattr(type(o), "__len__"):
            try:
                out["len()"] = len(o)
            except Exception as e:
                out["len()"] = ("raises", type(e).__name__)
        if hasattr(type(o), "__iter__"):
            try:
                out["iter()"] = [self._norm(x, lab + "[%d]" % i) for i, x in enumerate(list(o))]
            except Exception as e:
                out["iter()"] = ("raises", type(e).__name__)
        # what the importance object answers for every particle of the mode (and that others are refused)
        if type(o).__name__ == "Importance":
            import montepy
            vals = []
            for p in montepy.particle.Particle:
                try:
                    vals.append((p.name, self._norm(o[p], lab)))
                except Exception as e:
                    vals.append((p.name, type(e).__name__))
            out["[particle]"] = vals
        if type(o).__name__ == "CellDataPrintController":
            out["[key]"] = []
            for k in ("imp", "vol", "u", "lat", "fill"):
                try:
                    out["[key]"].append((k, o[k]))
                except Exception as e:
                    out["[key]"].append((k, type(e).__name__))
        return out

    def diff(self, other, limit=6):
        """first differences: list of (label, attribute, mine, theirs)"""
        out = []
        for lab in sorted(set(self.data) | set(other.data)):
            a, b = self.data.get(lab), other.data.get(lab)
            if a is None or b is None:
                out.append((lab, "<object>", "present" if a is not None else "absent", "present" if b is not None else "absent"))
            elif a != b:
                for k in sorted(set(a) | set(b)):
                    if a.get(k, "<no attribute>") != b.get(k, "<no attribute>"):
                        out.append((lab, k, _short(a.get(k, "<no attribute>")), _short(b.get(k, "<no attribute>"))))
                        if len(out) >= limit:
                            return out
            if len(out) >= limit:
                break
        return out


def _keystr(k):
    return k.name if isinstance(k, enum.Enum) else str(k)


def _short(v):
    s = repr(v)
    return s if len(s) < 300 else s[:300] + "..."


def written(problem, name):
    """bytes write_to_file produces, or the class of the exception"""
    try:
        return mp.write_problem(problem, name)
    except Exception as e:
        return "WRITE RAISES " + type(e).__name__
