"""C08 — shortcuts nR nI nILOG xM nJ expand as MCNP defines and re-compress without changing values.

Obligations: coq/Properties/C08.v over coq/Model/Shortcut.v (ShortcutNode / ListNode of
montepy/input_parser/syntax_node.py + the shortcut grammar rules of parser_base.py).
Correspondence (model vs real code, every run):
  exp: token list -> parsed nodes and expanded values (DataParser / SurfaceParser on a generic card);
  upd: (dumped ListNode._shortcuts, new value nodes) -> ListNode.update_with_new_values + format():
       node structure and text, byte for byte; the model's own reading of its pieces vs spec.py's reading
       of the text; also in situ, through the data-block VOL / U / LAT / FILL cards of whole problems.
Oracle (search): spec.expand_shortcuts(spec.tokens(written text)) equals the current values (rel 1e-9), one entry
per position, jumps stay jumps (trailing jumps may be left off) — on bare ListNodes after edit scripts and through
the real carriers after attribute edits, cell removal, cell addition and re-ordering.
"""
import copy
import json
import math
import os
import random
import re
import warnings
from fractions import Fraction

import vlib
import spec
import mp

warnings.simplefilter("ignore")

KIND_OF = {"REPEAT": "R", "MULTIPLY": "M", "JUMP": "J", "INTERPOLATE": "I", "LOG_INTERPOLATE": "L"}


def hx(s):
    return s.encode("latin-1", "replace").hex() if s else "-"


def unhx(s):
    return "" if s == "-" else bytes.fromhex(s).decode("latin-1")


def fq(x):
    """exact rational of a python number, wire form"""
    f = Fraction(x)
    return f"{f.numerator}/{f.denominator}"


def parse_q(s):
    a, b = s.split("/")
    return Fraction(int(a), int(b))


# ---------------------------------------------------------------------------- token lists
# a token: {"k": "n"|"r"|"i"|"l"|"m"|"j", "t": text}
NUMS = ["1", "2", "3", "5", "7", "10", "12", "0", "2.5", "0.25", "1.5", "4.0", "1e3", "1.5e-2", "-2", "-3.5",
        "100", "6.25", "+4", "1E2", "08"]
POS_NUMS = ["1", "2", "3", "5", "10", "2.5", "0.25", "1e3", "100", "1E2", "1.5e-2"]
# small magnitudes (thermal energies, tiny volumes): the accuracy of an expansion is judged relative to the value
SMALL_NUMS = ["2e-13", "5e-13", "1e-11", "3.5e-9", "1e-5", "2e-5", "4.5e-7", "1.25e-4", "6e-10", "7.5e-12"]


def gen_count(rng, wide):
    r = rng.random()
    if r < 0.18:
        return ""
    if r < 0.22:
        return "0"
    if r < 0.30:
        return "1"
    if r < 0.85:
        return str(rng.randint(2, 6))
    if r < 0.97:
        return str(rng.randint(9, 13))
    return str(rng.randint(20, 120)) if wide else str(rng.randint(10, 14))


def cased(rng, s):
    return s.upper() if rng.random() < 0.3 else s


def gen_shortcut(rng, allow_m, wide, after_jump=False):
    """tokens of one shortcut (without its start value)"""
    r = rng.random()
    if r < 0.38:
        return [{"k": "r", "t": gen_count(rng, wide) + cased(rng, "r")}]
    if r < 0.70:
        pool = SMALL_NUMS if rng.random() < 0.2 else [x for x in NUMS if Fraction(spec.read_number(x)) != 0]
        return [{"k": "i", "t": gen_count(rng, wide) + cased(rng, "i")}, {"k": "n", "t": rng.choice(pool)}]
    if r < 0.80:
        w = rng.choice(["ilog", "log", "ILOG", "LOG"])
        return [{"k": "l", "t": gen_count(rng, wide) + w},
                {"k": "n", "t": rng.choice(SMALL_NUMS if rng.random() < 0.25 else POS_NUMS)}]
    if allow_m:
        return [{"k": "m", "t": rng.choice(["2", "3", "-2", "10", "4"]) + cased(rng, "m")}]
    return [{"k": "r", "t": gen_count(rng, wide) + cased(rng, "r")}]


def gen_tokens(rng, allow_m=True, wide=False, errors=0.04, max_groups=6):
    toks = []
    ngroups = rng.randint(1, max_groups)
    err_done = False
    for g in range(ngroups):
        r = rng.random()
        if r < 0.22:
            toks.append({"k": "j", "t": gen_count(rng, wide) + cased(rng, "j")})
            if not err_done and rng.random() < errors:       # a shortcut straight after a jump: ValueError
                toks += gen_shortcut(rng, allow_m, wide)
                err_done = True
            continue
        if r < 0.45:
            for _ in range(rng.randint(1, 3)):
                toks.append({"k": "n", "t": rng.choice(NUMS)})
            continue
        sc = gen_shortcut(rng, allow_m, wide)
        start = rng.choice(POS_NUMS if sc[0]["k"] == "l" else NUMS)
        if sc[0]["k"] in ("i", "l") and (sc[1]["t"] in SMALL_NUMS or rng.random() < 0.1):
            start = rng.choice(SMALL_NUMS)               # both ends small, or a small start
        toks.append({"k": "n", "t": start})
        toks += sc
        if rng.random() < 0.22:                               # a second, chained shortcut
            sc2 = gen_shortcut(rng, allow_m, wide)
            if sc2[0]["k"] == "l" and Fraction(spec.read_number(toks[-1]["t"]) or 1) <= 0:
                sc2 = [{"k": "r", "t": "2r"}]
            if toks[-1]["k"] == "m" and not allow_m:
                pass
            toks += sc2
            if not err_done and rng.random() < errors * 2:    # a third one: crashes the parser
                toks += gen_shortcut(rng, allow_m, wide)
                err_done = True
    if not err_done and rng.random() < errors:
        toks.insert(0, {"k": "r", "t": "2r"})                 # nothing to repeat: rejected
    elif not err_done and rng.random() < errors:
        toks.append({"k": "i", "t": "2i"})                    # interpolate without an end: rejected
    return toks


def seps_for(rng, n):
    return [rng.choice([" ", " ", " ", "  ", "\n     ", "   "]) for _ in range(n)]


def text_of(toks, seps=None):
    seps = seps or [" "] * len(toks)
    out = ""
    for i, t in enumerate(toks):
        out += t["t"]
        if i < len(toks) - 1:
            out += seps[i]
    return out


def tok_request(t):
    from montepy.utilities import fortran_float
    k, s = t["k"], t["t"]
    if k == "n":
        return "n" + fq(fortran_float(s))
    if k == "m":
        return "m" + fq(fortran_float(s[:-1]))
    digits = re.match(r"\d*", s).group(0)
    return k + (str(int(digits)) if digits else "-")


# ---------------------------------------------------------------------------- real side: parsing
def real_parse(text, which):
    """-> (ListNode, None) or (None, error class)"""
    from montepy.input_parser.mcnp_input import Input
    from montepy.input_parser.block_type import BlockType
    from montepy.input_parser.data_parser import DataParser
    from montepy.input_parser.surface_parser import SurfaceParser
    from montepy.errors import ParsingError
    if which == "data":
        lines = ("e14 " + text).split("\n")
        inp, p = Input(lines, BlockType.DATA), DataParser()
    else:
        lines = ("1 so " + text).split("\n")
        inp, p = Input(lines, BlockType.SURFACE), SurfaceParser()
    try:
        tree = p.parse(inp.tokenize(), inp)
    except ValueError:
        return None, "value"
    except (AttributeError, IndexError):
        return None, "crash"
    except ParsingError:
        return None, "reject"
    if tree is None:
        return None, "reject"
    return tree["data"], None


def node_kind(n):
    return KIND_OF[n._type.name]


def dump_parsed(ln):
    from montepy.input_parser import syntax_node as sn
    out = []
    for n in ln.nodes:
        if n is None:
            out.append(("none",))
        elif isinstance(n, sn.ShortcutNode):
            out.append(("s", node_kind(n), bool(n._shares_edge),
                        [None if x.value is None else Fraction(x.value) for x in n.nodes]))
        else:
            out.append(("v", None if n.value is None else Fraction(n.value)))
    return out


def parse_model_val(s):
    if s == "J":
        return None
    if s.startswith("L("):
        a, b, n, j = s[2:-1].split("~")
        return ("L", parse_q(a), parse_q(b), int(n), int(j))
    return parse_q(s)


def split_top(s, sep=","):
    """split on sep outside parentheses"""
    out, cur, d = [], "", 0
    for ch in s:
        if ch == "(":
            d += 1
        elif ch == ")":
            d -= 1
        if ch == sep and d == 0:
            out.append(cur)
            cur = ""
        else:
            cur += ch
    out.append(cur)
    return out


def parse_model_vals(s):
    if s == "-":
        return []
    if s == "bad":
        return None
    return [parse_model_val(x) for x in split_top(s)]


def parse_exp_answer(ans):
    """-> (err or None, nodes, values, specvalues)"""
    w = ans.split(" ")
    if w[0].startswith("err:"):
        return w[0][4:], None, None, parse_model_vals(w[1])
    nodes = []
    if w[1] != "-":
        for n in w[1].split(";"):
            f = n.split(":", 3)
            if f[0] == "v":
                nodes.append(("v", parse_q(f[1])))
            else:
                nodes.append(("s", f[1], f[2] == "1", parse_model_vals(f[3])))
    return None, nodes, parse_model_vals(w[2]), parse_model_vals(w[3])


def val_matches(model, real, exact):
    """model: Fraction | None | ('L', a, b, n, j); real: Fraction | None"""
    if model is None or real is None:
        return model is None and real is None
    if isinstance(model, tuple):
        _, a, b, n, j = model
        la, lb = math.log(float(a), 10), math.log(float(b), 10)
        m = 10 ** (la + (lb - la) / (n + 1) * j)
        return abs(m - float(real)) <= 1e-12 * max(abs(m), abs(float(real)))
    if exact:
        return model == real
    return abs(model - real) <= Fraction(1, 10 ** 13) * max(abs(model), abs(real))


def compare_reading(mnodes, rnodes):
    if len(mnodes) != len(rnodes):
        return "node count"
    prev_last = None          # the real value in front of the node (what a chained shortcut starts from)
    for m, r in zip(mnodes, rnodes):
        if m[0] != r[0]:
            return "node kind"
        if m[0] == "v":
            if m[1] != r[1]:
                return "value"
            prev_last = r[1]
        else:
            if m[1] != r[1] or m[2] != r[2] or len(m[3]) != len(r[3]):
                return "shortcut shape"
            for i, (a, b) in enumerate(zip(m[3], r[3])):
                # J: exact.  xM, nI, nILOG: binary64 arithmetic against exact rationals (rel 1e-13).
                # nR: the copies are exactly the real value they repeat (which may itself be the rounded result
                # of an xM or nI in front: '1e-5 10m r'), and that value agrees with the model's to rel 1e-13
                if not val_matches(a, b, m[1] == "J"):
                    return "shortcut value"
                if m[1] == "R":
                    ref = prev_last if m[2] else r[3][0]
                    if b != ref:
                        return "repeat is not an exact copy"
            if r[3]:
                prev_last = r[3][-1]
    return None


def spec_values(text):
    """the independent reading of a list text: list of Fraction | 'J' | junk"""
    try:
        return spec.expand_shortcuts(spec.tokens(text))
    except (TypeError, ValueError, ZeroDivisionError, OverflowError):
        return [("BAD", text)]          # a token no reader can make sense of


def spec_matches(sv, values, allow_trailing=True):
    """sv: output of spec_values; values: list of python numbers / None.  -> None or failure kind"""
    want = [None if v is None else Fraction(v) for v in values]
    got = []
    for x in sv:
        if x == "J":
            got.append(None)
        elif isinstance(x, Fraction):
            got.append(x)
        else:
            return "invalid-token"
    if allow_trailing:
        while want and want[-1] is None:
            want.pop()
        while got and got[-1] is None:
            got.pop()
    if len(got) != len(want):
        return "wrong-count"
    for a, b in zip(got, want):
        if (a is None) != (b is None):
            return "jump-mismatch"
        if a is not None and not spec.close(a, b):
            return "wrong-value"
    return None


# ---------------------------------------------------------------------------- real side: dumping a ListNode
class Ids:
    def __init__(self):
        self.leaf = {}
        self.sc = {}
        self.keep = []

    def lid(self, node):
        if id(node) not in self.leaf:
            self.leaf[id(node)] = len(self.leaf) + 1
            self.keep.append(node)
        return self.leaf[id(node)]

    def sid(self, s):
        if id(s) not in self.sc:
            self.sc[id(s)] = len(self.sc) + 1
            self.keep.append(s)
        return self.sc[id(s)]


def leaf_value(node):
    import enum
    v = node.value
    if v is None:
        return None
    if isinstance(v, enum.Enum):
        v = v.value
    if isinstance(v, str):
        raise TypeError("string leaf")
    f = Fraction(float(v)) if not isinstance(v, int) else Fraction(v)
    # the minus sign of a negatable node is stored apart from its value
    if getattr(node, "is_negative", None):
        f = -f
    return f


def leaf_texts(node):
    from montepy.input_parser import syntax_node as sn
    warnings.simplefilter("ignore")
    c = copy.deepcopy(node)
    t = c.format()
    # the text once the padding has been set to one blank (ListNode.format does that to a node without padding,
    # ShortcutNode._format_expanded to every value that only exists through the shortcut)
    c2 = copy.deepcopy(node)
    c2.padding = sn.PaddingNode(" ")
    t2 = c2.format()
    return t, t2


def dump_leaf(ids, node):
    t, t2 = leaf_texts(node)
    v = leaf_value(node)
    ty = "i" if node.type is int or (node.type not in (int, float)) else "f"
    neg = getattr(node, "is_negative", None)
    return ":".join([str(ids.lid(node)), "J" if v is None else fq(v), ty,
                     "1" if node.padding is not None else "0", "1" if node.never_pad else "0", hx(t), hx(t2),
                     "-" if neg is None else ("1" if neg else "0")])


def log_tables(s, new):
    from montepy.constants import rel_tol, abs_tol
    first, fwd, rev = [], [], []
    for j, n in enumerate(new):
        v = n.value

        def dec(edge, direction):
            if v is None:
                return "0"
            if edge is None:
                return "E"
            try:
                e = math.log(edge, 10)
                nv = 10 ** (e + direction * s._spacing)
            except (ValueError, OverflowError, TypeError):
                return "E"
            return "1" if math.isclose(nv, v, rel_tol=rel_tol, abs_tol=abs_tol) else "0"

        if v is None:
            first.append("0")
        else:
            try:
                first.append("1" if math.isclose(10 ** s._begin, v, rel_tol=rel_tol, abs_tol=abs_tol) else "0")
            except OverflowError:
                first.append("E")
        fwd.append(dec(new[j - 1].value, 1) if j > 0 else "0")
        rev.append(dec(new[j + 1].value, -1) if j + 1 < len(new) else "0")
    return "".join(first), "".join(fwd), "".join(rev)


def post_bits(s, leading=None):
    """the two numeric decisions of ShortcutNode.format the model takes as inputs, computed from the state the
    shortcut is formatted in: (LOG_INTERPOLATE: numeric part of _describes_its_values, MULTIPLY: the printed
    multiplier reproduces the product within rel_tol / 2)"""
    from montepy.constants import rel_tol, abs_tol
    from montepy.utilities import fortran_float
    k = node_kind(s)
    ld = mo = True
    try:
        nodes = list(s.nodes)
        if leading is not None and len(leading.nodes) > 0:
            nodes.insert(0, leading.nodes[-1])
        vals = [n.value for n in nodes]
        if k == "L" and len(vals) >= 3 and all(v is not None for v in vals) and vals[0] > 0 and vals[-1] > 0:
            b, e = math.log(vals[0], 10), math.log(vals[-1], 10)
            sp = (e - b) / (len(vals) - 1)
            ld = all(math.isclose(v, 10 ** (b + sp * i), rel_tol=rel_tol, abs_tol=abs_tol)
                     for i, v in enumerate(vals))
        if k == "M" and len(vals) == 2 and all(v is not None for v in vals):
            nn = copy.deepcopy(s._num_node)
            with warnings.catch_warnings():
                warnings.simplefilter("ignore")
                if vals[0] != 0:
                    nn.value = vals[1] / vals[0]
                t = nn.format().strip()
            mo = math.isclose(vals[0] * fortran_float(t), vals[1], rel_tol=rel_tol / 2, abs_tol=abs_tol)
    except Exception:
        pass
    return ("1" if ld else "0") + ":" + ("1" if mo else "0")


BOUNDARY = set()      # requests whose binary64 decision in _describes_its_values differs from the exact one


def float_boundary(s, leading=None):
    """nI over ends of very different magnitude (4 ... 1e-11): begin + spacing * i cancels in binary64 and
    _describes_its_values (rel_tol 1e-9) answers differently from exact arithmetic.  The model works over exact
    rationals: such a case is outside the correspondence (the oracle still judges the written text)."""
    if node_kind(s) != "I":
        return False
    try:
        nodes = list(s.nodes)
        if leading is not None and len(leading.nodes) > 0:
            nodes.insert(0, leading.nodes[-1])
        vals = [n.value for n in nodes]
        if len(vals) < 3 or any(v is None for v in vals):
            return False
        fv = [Fraction(v) for v in vals]
        sp = (fv[-1] - fv[0]) / (len(fv) - 1)
        tol = Fraction(1, 10 ** 9)
        exact = all(v == e or abs(v - e) <= tol * max(abs(v), abs(e))
                    for v, e in ((v, fv[0] + sp * i) for i, v in enumerate(fv)))
        return bool(s._describes_its_values(leading)) != exact
    except Exception:
        return False


def dump_sc(ids, s, new, bits="1:1"):
    k = node_kind(s)
    orig = s._original
    if len(orig) == 0:
        otok = ""
    elif k == "J":
        otok = orig[0]
    else:
        otok = orig[1]
    if not isinstance(otok, str):
        otok = ""
    nt = s._num_node._token
    og = s._num_node._og_value
    ep = s.end_padding.format() if s.end_padding else ""
    mp_ = orig[2].format() if len(orig) >= 3 and hasattr(orig[2], "format") else " "
    if k == "L":
        t1, t2, t3 = log_tables(s, new)
    else:
        t1 = t2 = t3 = "-"
    b = getattr(s, "_begin", 0.0)
    e = getattr(s, "_end", 0.0)
    sp = getattr(s, "_spacing", 0.0)
    if k == "L":
        b = e = sp = 0.0
    ids_ = ".".join(str(ids.lid(n)) for n in s.nodes) or "-"
    return ":".join([str(ids.sid(s)), k, ids_, "1" if s._shares_edge else "0", str(len(orig)), hx(otok),
                     "-" if nt is None else "x" + str(nt).encode().hex(),
                     str(og) if isinstance(og, int) else "-",
                     hx(ep), hx(mp_), fq(b), fq(e), fq(sp), "1" if s._full else "0", t1 or "-", t2 or "-", t3 or "-",
                     bits])


class UpdRequest:
    """the dump of a ListNode before update_with_new_values; the request text is complete once the real update
    has run (the two numeric format decisions of every shortcut are taken from the state it ends up in)"""

    def __init__(self, ids, ln, new):
        self.leaves = "|".join(dump_leaf(ids, n) for n in new) or "-"
        self.shorts = list(ln._shortcuts)
        self.pre = [dump_sc(ids, s, new, bits="@") for s in self.shorts]
        self.fresh = max([1000] + list(ids.sc.values())) + 1

    def text(self):
        scs = "|".join(p.replace("@", post_bits(s)) for p, s in zip(self.pre, self.shorts)) or "-"
        t = f"upd {scs} {self.leaves} {self.fresh}"
        if any(float_boundary(s) for s in self.shorts):
            BOUNDARY.add(t)
        return t


def upd_request(ids, ln, new):
    """request of a list that is not going to be updated for real (bits from the state as it is)"""
    u = UpdRequest(ids, ln, new)
    return u.text(), u.fresh


def fmt_request(ids, ln):
    """the list as it stands (no update): exercises ListNode.format incl. the _shares_edge rule"""
    from montepy.input_parser import syntax_node as sn
    pool = []
    order = []
    for n in ln.nodes:
        if isinstance(n, sn.ShortcutNode):
            pool += list(n.nodes)
            order.append("s%d" % ids.sid(n))
        else:
            pool.append(n)
            order.append("v%d" % ids.lid(n))
    leaves = "|".join(dump_leaf(ids, n) for n in pool) or "-"
    scd = []
    prev = None
    for s in ln.nodes:
        if isinstance(s, sn.ShortcutNode):
            lead = prev if (isinstance(prev, sn.ShortcutNode) and s._shares_edge) else None
            scd.append(dump_sc(ids, s, [], bits=post_bits(s, lead)))
        prev = s
    scs = "|".join(scd) or "-"
    t = f"fmt {scs} {leaves} {';'.join(order) or '-'}"
    prev = None
    for s in ln.nodes:
        if isinstance(s, sn.ShortcutNode):
            lead = prev if (isinstance(prev, sn.ShortcutNode) and s._shares_edge) else None
            if float_boundary(s, lead):
                BOUNDARY.add(t)
        prev = s
    return t


def real_structure(ids, ln, fresh):
    from montepy.input_parser import syntax_node as sn
    out = []
    for n in ln.nodes:
        if isinstance(n, sn.ShortcutNode):
            if id(n) not in ids.sc:
                ids.sc[id(n)] = fresh
                ids.keep.append(n)
                fresh += 1
            out.append("s%d:%s:%s" % (ids.sid(n), node_kind(n), ".".join(str(ids.lid(x)) for x in n.nodes) or "-"))
        else:
            out.append("v%d" % ids.lid(n))
    return ";".join(out) or "-"


ERRMAP = {"IndexError": "err:index", "ZeroDivisionError": "err:zerodiv", "TypeError": "err:type",
          "ValueError": "err:math"}


def snapshot(ids):
    """{leaf id: current python value} of every leaf seen so far"""
    byobj = {}
    for o in ids.keep:
        if id(o) in ids.leaf:
            byobj[ids.leaf[id(o)]] = o.value
    return byobj


def fill_multipliers(text, snap, numnodes):
    """replace the model's {M:sid:a:b} by what the real count node prints for value(b)/value(a)"""
    def sub(m):
        sid, a, b = int(m.group(1)), int(m.group(2)), int(m.group(3))
        nn = copy.deepcopy(numnodes[sid])
        with warnings.catch_warnings():
            warnings.simplefilter("ignore")
            if snap[a] != 0:
                nn.value = snap[b] / snap[a]
            return nn.format().strip()
    return re.sub(r"\{M:(\d+):(\d+):(\d+)\}", sub, text)


def model_vals_to_spec(mv):
    """model expansion -> the shape spec_values gives (Fraction | 'J')"""
    if mv is None:
        return None
    out = []
    for v in mv:
        if v is None:
            out.append("J")
        elif isinstance(v, tuple):
            _, a, b, n, j = v
            la, lb = math.log10(float(a)), math.log10(float(b))
            out.append(Fraction(10 ** (la + (lb - la) * j / (n + 1))))
        else:
            out.append(v)
    return out


class Observation:
    pass


def observe_update(ln, new, ids=None):
    """dump, run the real update + format; return an Observation (request, real outcome)"""
    from montepy.input_parser import syntax_node as sn
    ids = ids or Ids()
    ob = Observation()
    ob.values = []
    for n in new:
        ob.values.append(n.value)
    ureq = UpdRequest(ids, ln, new)
    fresh = ureq.fresh
    numnodes = {ids.sid(s): s._num_node for s in ln._shortcuts}
    ob.numnodes = {k: copy.deepcopy(v) for k, v in numnodes.items()}
    ob.ids = ids
    ob.snap = snapshot(ids)
    try:
        with warnings.catch_warnings():
            warnings.simplefilter("ignore")
            ln.update_with_new_values(new)
            ob.structure = real_structure(ids, ln, fresh)
            ob.text = ln.format()
        ob.error = None
    except (IndexError, ZeroDivisionError, TypeError, ValueError) as e:
        ob.error = ERRMAP[type(e).__name__]
        ob.structure = None
        ob.text = None
    ob.request = ureq.text()
    return ob


def compare_update(ob, ans):
    """-> None or a description of the disagreement between the model answer and the observation"""
    if ob.request in BOUNDARY:
        return None
    w = ans.split(" ")
    if w[0].startswith("err:") or (len(w) >= 3 and w[2].startswith("err:")):
        merr = w[0] if w[0].startswith("err:") else w[2]
        if ob.error != merr:
            return {"what": "error", "model": merr, "real": ob.error or "no error"}
        return None
    if w[0] != "ok":
        return {"what": "model answer", "model": ans[:200]}
    if ob.error:
        return {"what": "error", "model": "no error", "real": ob.error}
    if w[1] != ob.structure:
        return {"what": "structure", "model": w[1], "real": ob.structure}
    mtext = fill_multipliers(unhx(w[2]), ob.snap, ob.numnodes)
    if mtext != ob.text:
        return {"what": "text", "model": mtext, "real": ob.text}
    # the model's reading of its own pieces against the independent reading of the text
    mv = model_vals_to_spec(parse_model_vals(w[3]))
    sv = spec_values(ob.text)
    for m in re.finditer(r"\{M:\d+:\d+:\d+\}", unhx(w[2])):
        if re.search(r"\s", fill_multipliers(m.group(0), ob.snap, ob.numnodes)):
            # the multiplier text is produced by ValueNode.format (C05's domain, an input of this model) and
            # carries blanks here: the piece-level reading does not apply (the oracle judges the real text)
            return None
    sv_ok = all(x == "J" or isinstance(x, Fraction) for x in sv)
    if mv is None:
        if sv_ok:
            # the pieces fuse but the fused text happens to be a valid token: the piece-level reading is
            # deliberately pessimistic; not a disagreement about the code
            return None
        return None
    has_m = "{M:" in unhx(w[2])

    def same(a, b):
        if len(a) != len(b):
            return False
        for x, y in zip(a, b):
            if isinstance(x, Fraction) and isinstance(y, Fraction):
                # a multiplier is printed by ValueNode.format with the precision of its old token (C05's
                # domain): values behind an xM are compared to 1e-5 only
                if not (spec.close(x, y) or (has_m and abs(x - y) <= Fraction(1, 10 ** 5) * max(abs(x), abs(y)))):
                    return False
            elif x != y:
                return False
        return True
    if not sv_ok or not same(mv, sv):
        return {"what": "piece reading vs spec.py", "model": [str(x) for x in mv], "spec": [str(x) for x in sv],
                "text": ob.text}
    return None


# ---------------------------------------------------------------------------- bare ListNode cases
def new_leaf(valtext, pad):
    from montepy.input_parser import syntax_node as sn
    n = sn.ValueNode(valtext, float)
    if pad:
        n.padding = sn.PaddingNode(" ")
    return n


EDIT_VALUES = ["1", "2", "3", "4", "5", "7", "9", "10", "2.5", "6.5", "0.5", "100", "0"]
# values next to the tolerance of math.isclose(rel_tol=1e-9): inside it (consumed by a repeat of 1 / 2 / 5 / 10),
# just outside it, and far outside it in float terms but close for a loose comparison
EDIT_NEAR = ["1.0000000005", "1.00000002", "2.0000000005", "2.00001", "5.000000000001", "5.0000001", "10.000000001",
             "10.0001", "2.5000000001", "0.99999999"]


def printable(node, valtext):
    """does the leaf print this value exactly with its own formatter (number formatting is C05's business)"""
    c = copy.deepcopy(node)
    c.value = float(valtext)
    t = c.format().strip()
    r = spec.read_number(t)
    return r is not None and r == Fraction(float(valtext))


def gen_edits(rng, nvals, heavy):
    """one round of edits over a list of nvals values"""
    eds = []
    n = nvals
    for _ in range(rng.choice([0, 1, 1, 1, 2, 3] if not heavy else [1, 2, 3, 5])):
        r = rng.random()
        if n == 0 or r < 0.2:
            eds.append(["ins", rng.randint(0, n), rng.choice(EDIT_NEAR if rng.random() < 0.3 else EDIT_VALUES),
                        rng.random() < 0.7])
            n += 1
        elif r < 0.45:
            eds.append(["del", rng.randrange(n)])
            n -= 1
        elif r < 0.8:
            eds.append(["set", rng.randrange(n), rng.choice(EDIT_VALUES)])
        elif r < 0.88:
            eds.append(["none", rng.randrange(n)])
        elif r < 0.94 and n >= 2:
            eds.append(["move", rng.randrange(n), rng.randrange(n)])
        else:
            eds.append(["dup", rng.randrange(n), rng.randint(0, n)])
            n += 1
    return eds, n


def apply_edits(new, eds):
    """-> False when an edit does not apply (after shrinking)"""
    for e in eds:
        op = e[0]
        if op == "ins":
            if e[1] > len(new):
                return False
            new.insert(e[1], new_leaf(e[2], e[3]))
        elif op == "del":
            if e[1] >= len(new):
                return False
            del new[e[1]]
        elif op == "set":
            if e[1] >= len(new):
                return False
            if not printable(new[e[1]], e[2]):
                return False
            new[e[1]].value = float(e[2])
        elif op == "none":
            if e[1] >= len(new):
                return False
            new[e[1]].value = None
        elif op == "restore":
            # put back the value the node was read (or made) with
            if e[1] >= len(new):
                return False
            new[e[1]].value = new[e[1]]._og_value
        elif op == "restoreall":
            for n in new:
                if n.value is None or n._og_value is not None:
                    n.value = n._og_value
        elif op == "move":
            if e[1] >= len(new) or e[2] >= len(new):
                return False
            x = new.pop(e[1])
            new.insert(e[2], x)
        elif op == "dup":
            if e[1] >= len(new) or e[2] > len(new):
                return False
            new.insert(e[2], copy.deepcopy(new[e[1]]))
    return True


def gen_bare_case(rng, wide=False):
    which = rng.choice(["data", "surf", "surf"])
    toks = gen_tokens(rng, allow_m=(which == "surf"), wide=wide, errors=0.0)
    seps = seps_for(rng, len(toks))
    text = text_of(toks, seps)
    ln, err = real_parse(text, which)
    rounds = []
    if ln is not None and all(n is not None for n in ln.nodes):
        n = len(list(ln))
        if n and rng.random() < 0.22:
            # take values away (or change them), write, put the original values back (all, or all but one)
            ps = sorted(rng.sample(range(n), min(n, rng.choice([1, 1, 2, 3]))))
            first = [["none", p] if rng.random() < 0.6 else ["set", p, rng.choice(EDIT_VALUES)] for p in ps]
            back = [["restore", p] for p in (ps if rng.random() < 0.6 else ps[:-1])]
            rounds = [first] + ([[]] if rng.random() < 0.3 else []) + [back if rng.random() < 0.8 else [["restoreall"]]]
        else:
            for _ in range(rng.choice([1, 1, 1, 2, 3])):
                eds, n = gen_edits(rng, n, heavy=rng.random() < 0.15)
                rounds.append(eds)
    return {"which": which, "toks": toks, "seps": seps, "rounds": rounds}


def run_bare_case(case):
    """Drive the real side of one case.
    -> dict(pending=[(request, compare)], corr=[...], fail=None|{kind,...}, ...); the model answers are
    compared afterwards (finish_case) so that all requests of a run go to the model in one batch."""
    text = text_of(case["toks"], case.get("seps"))
    res = {"corr": [], "fail": None, "rounds_done": 0, "skipped": None, "updates": 0, "pending": [],
           "nvals": 0, "kinds": set(), "recompressed": 0}
    ln, err = real_parse(text, case["which"])
    if ln is None or any(n is None for n in ln.nodes):
        res["skipped"] = err or "none-node"
        return res
    from montepy.input_parser import syntax_node as sn
    res["kinds"] = {node_kind(n) for n in ln.nodes if isinstance(n, sn.ShortcutNode)}
    ids = Ids()
    vals0 = [n.value for n in ln]
    res["nvals"] = len(vals0)
    # the unedited list, formatted as it stands
    try:
        req0 = fmt_request(ids, ln)
        numnodes = {ids.sid(s): copy.deepcopy(s._num_node) for s in ln._shortcuts}
        t0 = copy.deepcopy(ln).format()
        snap0 = snapshot(ids)

        def cmp0(ans, t0=t0, numnodes=numnodes, snap0=snap0, req0=req0):
            if req0 in BOUNDARY:
                return None
            w = ans.split(" ")
            if w[0] != "ok" or len(w) < 4:
                return {"round": -1, "what": "fmt answer", "model": ans[:200], "real": t0}
            mt = fill_multipliers(unhx(w[2]), snap0, numnodes)
            if mt != t0:
                return {"round": -1, "what": "unedited text", "model": mt, "real": t0}
            return None
        res["pending"].append((req0, cmp0, None))
    except ZeroDivisionError:
        res["fail"] = {"kind": "exception:zerodiv", "round": -1, "text": None, "values": [str(v) for v in vals0]}
        return res
    k = spec_matches(spec_values(t0), vals0, allow_trailing=False)
    if k:
        res["fail"] = {"kind": k, "round": -1, "text": t0, "values": [str(v) for v in vals0]}
        return res
    for ri, eds in enumerate(case["rounds"]):
        new = list(ln)
        if not apply_edits(new, eds):
            res["skipped"] = "edit does not apply"
            return res
        if any(isinstance(n.value, str) for n in new):
            res["skipped"] = "string leaf"
            return res
        ob = observe_update(ln, new, ids)
        res["updates"] += 1

        def cmpu(ans, ob=ob, ri=ri):
            d = compare_update(ob, ans)
            if d:
                d["round"] = ri
            return d
        res["pending"].append((ob.request, cmpu, ob))
        if ob.error:
            res["fail"] = {"kind": "exception:" + ob.error[4:], "round": ri, "text": None,
                           "values": [str(v) for v in ob.values]}
            return res
        res["recompressed"] += sum(1 for n in ln.nodes if isinstance(n, sn.ShortcutNode))
        k = spec_matches(spec_values(ob.text), ob.values)
        if k:
            res["fail"] = {"kind": k, "round": ri, "text": ob.text, "values": [str(v) for v in ob.values]}
            return res
        res["rounds_done"] += 1
    return res


def finish_cases(results):
    """send all pending requests to the model, fill res['corr']; -> (requests, answers)"""
    reqs = []
    for r in results:
        for q, _, _ in r["pending"]:
            reqs.append(q)
    answers = vlib.model_ask("Shortcut", reqs)
    i = 0
    for r in results:
        r["answers"] = []
        for q, cmp_, _ in r["pending"]:
            d = cmp_(answers[i])
            r["answers"].append(answers[i])
            i += 1
            if d:
                r["corr"].append(d)
    return reqs, answers


def bare_fails(case):
    try:
        r = run_bare_case(case)
    except Exception:
        return None
    return r["fail"]


def shrink_bare(case, kind):
    """greedy: fewer rounds, fewer edits, fewer tokens — keeping a failure of the same kind"""
    def bad(c):
        f = bare_fails(c)
        return f is not None and f["kind"] == kind
    cur = copy.deepcopy(case)
    cur["seps"] = None
    if not bad(cur):
        cur = copy.deepcopy(case)
    changed = True
    while changed:
        changed = False
        # drop trailing rounds / single rounds
        for i in range(len(cur["rounds"]) - 1, -1, -1):
            c = copy.deepcopy(cur)
            del c["rounds"][i]
            if bad(c):
                cur, changed = c, True
        for ri in range(len(cur["rounds"])):
            for ei in range(len(cur["rounds"][ri]) - 1, -1, -1):
                c = copy.deepcopy(cur)
                del c["rounds"][ri][ei]
                if bad(c):
                    cur, changed = c, True
        # drop tokens (one at a time, or a shortcut with its end number)
        i = len(cur["toks"]) - 1
        while i >= 0:
            for width in (1, 2, 3):
                if i + width > len(cur["toks"]):
                    continue
                c = copy.deepcopy(cur)
                del c["toks"][i:i + width]
                if c.get("seps"):
                    c["seps"] = None
                if c["toks"] and bad(c):
                    cur, changed = c, True
                    break
            i -= 1
        # smaller positions
        for ri in range(len(cur["rounds"])):
            for ei, e in enumerate(cur["rounds"][ri]):
                for pi in (1, 2):
                    if pi < len(e) and isinstance(e[pi], int) and not isinstance(e[pi], bool) and e[pi] > 0 and \
                            (e[0] != "set" or pi == 1):
                        c = copy.deepcopy(cur)
                        c["rounds"][ri][ei][pi] -= 1
                        if bad(c):
                            cur, changed = c, True
    return cur


# ---------------------------------------------------------------------------- diagnostics of the model (codes)
def parse_upd_answer(ans):
    """-> dict(error, structure, text, values, codes:set)"""
    w = ans.split(" ")
    out = {"error": None, "structure": None, "text": None, "codes": set(), "raw": ans}
    if w[0].startswith("err:"):
        out["error"] = w[0]
        return out
    if w[0] != "ok":
        out["error"] = "model:" + ans[:60]
        return out
    out["structure"] = w[1]
    if w[2].startswith("err:"):
        out["error"] = w[2]
    else:
        out["text"] = unhx(w[2])
    if len(w) >= 5 and w[4] != "-":
        for d in w[4].split(";"):
            if d != "-":
                out["codes"] |= set(d)
    return out


# ---------------------------------------------------------------------------- carriers: whole problems
CARRIERS = ["vol", "u", "lat", "fill", "imp"]
CARD_NAME = {"vol": "vol", "u": "u", "lat": "lat", "fill": "fill", "imp": "imp:n"}
ATTR = {"vol": "_volume", "u": "_universe", "lat": "_lattice", "fill": "_fill", "imp": "_importance"}


def gen_card_tokens(rng, carrier, n, wide=False):
    """tokens of a data-block card that expands to exactly n entries"""
    if carrier == "vol":
        nums, jumps, interp = ["1", "2", "2.5", "5", "10", "0.25", "7", "1e3", "12"], True, True
        if rng.random() < 0.25:
            nums = nums + ["2e-13", "5e-13", "1e-11", "1e-5", "2e-5", "4.5e-7"]
    elif carrier == "imp":
        nums, jumps, interp = ["1", "2", "4", "0.5", "8", "0"], False, True
    elif carrier == "u":
        nums, jumps, interp = ["1", "2", "3", "0", "-2", "-3"], True, False
    elif carrier == "lat":
        nums, jumps, interp = ["1", "2"], True, False
    else:
        nums, jumps, interp = ["1", "2", "3"], True, False
    toks, left = [], n
    while left > 0:
        r = rng.random()
        if jumps and r < 0.25:
            k = rng.randint(1, min(left, 12 if wide else 5))
            toks.append({"k": "j", "t": (str(k) if (k > 1 or rng.random() < 0.3) else "") + cased(rng, "j")})
            left -= k
        elif r < 0.55 and left >= 2:
            k = rng.randint(1, min(left - 1, 12 if wide else 5))
            toks.append({"k": "n", "t": rng.choice(nums)})
            toks.append({"k": "r", "t": (str(k) if (k > 1 or rng.random() < 0.3) else "") + cased(rng, "r")})
            left -= k + 1
        elif interp and r < 0.75 and left >= 3:
            k = rng.randint(1, min(left - 2, 11 if wide else 4))
            a = rng.choice([x for x in nums if x != "0"])
            b = rng.choice([x for x in nums if x != "0"])
            toks.append({"k": "n", "t": a})
            toks.append({"k": "i", "t": (str(k) if (k > 1 or rng.random() < 0.3) else "") + cased(rng, "i")})
            toks.append({"k": "n", "t": b})
            left -= k + 2
        else:
            toks.append({"k": "n", "t": rng.choice(nums)})
            left -= 1
    # sometimes chain a repeat onto a preceding shortcut instead of a plain value
    return toks


def gen_carrier_case(rng, wide=False):
    n = rng.randint(3, 14 if not wide else 30)
    cards = {}
    for c in rng.sample(CARRIERS, rng.randint(1, 3)):
        cards[c] = gen_card_tokens(rng, c, n, wide)
    if "fill" in cards and "u" not in cards:
        cards["u"] = gen_card_tokens(rng, "u", n, wide)
    if "fill" in cards:
        have = {t["t"].lstrip("-") for t in cards["u"] if t["k"] == "n" and t["t"] != "0"}
        if not have:
            del cards["fill"]
        else:
            for t in cards["fill"]:
                if t["k"] == "n" and t["t"] not in have:
                    t["t"] = sorted(have)[0]
    if "lat" in cards and "fill" not in cards:
        del cards["lat"]              # a lattice cell needs a fill; keep the problem simple
    ops = []
    m = n
    for _ in range(rng.choice([0, 1, 1, 2, 3])):
        r = rng.random()
        if r < 0.4 and cards:
            c = rng.choice(sorted(cards))
            ops.append(["set", c, rng.randrange(m), rng.choice(["1", "2", "3", "5", "2.5"])])
        elif r < 0.65 and m > 2:
            ops.append(["remove", rng.randrange(m)])
            m -= 1
        elif r < 0.85:
            ops.append(["copy", rng.randrange(m)])
            m += 1
        else:
            ops.append(["reorder", rng.randrange(m)])
    case = {"n": n, "cards": cards, "ops": ops, "writes": rng.choice([1, 1, 2])}
    hist = [c for c in ("vol", "u") if c in cards]
    if hist and rng.random() < 0.3:
        # a history: entries become jumps, the file is written, the original values come back, it is written again
        c = rng.choice(hist)
        want = spec.expand_shortcuts(spec.tokens(text_of(cards[c])))
        pos = [i for i, x in enumerate(want) if isinstance(x, Fraction) and x > 0]
        if pos:
            ps = sorted(rng.sample(pos, min(len(pos), rng.choice([1, 1, 2]))))
            case["ops"] = [["unset", c, i] for i in ps]
            case["ops2"] = [["restore", c, i] for i in (ps if rng.random() < 0.7 else ps[:1])]
            case["writes"] = 1
    return case


def carrier_text(case):
    n = case["n"]
    cells = [f"{i} 0 -{i}" for i in range(1, n + 1)]
    surfs = [f"{i} so {i}" for i in range(1, n + 1)]
    data = ["mode n"]
    for c in CARRIERS:
        if c in case["cards"]:
            data.append(CARD_NAME[c] + " " + text_of(case["cards"][c]))
    return "title\n" + "\n".join(cells) + "\n\n" + "\n".join(surfs) + "\n\n" + "\n".join(data) + "\n\n"


def api_values(pr, carrier):
    out = []
    for cell in pr.cells:
        if carrier == "vol":
            out.append(cell.volume)
        elif carrier == "imp":
            out.append(cell.importance.neutron)
        elif carrier == "u":
            num = cell.universe.number if cell.universe is not None else 0
            if num and getattr(cell, "not_truncated", False):
                num = -num            # 'u -3': the cell is not truncated by the boundary of universe 3
            out.append(None if num == 0 else num)
        elif carrier == "lat":
            out.append(None if cell.lattice is None else cell.lattice.value)
        elif carrier == "fill":
            out.append(None if cell.fill.universe is None else cell.fill.universe.number)
    return out


def normalise_default(carrier, vals):
    """u 0 and a jump mean the same (the real world universe)"""
    if carrier == "u":
        return [None if (v is None or v == 0) else v for v in vals]
    return vals


def find_card(out, name):
    sp = spec.split_file(out)
    if len(sp["blocks"]) < 3:
        return None
    for card in sp["blocks"][2]:
        toks = spec.tokens(card.text)
        if toks and toks[0] == name.upper():
            return toks[1:]
    return None


def card_matches(carrier, toks, values):
    """-> None or failure kind: the written card's tokens against the current per-cell values"""
    try:
        sv = spec.expand_shortcuts(toks)
    except (TypeError, ValueError, ZeroDivisionError, OverflowError):
        return "invalid-token"
    if carrier == "vol" and sv and sv[0] == "NO":
        sv = sv[1:]
    if carrier == "u":
        sv = ["J" if (isinstance(x, Fraction) and x == 0) else x for x in sv]
    # entries left off at the end are defaults
    n = len(values)
    if len(sv) < n:
        sv = sv + ["J"] * (n - len(sv))
    return spec_matches(sv, normalise_default(carrier, values), allow_trailing=True)


def apply_ops(pr, ops, orig=None):
    import montepy
    for op in ops:
        cells = list(pr.cells)
        if op[0] == "unset":
            # the entry becomes a jump
            _, c, i = op
            if i >= len(cells):
                return False
            if c == "vol":
                del cells[i].volume
            elif c == "u":
                cells[i].universe = [u for u in pr.universes if u.number == 0][0]
            else:
                return False
        elif op[0] == "restore":
            # the value the cell had when the file was read
            _, c, i = op
            if i >= len(cells) or orig is None or orig[c][i] is None:
                return False
            if c == "vol":
                cells[i].volume = orig[c][i]
            elif c == "u":
                if orig[c][i] < 0:
                    return False
                cells[i].universe = [u for u in pr.universes if u.number == orig[c][i]][0]
            else:
                return False
        elif op[0] == "set":
            _, c, i, v = op
            if i >= len(cells):
                return False
            cell = cells[i]
            if c == "vol":
                cell.volume = float(v)
            elif c == "imp":
                cell.importance.neutron = float(v)
            elif c == "u":
                k = int(float(v))
                us = [u for u in pr.universes if u.number == k]
                if not us:
                    return False
                cell.universe = us[0]
            elif c == "fill":
                k = int(float(v))
                us = [u for u in pr.universes if u.number == k]
                if not us:
                    return False
                cell.fill.universe = us[0]
            elif c == "lat":
                from montepy.data_inputs.lattice import Lattice
                cell.lattice = Lattice(1 + int(float(v)) % 2)
        elif op[0] == "remove":
            if op[1] >= len(cells) or len(cells) <= 1:
                return False
            pr.cells.remove(cells[op[1]])
        elif op[0] == "copy":
            if op[1] >= len(cells):
                return False
            c = copy.deepcopy(cells[op[1]])
            c.number = max(x.number for x in cells) + 1
            pr.cells.append(c)
        elif op[0] == "reorder":
            if op[1] >= len(cells):
                return False
            x = cells[op[1]]
            pr.cells.remove(x)
            pr.cells.append(x)
    return True


class Patch:
    """observe every ListNode.update_with_new_values of a write (in situ correspondence)"""

    def __init__(self, pr):
        from montepy.input_parser import syntax_node as sn
        self.sn = sn
        self.orig = sn.ListNode.update_with_new_values
        self.names = {}
        for c in CARRIERS:
            obj = getattr(pr.cells, ATTR[c], None)
            try:
                if c == "imp":
                    for part, tree in obj._real_tree.items():
                        self.names[id(tree["data"])] = c
                else:
                    self.names[id(obj._tree["data"])] = c
            except Exception:
                pass
        self.obs = []

    def __enter__(self):
        patch = self

        def patched(ln, new_vals):
            if type(ln) is not patch.sn.ListNode or not new_vals or \
                    any(isinstance(getattr(n, "value", None), str) for n in new_vals):
                return patch.orig(ln, new_vals)
            try:
                ids = Ids()
                ureq = UpdRequest(ids, ln, list(new_vals))
                fresh = ureq.fresh
            except Exception:
                return patch.orig(ln, new_vals)
            ob = Observation()
            ob.ids = ids
            ob.values = [n.value for n in new_vals]
            ob.numnodes = {ids.sid(s): copy.deepcopy(s._num_node) for s in ln._shortcuts}
            ob.snap = snapshot(ids)
            ob.carrier = patch.names.get(id(ln))
            try:
                patch.orig(ln, new_vals)
                ob.structure = real_structure(ids, ln, fresh)
                ob.text = copy.deepcopy(ln).format()
                ob.error = None
            except (IndexError, ZeroDivisionError, TypeError, ValueError) as e:
                ob.error = ERRMAP[type(e).__name__]
                ob.structure = ob.text = None
                ob.request = ureq.text()
                patch.obs.append(ob)
                raise
            ob.request = ureq.text()
            patch.obs.append(ob)
        self.sn.ListNode.update_with_new_values = patched
        return self

    def __exit__(self, *a):
        self.sn.ListNode.update_with_new_values = self.orig


def run_carrier_case(case):
    """-> dict(pending=[...], corr=[], fail=None|{...}, stats)"""
    res = {"corr": [], "fail": None, "pending": [], "skipped": None, "obs": 0, "cards": sorted(case["cards"]),
           "fail_obs": None}
    text = carrier_text(case)
    try:
        pr = mp.read_problem(text)
    except Exception as e:
        res["fail"] = {"kind": "exception:" + type(e).__name__, "stage": "read", "carrier": None}
        return res
    # reading, through the real carriers
    for c in case["cards"]:
        want = spec.expand_shortcuts(spec.tokens(text_of(case["cards"][c])))
        vals = api_values(pr, c)
        sv = want
        if c == "u":
            sv = ["J" if (isinstance(x, Fraction) and x == 0) else x for x in sv]
        k = spec_matches(sv, normalise_default(c, vals), allow_trailing=True)
        if k:
            res["fail"] = {"kind": "misread:" + k, "stage": "read", "carrier": c, "values": [str(v) for v in vals]}
            return res
    orig = {c: api_values(pr, c) for c in case["cards"]}
    phases = [case["ops"]] + ([case["ops2"]] if case.get("ops2") else [])
    with warnings.catch_warnings():
      warnings.simplefilter("ignore")
      for phase, ops in enumerate(phases):
        try:
            if not apply_ops(pr, ops, orig):
                res["skipped"] = "op does not apply"
                return res
        except Exception as e:
            res["skipped"] = "op raised " + type(e).__name__
            return res
        for wi in range(case.get("writes", 1)):
            try:
                prc = copy.deepcopy(pr)
                with Patch(prc) as patch:
                    try:
                        mp.write_problem(prc, "obs.i")
                    except Exception:
                        pass
                for ob in patch.obs:
                    res["obs"] += 1

                    def cmpu(ans, ob=ob):
                        d = compare_update(ob, ans)
                        if d:
                            d["carrier"] = ob.carrier
                        return d
                    res["pending"].append((ob.request, cmpu, ob))
            except Exception as e:
                res["skipped"] = "observation failed " + type(e).__name__
            try:
                out = mp.write_problem(pr, "real.i")
            except Exception as e:
                res["fail"] = {"kind": "exception:" + type(e).__name__, "stage": "write", "carrier": None, "write": wi}
                return res
            for c in case["cards"]:
                toks = find_card(out, CARD_NAME[c])
                vals = api_values(pr, c)
                if toks is None:
                    if all(v is None for v in normalise_default(c, vals)):
                        continue
                    # the card may legitimately be printed in the cell block instead: not this property
                    continue
                k = card_matches(c, toks, vals)
                if k:
                    res["fail"] = {"kind": k, "stage": "write", "carrier": c, "write": wi, "phase": phase,
                                   "text": " ".join(toks), "values": [str(v) for v in vals]}
                    return res
    return res


# ---------------------------------------------------------------------------- reading through real cards
def gen_read_case(rng):
    """a card whose entries use shortcuts, read through the real card classes / parsers"""
    r = rng.random()
    q = rng.random()
    if q < 0.03:
        # three shortcuts in a row
        toks = [{"k": "n", "t": rng.choice(["1", "2.5", "7"])}]
        for _ in range(3):
            toks.append({"k": "r", "t": rng.choice(["r", "2r", "R", "3R"])})
        if rng.random() < 0.5:
            toks.append({"k": "n", "t": "4"})
        return {"card": rng.choice(["e", "surf"]), "toks": toks}
    if q < 0.06:
        # an interpolation that ends at zero
        toks = [{"k": "n", "t": rng.choice(["1", "4", "-2"])}, {"k": "i", "t": rng.choice(["i", "3i", "1I"])},
                {"k": "n", "t": rng.choice(["0", "0.0", "00"])}]
        if rng.random() < 0.5:
            toks.append({"k": "n", "t": "5"})
        return {"card": rng.choice(["e", "surf"]), "toks": toks}
    if q < 0.09:
        # a multiplier that is not a whole number
        toks = [{"k": "n", "t": rng.choice(["2", "4", "10"])}, {"k": "m", "t": rng.choice(["0.5m", "2.5M", "1e1m"])},
                {"k": "n", "t": "3"}]
        return {"card": "surf", "toks": toks}
    if q < 0.2:
        toks = gen_tokens(rng, allow_m=True, errors=0.0, max_groups=4)
        return {"card": "surf", "toks": toks}
    if r < 0.35:
        # TR card: 3 displacement + 9 rotation entries
        vals = [rng.choice(["0", "1", "2", "0.5"]) for _ in range(3)] + ["1", "0", "0", "0", "1", "0", "0", "0", "1"]
        toks = []
        i = 0
        while i < len(vals):
            run = 1
            while i + run < len(vals) and vals[i + run] == vals[i]:
                run += 1
            toks.append({"k": "n", "t": vals[i]})
            if run > 1 and rng.random() < 0.7:
                toks.append({"k": "r", "t": (str(run - 1) if run > 2 or rng.random() < 0.5 else "") + "r"})
                i += run
            else:
                i += 1
        return {"card": "tr", "toks": toks}
    if r < 0.7:
        n = rng.randint(3, 8)
        toks = gen_card_tokens(rng, "vol", n)
        # put a multiply in
        pos = [i for i, t in enumerate(toks) if t["k"] == "n"]
        if pos and rng.random() < 0.6 and n >= 2:
            i = rng.choice(pos)
            if i + 1 < len(toks) and toks[i + 1]["k"] == "n":
                toks[i + 1] = {"k": "m", "t": rng.choice(["2", "3", "10"]) + cased(rng, "m")}
        return {"card": "vol", "toks": toks, "n": n}
    toks = gen_tokens(rng, allow_m=rng.random() < 0.4, errors=0.0, max_groups=4)
    return {"card": "e", "toks": toks}


def run_read_case(case):
    """-> None or failure dict"""
    from montepy.input_parser.mcnp_input import Input
    from montepy.input_parser.block_type import BlockType
    from montepy.data_inputs.data_parser import parse_data
    text = text_of(case["toks"])
    try:
        want = spec.expand_shortcuts(spec.tokens(text))
    except (TypeError, ValueError):
        return None
    if not all(x == "J" or isinstance(x, Fraction) for x in want):
        return None            # not a list the MCNP manual gives a meaning to
    with warnings.catch_warnings():
        warnings.simplefilter("ignore")
        try:
            if case["card"] == "tr":
                t = parse_data(Input(["tr5 " + text], BlockType.DATA))
                vals = [float(x) for x in t.displacement_vector] + [float(x) for x in t.rotation_matrix]
            elif case["card"] == "vol":
                n = len(want)
                cells = [f"{i} 0 -{i}" for i in range(1, n + 1)]
                surfs = [f"{i} so {i}" for i in range(1, n + 1)]
                pr = mp.read_problem("title\n" + "\n".join(cells) + "\n\n" + "\n".join(surfs) + "\n\nvol " + text + "\n\n")
                vals = [c.volume for c in pr.cells]
            elif case["card"] == "surf":
                from montepy.input_parser.surface_parser import SurfaceParser
                inp = Input(("1 so " + text).split("\n"), BlockType.SURFACE)
                tree = SurfaceParser().parse(inp.tokenize(), inp)
                if tree is None:
                    return {"kind": "rejected", "detail": "SurfaceParser"}
                vals = [n.value for n in tree["data"]]
            else:
                obj = parse_data(Input(["e14 " + text], BlockType.DATA))
                vals = [n.value for n in obj._tree["data"]]
                obj.format_for_mcnp_input((6, 2, 0))
        except Exception as e:
            from montepy.errors import ParsingError, MalformedInputError
            if isinstance(e, (ParsingError, MalformedInputError)):
                # the list is one the manual gives a meaning to ([want] above): refusing it is not reading it
                return {"kind": "rejected", "detail": type(e).__name__ + ": " + str(e)[:80]}
            return {"kind": "exception:" + type(e).__name__, "detail": str(e)[:120]}
    if any(isinstance(v, str) for v in vals):
        return {"kind": "misread:word", "values": [str(v) for v in vals], "want": [str(x) for x in want]}
    k = spec_matches(want, vals, allow_trailing=True)
    if k:
        return {"kind": "misread:" + k, "values": [str(v) for v in vals], "want": [str(x) for x in want]}
    return None


# ---------------------------------------------------------------------------- analysis of a failing case
ANALYSIS = {}


def case_key(c):
    return json.dumps(c, sort_keys=True, default=str)


def expanded_tokens(toks, keep_trailing_jumps=True):
    """the same list with every shortcut written out (jumps as single j's)"""
    text = text_of(toks)
    want = spec.expand_shortcuts(spec.tokens(text))
    out = []
    # plain numbers keep their spelling; generated values are written with repr
    plain = [t for t in toks]
    vals = []
    for x in want:
        if x == "J":
            vals.append(None)
        elif isinstance(x, Fraction):
            vals.append(x)
        else:
            return None
    for v in vals:
        if v is None:
            out.append({"k": "j", "t": "j"})
        else:
            f = float(v)
            t = repr(int(f)) if f == int(f) and abs(f) < 1e15 else repr(f)
            out.append({"k": "n", "t": t})
    if not keep_trailing_jumps:
        while out and out[-1]["k"] == "j":
            out.pop()
    return out


def multiplier_precision_code(parsed, ob):
    """'p' when a multiply of the result prints a multiplier that does not reproduce its second value"""
    if not parsed["structure"] or parsed["structure"] == "-":
        return set()
    for n in parsed["structure"].split(";"):
        f = n.split(":")
        if len(f) == 3 and f[1] == "M" and f[2].count(".") == 1:
            a, b = (int(x) for x in f[2].split("."))
            sid = int(f[0][1:])
            try:
                t = fill_multipliers("{M:%d:%d:%d}" % (sid, a, b), ob.snap, ob.numnodes)
                x = spec.read_number(t.strip().upper())
                if x is None or not spec.close(Fraction(ob.snap[a]) * x, Fraction(ob.snap[b])):
                    return {"p"}
            except Exception:
                return {"p"}
    return set()


def codes_of_failure(fail, pending, answers, obs=None):
    """the model's diagnosis of the formatted list of the failing round"""
    if fail["kind"] == "exception:zerodiv":
        return {"z"}
    if fail["kind"] == "exception:index":
        return {"v"}
    idx = fail["round"] + 1
    if idx >= len(answers):
        return set()
    parsed = parse_upd_answer(answers[idx])
    codes = set(parsed["codes"])
    if obs is not None and idx - 1 >= 0 and idx - 1 < len(obs):
        codes |= multiplier_precision_code(parsed, obs[idx - 1])
    return codes


def analyse_bare(case, res=None, answers=None):
    """-> {'kind', 'codes', 'cf'}: failure kind, model diagnosis codes of the failing round, and whether the
    same edits on the list with every shortcut written out pass (counterfactual)"""
    key = case_key(case)
    if key in ANALYSIS:
        return ANALYSIS[key]
    if res is None:
        res = run_bare_case(case)
    out = {"kind": None, "codes": [], "cf": None, "unedited": None}
    if res["fail"]:
        if answers is None:
            answers = vlib.model_ask("Shortcut", [q for q, _, _ in res["pending"]])
        obl = [ob for _, _, ob in res["pending"][1:]]
        out["kind"] = res["fail"]["kind"]
        out["codes"] = sorted(codes_of_failure(res["fail"], res["pending"], answers, obl))
        out["unedited"] = res["fail"]["round"] == -1
        ex = expanded_tokens(case["toks"])
        if ex is not None:
            if ex and ex[-1]["k"] == "j":
                ex = ex + [{"k": "n", "t": "77"}]
            elif "e" in out["codes"]:
                ex = ex + [{"k": "n", "t": "77"}]
            cfc = {"which": case["which"], "toks": ex, "seps": None, "rounds": case["rounds"]}
            try:
                r2 = run_bare_case(cfc)
                out["cf"] = None if r2["skipped"] else (r2["fail"] is None)
            except Exception:
                out["cf"] = None
    ANALYSIS[key] = out
    return out


def analyse_carrier(case, res=None, answers=None):
    key = case_key(case)
    if key in ANALYSIS:
        return ANALYSIS[key]
    if res is None:
        res = run_carrier_case(case)
    out = {"kind": None, "codes": [], "cf": None, "unedited": not case["ops"], "carrier": None}
    if res["fail"]:
        f = res["fail"]
        out["kind"] = f["kind"]
        out["carrier"] = f.get("carrier")
        if answers is None:
            answers = vlib.model_ask("Shortcut", [q for q, _, _ in res["pending"]])
        codes = set()
        for (q, c, ob), a in zip(res["pending"], answers):
            pa = parse_upd_answer(a)
            car = ob.carrier
            if f["stage"] == "write" and (car == f.get("carrier") or f.get("carrier") is None):
                codes |= pa["codes"]
                if pa["error"] == "err:index":
                    codes.add("v")
                if pa["error"] == "err:zerodiv":
                    codes.add("z")
        out["codes"] = sorted(codes)
        if f["stage"] == "write":
            cards = {}
            for c, toks in case["cards"].items():
                ex = expanded_tokens(toks, keep_trailing_jumps=False)
                cards[c] = ex if ex else toks
            cfc = dict(case, cards=cards)
            try:
                r2 = run_carrier_case(cfc)
                out["cf"] = None if r2["skipped"] else (r2["fail"] is None)
            except Exception:
                out["cf"] = None
    ANALYSIS[key] = out
    return out


def analyse(fcase):
    c = fcase.get("case")
    if fcase.get("stream") == "bare":
        return analyse_bare(c)
    if fcase.get("stream") == "carrier":
        return analyse_carrier(c)
    return None


# ---------------------------------------------------------------------------- TR cards and surface constants
def gen_direct_case(rng):
    """a TR card (12 entries) or a surface whose constants are written with shortcuts, edited through the API"""
    if rng.random() < 0.6:
        vals = [rng.choice(["0", "1", "2", "0.5"]) for _ in range(3)] + ["1", "0", "0", "0", "1", "0", "0", "0", "1"]
        if rng.random() < 0.5:
            # entries that are jumped over, in the displacement and in the rotation part
            for _ in range(rng.choice([1, 1, 2, 3])):
                a = rng.randrange(12)
                for k in range(a, min(12, a + rng.choice([1, 1, 2, 3]))):
                    vals[k] = "j"
        toks = []
        i = 0
        while i < len(vals):
            run = 1
            while i + run < len(vals) and vals[i + run] == vals[i]:
                run += 1
            if vals[i] == "j":
                toks.append({"k": "j", "t": (str(run) if run > 1 or rng.random() < 0.3 else "") + cased(rng, "j")})
                i += run
                continue
            toks.append({"k": "n", "t": vals[i]})
            if run > 1 and rng.random() < 0.8:
                toks.append({"k": "r", "t": (str(run - 1) if run > 2 or rng.random() < 0.5 else "") + "r"})
                i += run
            else:
                i += 1
        edits = [[rng.randrange(12), rng.choice([0.0, 1.0, 2.0, 0.25, -1.0])] for _ in range(rng.choice([0, 0, 1, 1, 2]))]
        return {"card": "tr", "toks": toks, "edits": edits, "star": rng.random() < 0.2}
    # a general quadric: 10 constants
    n = 10
    toks = gen_card_tokens(rng, "vol", n)
    toks = [t for t in toks if t["k"] != "j"]
    want = spec.expand_shortcuts(spec.tokens(text_of(toks)))
    while len(want) < n:
        toks.append({"k": "n", "t": rng.choice(["1", "2", "0.5"])})
        want = spec.expand_shortcuts(spec.tokens(text_of(toks)))
    edits = [[rng.randrange(n), rng.choice([0.5, 1.0, 3.0, 7.25, -2.0])] for _ in range(rng.choice([0, 1, 1, 2]))]
    return {"card": "gq", "toks": toks, "edits": edits}


def run_direct_case(case):
    """-> None | failure dict | 'skip'"""
    text = text_of(case["toks"])
    try:
        want = spec.expand_shortcuts(spec.tokens(text))
    except (TypeError, ValueError):
        return "skip"
    if not all(isinstance(x, Fraction) or (x == "J" and case["card"] == "tr") for x in want):
        return "skip"
    if case["card"] == "tr":
        if len(want) != 12:
            return "skip"
        prob = f"title\n1 0 -1\n\n1 so 1\n\nmode n\n{'*' if case.get('star') else ''}tr5 {text}\n\n"
    else:
        if len(want) != 10:
            return "skip"
        prob = f"title\n1 0 -1\n\n1 gq {text}\n\nmode n\n\n"
    with warnings.catch_warnings():
        warnings.simplefilter("ignore")
        try:
            pr = mp.read_problem(prob)
        except Exception as e:
            return {"kind": "exception:" + type(e).__name__, "stage": "read"}
        try:
            if case["card"] == "tr":
                t = pr.transforms[5]
                cur = [None if x is None else float(x) for x in t.displacement_vector] + \
                      [None if x is None else float(x) for x in t.rotation_matrix]
                k = spec_matches(want, cur, allow_trailing=True)
                cur += [None] * (12 - len(cur))
                if k:
                    return {"kind": "misread:" + k, "stage": "read", "values": [str(v) for v in cur]}
                for i, v in case["edits"]:
                    if i < 3:
                        d = t.displacement_vector.copy()
                        d[i] = v
                        t.displacement_vector = d
                    else:
                        m = t.rotation_matrix.copy()
                        m[i - 3] = v
                        t.rotation_matrix = m
                    cur[i] = v
                name = "*TR5" if case.get("star") else "TR5"
            else:
                s = pr.surfaces[1]
                cur = [float(x) for x in s.surface_constants]
                k = spec_matches(want, cur, allow_trailing=False)
                if k:
                    return {"kind": "misread:" + k, "stage": "read", "values": [str(v) for v in cur]}
                for i, v in case["edits"]:
                    c = list(s.surface_constants)
                    c[i] = v
                    s.surface_constants = c
                    cur[i] = v
                name = "1"
        except Exception as e:
            return "skip"
        try:
            out = mp.write_problem(pr, "direct.i")
        except Exception as e:
            return {"kind": "exception:" + type(e).__name__, "stage": "write"}
    sp = spec.split_file(out)
    toks = None
    blk = 2 if case["card"] == "tr" else 1
    if len(sp["blocks"]) > blk:
        for card in sp["blocks"][blk]:
            tk = spec.tokens(card.text)
            if tk and tk[0] == name:
                toks = tk[1:] if case["card"] == "tr" else tk[2:]
    if toks is None:
        return {"kind": "card-missing", "stage": "write"}
    try:
        sv = spec.expand_shortcuts(toks)
    except (TypeError, ValueError, ZeroDivisionError, OverflowError):
        return {"kind": "invalid-token", "stage": "write", "text": " ".join(toks)}
    if case["card"] == "tr" and len(sv) == 13:
        sv = sv[:12]
    k = spec_matches(sv, cur, allow_trailing=(case["card"] == "tr"))
    if k:
        return {"kind": k, "stage": "write", "text": " ".join(toks), "values": [str(v) for v in cur]}
    return None


# ---------------------------------------------------------------------------- every position
def sweep_cases(rng, wide=False):
    """one generated list x (edit | insert | delete | unset) at every position"""
    which = rng.choice(["data", "surf", "surf"])
    toks = gen_tokens(rng, allow_m=(which == "surf"), wide=wide, errors=0.0, max_groups=rng.choice([2, 3, 4]))
    seps = seps_for(rng, len(toks))
    ln, err = real_parse(text_of(toks, seps), which)
    if ln is None or any(n is None for n in ln.nodes):
        return []
    n = len(list(ln))
    if n > (60 if wide else 26):
        return []
    out = []
    v = rng.choice(EDIT_NEAR if rng.random() < 0.25 else EDIT_VALUES)
    for p in range(n + 1):
        ops = [["ins", p, v, rng.random() < 0.7]]
        if p < n:
            ops += [["set", p, v], ["del", p], ["none", p]]
        for op in ops:
            out.append({"which": which, "toks": toks, "seps": seps, "rounds": [[op]]})
        if p < n:
            # ... and the same value taken away / changed, written, and put back
            out.append({"which": which, "toks": toks, "seps": seps, "rounds": [[["none", p]], [["restore", p]]]})
            out.append({"which": which, "toks": toks, "seps": seps, "rounds": [[["set", p, v]], [["restore", p]]]})
    return out


# ---------------------------------------------------------------------------- shrinking of the other streams
def shrink_carrier(case, kind):
    def bad(c):
        try:
            r = run_carrier_case(c)
        except Exception:
            return False
        return r["fail"] is not None and r["fail"]["kind"] == kind
    cur = copy.deepcopy(case)
    changed = True
    while changed:
        changed = False
        for i in range(len(cur["ops"]) - 1, -1, -1):
            c = copy.deepcopy(cur)
            del c["ops"][i]
            if bad(c):
                cur, changed = c, True
        for card in sorted(cur["cards"]):
            if len(cur["cards"]) > 1:
                c = copy.deepcopy(cur)
                del c["cards"][card]
                c["ops"] = [o for o in c["ops"] if not (o[0] == "set" and o[1] == card)]
                if c["cards"] and bad(c):
                    cur, changed = c, True
        if cur.get("writes", 1) > 1:
            c = dict(copy.deepcopy(cur), writes=1)
            if bad(c):
                cur, changed = c, True
    return cur


def shrink_tokens(case, bad):
    cur = copy.deepcopy(case)
    changed = True
    while changed:
        changed = False
        i = len(cur["toks"]) - 1
        while i >= 0:
            for width in (1, 2, 3):
                if i + width > len(cur["toks"]):
                    continue
                c = copy.deepcopy(cur)
                del c["toks"][i:i + width]
                if c["toks"] and bad(c):
                    cur, changed = c, True
                    break
            i -= 1
        if cur.get("edits"):
            for i in range(len(cur["edits"]) - 1, -1, -1):
                c = copy.deepcopy(cur)
                del c["edits"][i]
                if bad(c):
                    cur, changed = c, True
    return cur


# ---------------------------------------------------------------------------- reading: model vs real parser
def exp_case(rng, wide):
    which = rng.choice(["data", "surf"])
    toks = gen_tokens(rng, allow_m=(which == "surf"), wide=wide, errors=0.06)
    if rng.random() < 0.05:
        i = [j for j, t in enumerate(toks) if t["k"] in ("i", "l") and j + 1 < len(toks)]
        if i:
            toks[rng.choice(i) + 1] = {"k": "n", "t": "0"}
    return {"which": which, "toks": toks}


def exp_compare(case, ans):
    """-> None or a description of the disagreement between the model's reading and the real parser's"""
    merr, mnodes, mvals, msvals = parse_exp_answer(ans)
    ln, rerr = real_parse(text_of(case["toks"]), case["which"])
    if ln is not None and any(n is None for n in ln.nodes):
        return None
    if merr != rerr:
        return {"what": "error class", "model": merr, "real": rerr}
    if merr:
        return None
    d = compare_reading(mnodes, dump_parsed(ln))
    if d:
        return {"what": d, "model": ans[:300]}
    # the model's own independent expansion against spec.py's
    sv = spec_values(text_of(case["toks"]))
    if msvals is not None and all(x == "J" or isinstance(x, Fraction) for x in sv):
        mv = model_vals_to_spec(msvals)
        if len(mv) != len(sv) or any(not (a == b or (isinstance(a, Fraction) and isinstance(b, Fraction) and spec.close(a, b)))
                                     for a, b in zip(mv, sv)):
            return {"what": "Shortcut.spec_expand vs spec.expand_shortcuts", "model": [str(x) for x in mv],
                    "spec": [str(x) for x in sv]}
    return None


# ---------------------------------------------------------------------------- replay and run
def check_fcase(fc):
    """re-run a recorded failing case; -> failure dict or None"""
    st = fc.get("stream")
    c = fc.get("case")
    if st in ("bare", "sweep"):
        return bare_fails(c)
    if st == "carrier":
        return run_carrier_case(c)["fail"]
    if st == "read":
        return run_read_case(c)
    if st == "direct":
        r = run_direct_case(c)
        return None if r == "skip" else r
    if st == "exp":
        ans = vlib.model_ask("Shortcut", ["exp " + ",".join(tok_request(t) for t in c["toks"])])[0]
        return exp_compare(c, ans)
    if st == "upd":
        ans = vlib.model_ask("Shortcut", [c["request"]])[0]
        return None if ans == c["answer"] else {"kind": "model answer changed", "model": ans}
    return None


def replay(ctx, path):
    with open(path) as fh:
        fc = json.load(fh)
    vlib.coq_make(["Model/Shortcut.vo"])
    f = check_fcase(fc)
    if f:
        print(f"REPLAY property=C08 still fails: {json.dumps(f, default=str)[:300]}")
        print(f"VIOLATION property=C08 replay={path}")
        return 1
    print("REPLAY property=C08 passes")
    return 0


def run(ctx):
    quick = ctx.tier == "quick"
    n_exp = 700 if quick else 8000
    n_bare = 620 if quick else 12000
    n_sweep = 18 if quick else 200
    n_carrier = 150 if quick else 1900
    n_read = 500 if quick else 6000
    n_direct = 120 if quick else 1400
    ctx.prove()
    ok, log = vlib.coq_make(["Model/Shortcut.vo"])
    if not ok:
        ctx.broken_obligations.append({"obligation": "Model/Shortcut.vo builds", "detail": log[-800:]})
        return ctx.finish(vlib.KERNEL_TB, [], "model did not build")
    dist = {"exp": {"cases": 0, "errors": {}, "tokens": 0, "kinds": {}},
            "bare": {"cases": 0, "updates": 0, "skipped": {}, "values": 0, "kinds": {}, "recompressed_shortcuts": 0,
                     "ops": {}},
            "sweep": {"lists": 0, "cases": 0, "ops": {}},
            "carrier": {"cases": 0, "cards": {}, "ops": {}, "in_situ_updates": 0, "skipped": 0},
            "read": {"cases": 0, "cards": {}, "meaningless": 0},
            "direct": {"cases": 0, "cards": {}, "skipped": 0, "edited": 0},
            "failure_kinds": {}, "corpus": 0}
    all_reqs, all_answers = [], []
    corr_bad = []

    def bump(d, k, n=1):
        d[k] = d.get(k, 0) + n

    def record_failure(stream, case, fail, shrunk=True):
        """every failing case is attributed or counted; at most 25 violations are written out"""
        bump(dist["failure_kinds"], stream + ":" + str(fail.get("kind")))
        fc = {"stream": stream, "case": case, "kind": fail.get("kind"), "detail": fail}
        if len(ctx.violations) >= 25 and ctx.attribute(fc) is None:
            bump(dist, "violations_not_written")
            return
        ctx.fail(fc)

    # ---- corpus: minimised past failures (fixed defects must stay fixed), run first
    cdir = os.path.join(vlib.VERIF, "corpus", "C08")
    if os.path.isdir(cdir):
        for f in sorted(os.listdir(cdir)):
            if not f.endswith(".json"):
                continue
            with open(os.path.join(cdir, f)) as fh:
                fc = json.load(fh)
            dist["corpus"] += 1
            ctx.count_case(("corpus", f), nontrivial=True)
            try:
                fl = check_fcase(fc)
            except Exception as e:
                fl = {"kind": "exception:" + type(e).__name__}
            if fl:
                record_failure(fc.get("stream"), fc.get("case"), dict(fl, corpus=f))

    # ---- reading: model vs the real parsers (DataParser and SurfaceParser)
    ecases = [exp_case(random.Random(f"{ctx.seed}:C08:e:{i}"), wide=(i % 5 == 0)) for i in range(n_exp)]
    ereqs = ["exp " + ",".join(tok_request(t) for t in c["toks"]) for c in ecases]
    eans = vlib.model_ask("Shortcut", ereqs)
    all_reqs += ereqs
    all_answers += eans
    for c, a in zip(ecases, eans):
        ctx.cov["programs"] += 1
        ctx.cov["disagreements_checked"] += 1
        dist["exp"]["cases"] += 1
        dist["exp"]["tokens"] += len(c["toks"])
        for t in c["toks"]:
            bump(dist["exp"]["kinds"], t["k"])
        bump(dist["exp"]["errors"], a.split(" ")[0])
        ctx.count_case(("exp", c["which"], text_of(c["toks"])), nontrivial=len(c["toks"]) > 1)
        d = exp_compare(c, a)
        if d:
            corr_bad.append({"stream": "exp", "case": c, "detail": d})
    if ecases:
        ctx.sample({"stream": "exp", "list": text_of(ecases[0]["toks"]), "model": eans[0][:200]})

    # ---- bare ListNodes: generated edit scripts + every position
    bcases = []
    for i in range(n_bare):
        bcases.append(("bare", gen_bare_case(random.Random(f"{ctx.seed}:C08:b:{i}"), wide=(i % 7 == 0))))
    for i in range(n_sweep):
        sc_ = sweep_cases(random.Random(f"{ctx.seed}:C08:s:{i}"), wide=(not quick and i % 9 == 0))
        if sc_:
            dist["sweep"]["lists"] += 1
        for c in sc_:
            bcases.append(("sweep", c))
    results = []
    for stream, c in bcases:
        try:
            r = run_bare_case(c)
        except Exception as e:
            r = {"corr": [], "fail": {"kind": "harness:" + type(e).__name__, "round": -1}, "pending": [], "skipped": None,
                 "updates": 0, "nvals": 0, "kinds": set(), "recompressed": 0}
        results.append(r)
        d = dist[stream]
        d["cases"] += 1
        for rd in c["rounds"]:
            for op in rd:
                bump(d["ops"], op[0])
        if stream == "bare":
            d["updates"] += r["updates"]
            d["values"] += r["nvals"]
            d["recompressed_shortcuts"] += r["recompressed"]
            for k in r["kinds"]:
                bump(d["kinds"], k)
            if r["skipped"]:
                bump(d["skipped"], str(r["skipped"]))
        ctx.count_case((stream, c["which"], text_of(c["toks"], c.get("seps")), json.dumps(c["rounds"])),
                       nontrivial=bool(r["kinds"]) and r["updates"] > 0)
    reqs, answers = finish_cases(results)
    all_reqs += reqs
    all_answers += answers
    ctx.cov["programs"] += len(reqs)
    ctx.cov["disagreements_checked"] += len(reqs)
    nfail = 0
    for (stream, c), r in zip(bcases, results):
        for d in r["corr"]:
            corr_bad.append({"stream": stream, "case": c, "detail": d})
        if r["fail"]:
            nfail += 1
            small = shrink_bare(c, r["fail"]["kind"]) if nfail <= 30 else c
            f2 = bare_fails(small) or r["fail"]
            record_failure(stream, small, f2)
    for (stream, c), r in list(zip(bcases, results))[:2]:
        ctx.sample({"stream": stream, "list": text_of(c["toks"]), "rounds": c["rounds"],
                    "answers": [a[:160] for a in r.get("answers", [])][:2]})

    # ---- real carriers: data-block IMP / VOL / U / LAT / FILL with cells edited, added, removed, re-ordered
    cres = []
    ccases = [gen_carrier_case(random.Random(f"{ctx.seed}:C08:c:{i}"), wide=(not quick and i % 6 == 0))
              for i in range(n_carrier)]
    for c in ccases:
        try:
            r = run_carrier_case(c)
        except Exception as e:
            r = {"corr": [], "fail": {"kind": "harness:" + type(e).__name__}, "pending": [], "skipped": None, "obs": 0,
                 "cards": sorted(c["cards"])}
        cres.append(r)
        dist["carrier"]["cases"] += 1
        dist["carrier"]["in_situ_updates"] += r["obs"]
        dist["carrier"]["skipped"] += bool(r["skipped"])
        for k in c["cards"]:
            bump(dist["carrier"]["cards"], k)
        for op in c["ops"]:
            bump(dist["carrier"]["ops"], op[0])
        ctx.count_case(("carrier", json.dumps(c, sort_keys=True)), nontrivial=bool(c["ops"]) and not r["skipped"])
    reqs, answers = finish_cases(cres)
    all_reqs += reqs
    all_answers += answers
    ctx.cov["programs"] += len(reqs)
    ctx.cov["disagreements_checked"] += len(reqs)
    nfail = 0
    for c, r in zip(ccases, cres):
        for d in r["corr"]:
            corr_bad.append({"stream": "carrier", "case": c, "detail": d})
        if r["fail"]:
            nfail += 1
            small = shrink_carrier(c, r["fail"]["kind"]) if nfail <= 10 else c
            try:
                f2 = run_carrier_case(small)["fail"] or r["fail"]
            except Exception:
                f2 = r["fail"]
            record_failure("carrier", small, f2)
    if ccases:
        ctx.sample({"stream": "carrier", "cards": {k: text_of(v) for k, v in ccases[0]["cards"].items()},
                    "ops": ccases[0]["ops"]})

    # ---- reading through real cards (TR, VOL, generic data card, surface constants)
    nfail = 0
    for i in range(n_read):
        c = gen_read_case(random.Random(f"{ctx.seed}:C08:r:{i}"))
        dist["read"]["cases"] += 1
        bump(dist["read"]["cards"], c["card"])
        ctx.count_case(("read", c["card"], text_of(c["toks"])), nontrivial=any(t["k"] != "n" for t in c["toks"]))
        try:
            f = run_read_case(c)
        except Exception as e:
            f = {"kind": "harness:" + type(e).__name__}
        if f:
            nfail += 1
            kind = f["kind"]

            def bad(cc, kind=kind):
                try:
                    g = run_read_case(cc)
                except Exception:
                    return False
                return g is not None and g["kind"] == kind
            small = shrink_tokens(c, bad) if nfail <= 60 else c
            record_failure("read", small, run_read_case(small) or f)

    # ---- TR cards and surface constants edited through the API, written by write_to_file, re-read by spec.py
    nfail = 0
    for i in range(n_direct):
        c = gen_direct_case(random.Random(f"{ctx.seed}:C08:d:{i}"))
        try:
            f = run_direct_case(c)
        except Exception as e:
            f = {"kind": "harness:" + type(e).__name__}
        dist["direct"]["cases"] += 1
        bump(dist["direct"]["cards"], c["card"])
        if f == "skip":
            dist["direct"]["skipped"] += 1
            continue
        dist["direct"]["edited"] += bool(c["edits"])
        ctx.count_case(("direct", json.dumps(c, sort_keys=True)), nontrivial=bool(c["edits"]))
        if f:
            nfail += 1
            kind = f["kind"]

            def bad(cc, kind=kind):
                try:
                    g = run_direct_case(cc)
                except Exception:
                    return False
                return isinstance(g, dict) and g["kind"] == kind
            small = shrink_tokens(c, bad) if nfail <= 10 else c
            g = run_direct_case(small)
            record_failure("direct", small, g if isinstance(g, dict) else f)

    # ---- the extracted model against Coq's own evaluation
    nx, bad = vlib.vm_crosscheck("Shortcut", all_reqs, all_answers, sample=40 if quick else 250, seed=ctx.seed)
    if bad:
        ctx.broken_obligations.append({"obligation": "extraction cross-check Shortcut", "detail": bad[:2]})
    if corr_bad:
        first = corr_bad[0]
        ctx.broken_obligations.append({
            "obligation": "correspondence Shortcut.v vs ListNode / ShortcutNode / shortcut grammar",
            "detail": {"n": len(corr_bad), "first": {"stream": first["stream"], "detail": first["detail"],
                                                     "list": text_of(first["case"]["toks"]) if "toks" in first["case"]
                                                     else {k: text_of(v) for k, v in first["case"].get("cards", {}).items()},
                                                     "case": first["case"]}}})

    # ---- known findings: replay the committed ones
    for fd in ctx.findings:
        if fd.get("status") == "open" and fd.get("replay"):
            try:
                with open(os.path.join(vlib.VERIF, fd["replay"])) as fh:
                    fc = json.load(fh)
                fd["_reproduced"] = check_fcase(fc) is not None
            except Exception:
                fd["_reproduced"] = False

    tb = vlib.KERNEL_TB + [
        "modelled, not verified: ShortcutNode.__init__/_expand_*, consume_edge_node/_can_consume_node/"
        "_is_valid_interpolate_edge, _describes_its_values, _format_expanded/_format_jump/_format_repeat/_format_multiply/"
        "_format_interpolate, ListNode.update_with_new_values/_expand_shortcuts/format and the grammar rules "
        "number_sequence/shortcut_start/shortcut_sequence/shortcut_phrase as coq/Model/Shortcut.v (values: binary64 -> "
        "exact rationals); NOT modelled (inputs of the model, taken from the real objects per case): the text "
        "ValueNode.format gives every value leaf and the multiplier (C05), log/pow decisions of nILOG, the lexer",
        "spec.py (independent MCNP reader: tokens, read_number, expand_shortcuts) is the oracle of the search",
        f"vm_compute cross-check of {nx} model requests",
    ]
    assumptions = [
        "trailing jumps left off a written list mean the same as written jumps (MCNP fills missing entries with the "
        "default); 'u 0' and a jump mean the same universe",
        "C08_recompress_partial has the side condition format_ok (every printed leaf text is one blank-terminated "
        "word, paddings are blank); the model reports it per case (codes), the oracle judges the real text",
        "new value nodes passed to update_with_new_values are pairwise distinct objects",
        "nILOG values are compared numerically (binary64 log/pow) only by the oracle; the model keeps them symbolic",
    ]
    return ctx.finish(
        tb, assumptions,
        "cases = token lists from NL(x) (numbers, nJ, nR, xM, nI, nILOG; counts absent/0/1/2..120; adjacent and chained "
        "shortcuts; shortcuts at either end) read by DataParser/SurfaceParser; the same lists after edit scripts "
        "(set/insert/delete/unset/move/duplicate) and after one edit at every position; data-block IMP/VOL/U/LAT/FILL "
        "cards of whole problems after API edits, cell removal, addition and re-ordering, written by write_to_file; "
        "TR cards and surface constants edited in place.  distinct = distinct (parser, text, edits) or problem; "
        "non-trivial = the list contains a shortcut and at least one update ran (or an edit was applied)",
        extra={"input_distribution": dist, "correspondence_mismatches": len(corr_bad)})
