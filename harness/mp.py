"""mp.py — helpers to drive the real MontePy from the harness (scratch files live in a
per-process temporary directory outside /repo and /verif and are removed at exit)."""
import atexit
import os
import shutil
import tempfile
import warnings

_TMP = None


def tmpdir():
    global _TMP
    if _TMP is None:
        _TMP = tempfile.mkdtemp(prefix="mpverif_")
        atexit.register(lambda: shutil.rmtree(_TMP, ignore_errors=True))
    return _TMP


def write_text(name, text):
    p = os.path.join(tmpdir(), name)
    os.makedirs(os.path.dirname(p), exist_ok=True)
    with open(p, "w", newline="") as f:
        f.write(text)
    return p


def read_problem(text, name="in.i", version=None):
    import montepy
    p = write_text(name, text)
    with warnings.catch_warnings():
        warnings.simplefilter("ignore")
        if version is None:
            return montepy.read_input(p)
        return montepy.read_input(p, mcnp_version=version)


def write_problem(problem, name="out.i", version=None):
    p = os.path.join(tmpdir(), name)
    if version is not None:
        problem.mcnp_version = version
    with warnings.catch_warnings():
        warnings.simplefilter("ignore")
        problem.write_to_file(p, overwrite=True)
    with open(p, newline="") as f:
        return f.read()


def roundtrip(text, version=None):
    pr = read_problem(text, version=version)
    return pr, write_problem(pr, version=version)


def exc_name(e):
    return type(e).__name__
